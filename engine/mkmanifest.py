#!/usr/bin/env python3
"""regenerate MANIFEST.json from props/*.py (claimed) and props/not_applicable.json"""
import json, os, glob, importlib.util, sys
VERIF = os.path.dirname(os.path.dirname(os.path.abspath(__file__)))
sys.path.insert(0, os.path.join(VERIF, 'engine'))
import driver
props = [json.loads(l)['id'] for l in open(os.path.join(VERIF, 'properties.jsonl'))]
na = json.load(open(os.path.join(VERIF, 'props', 'not_applicable.json')))
ready = set(open(os.path.join(VERIF, 'props', 'claimed.txt')).read().split())
checks = []
claimed = set()
for pid in props:
    p = os.path.join(VERIF, 'props', pid + '.py')
    if not os.path.exists(p) or pid not in ready: continue
    m = driver.load_prop(pid)
    meta = m.META
    if meta.get('claimed', True) is False: continue
    claimed.add(pid)
    checks.append({
        'property_id': pid,
        'quick_cmd': './check %s --tier quick' % pid,
        'thorough_cmd': './check %s --tier thorough' % pid,
        'evidence_file': '/verif/evidence/%s.json' % pid,
        'replay_cmd_template': './check %s --replay {path}' % pid,
        'engine': 'cxx2c+cbmc-contracts',
        'level_claimed': {'category': meta.get('level', 'proof'), 'text': meta['level_text'], 'design_ref': meta.get('design_ref', 'DESIGN.md section 6 ' + pid)},
        'level_note': meta['level_note'],
        'technique': meta.get('technique', 'contract-based deductive verification: CBMC function/loop contracts (goto-instrument --dfcc) on C extracted mechanically from the instantiated C++'),
    })
man = {
    'version': 1,
    'setup_cmd': 'true',
    'hooks': {'guard': 'NMTOOLS_VERIF', 'enable': 'no hooks needed: contracts are sidecar files (/verif/contracts, /verif/spec) spliced into C generated from /repo on every run',
              'baseline_off_cmd': 'ctest --test-dir /repo/_build -j8 --timeout 900', 'source_commits': [], 'add_only': True},
    'engines': [{'name': 'cxx2c+cbmc-contracts', 'path': '/verif/engine', 'serves_properties': sorted(claimed),
                 'kind_free_text': 'clang JSON AST of instantiated templates -> C (engine/cxx2c.py) -> CBMC code contracts (dfcc) -> native replay against the real headers'}],
    'checks': checks,
    'notes': 'exit 0 = all obligations discharged; exit 1 = VIOLATION (failed obligation, replayed natively where possible); exit 2 = undecided/machinery (never a violation). See DESIGN.md.',
    'not_applicable': [{'property_id': p, 'reason': na.get(p, 'check not built yet')} for p in props if p not in claimed],
}
json.dump(man, open(os.path.join(VERIF, 'MANIFEST.json'), 'w'), indent=1)
print('claimed:', sorted(claimed)); print('n/a:', [x['property_id'] for x in man['not_applicable']])
