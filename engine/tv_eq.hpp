// translation validation helper: compare a value computed by the REAL C++ code with the value computed by the generated C
// (layout structs in namespace cgen). Logical comparison (sizes + live elements), not memcmp.
#pragma once
#include <type_traits>
#include <utility>
#include <cmath>
#include <cstring>

namespace tv {
template <class...> using void_t = void;
#define TV_HAS(name, expr) \
  template <class T, class = void> struct name : std::false_type {}; \
  template <class T> struct name<T, void_t<decltype(expr)>> : std::true_type {};
TV_HAS(has_has,   std::declval<T&>().has)
TV_HAS(has_val,   std::declval<T&>().val)
TV_HAS(has_size_, std::declval<T&>().size_)
TV_HAS(has_buffer, std::declval<T&>().buffer)
TV_HAS(has_elems, std::declval<T&>()._M_elems)
TV_HAS(has_e0, std::declval<T&>().e0)
TV_HAS(has_e1, std::declval<T&>().e1)
TV_HAS(has_e2, std::declval<T&>().e2)
TV_HAS(has_e3, std::declval<T&>().e3)
TV_HAS(has_buffer_, std::declval<T&>().buffer_)
TV_HAS(has_shape_, std::declval<T&>().shape_)
TV_HAS(has_data_, std::declval<T&>().data_)
TV_HAS(has_empty, std::declval<T&>()._empty)
TV_HAS(has_strides_, std::declval<T&>().strides_)
TV_HAS(has_offset_, std::declval<T&>().offset_)
TV_HAS(has_a, std::declval<T&>().a)
TV_HAS(has_ok, std::declval<T&>().ok)
TV_HAS(has_tv_plain, std::declval<T&>().tv_plain)
TV_HAS(has_strides_fn, std::declval<T&>().strides_fn)
#undef TV_HAS

template <class T> struct dependent_false : std::false_type {};
static unsigned long unsupported = 0;   // comparisons skipped because the result layout is not known to this helper

template <class R, class C> bool eq(const R& real, const C& raw);

template <class A, class B> bool eq_scalar(A a, B b)
{
  if constexpr (std::is_floating_point_v<A> || std::is_floating_point_v<B>) {
    if (std::isnan((double)a) && std::isnan((double)b)) return true;
    return std::memcmp(&a, &b, sizeof(a) < sizeof(b) ? sizeof(a) : sizeof(b)) == 0 || a == b;
  } else return a == (A)b && (B)a == b;
}

template <class R, class C> bool eq(const R& real, const C& raw)
{
  if constexpr (std::is_arithmetic_v<C> || std::is_enum_v<C>) {
    return eq_scalar(real, raw);
  } else if constexpr (has_tv_plain<C>::value) {                          // opt-in: plain observation struct (member `tv_plain`), same layout on both sides
    static_assert(sizeof(R) == sizeof(C) && std::has_unique_object_representations_v<R>, "tv_plain struct must be padding-free integer data of equal size");
    return std::memcmp(&real, &raw, sizeof(R)) == 0;
  } else if constexpr (has_has<C>::value && has_val<C>::value) {          // std::optional model
    if ((bool)real != (bool)raw.has) return false;
    if (!raw.has) return true;
    return eq(*real, raw.val);
  } else if constexpr (has_size_<C>::value && has_buffer<C>::value) {    // utl::static_vector
    if ((unsigned long)real.size() != (unsigned long)raw.size_) return false;
    for (unsigned long i = 0; i < raw.size_; i++) if (!eq(real[(int)i], raw.buffer.buffer[i])) return false;
    return true;
  } else if constexpr (has_elems<C>::value) {                            // std::array model
    constexpr unsigned long N = sizeof(raw._M_elems) / sizeof(raw._M_elems[0]);
    for (unsigned long i = 0; i < N; i++) if (!eq(real[i], raw._M_elems[i])) return false;
    return true;
  } else if constexpr (has_buffer<C>::value) {                           // utl::array
    constexpr unsigned long N = sizeof(raw.buffer) / sizeof(raw.buffer[0]);
    for (unsigned long i = 0; i < N; i++) if (!eq(real[(int)i], raw.buffer[i])) return false;
    return true;
  } else if constexpr (has_e0<C>::value) {                               // std::tuple model
    bool ok = eq(std::get<0>(real), raw.e0);
    if constexpr (has_e1<C>::value) ok = ok && eq(std::get<1>(real), raw.e1);
    if constexpr (has_e2<C>::value) ok = ok && eq(std::get<2>(real), raw.e2);
    if constexpr (has_e3<C>::value) ok = ok && eq(std::get<3>(real), raw.e3);
    return ok;
  } else if constexpr (has_strides_fn<C>::value) {                        // C20 dynamic_ndarray observation (inst/c20d.cpp)
    return eq(real.shape, raw.shape) && eq(real.strides, raw.strides) && eq(real.strides_fn, raw.strides_fn)
        && eq(real.numel, raw.numel) && eq(real.numel_fn, raw.numel_fn) && eq(real.dsize, raw.dsize) && eq(real.dim, raw.dim);
  } else if constexpr (has_a<C>::value && has_ok<C>::value) {            // C20 result pair {object a; bool ok}
    return eq(real.a, raw.a) && eq(real.ok, raw.ok);
  } else if constexpr (has_data_<C>::value && has_shape_<C>::value && has_strides_<C>::value && has_offset_<C>::value) {  // generic ndarray_t state
    return eq(real.data_, raw.data_) && eq(real.shape_, raw.shape_) && eq(real.strides_, raw.strides_)
        && eq(real.offset_.shape_, raw.offset_.shape_) && eq(real.offset_.strides_, raw.offset_.strides_);
  } else if constexpr (has_buffer_<C>::value && has_shape_<C>::value && has_strides_<C>::value) {
    if constexpr (sizeof(std::declval<C&>().shape_) > sizeof(unsigned long)) {                         // hybrid_ndarray of rank > 1: whole state
      return eq(real.buffer_, raw.buffer_) && eq(real.shape_, raw.shape_) && eq(real.strides_, raw.strides_);
    } else {                                                                                           // 1-d hybrid_ndarray used as index array
      unsigned long n = raw.shape_._M_elems[0];
      if ((unsigned long)real.shape_[0] != n) return false;
      for (unsigned long i = 0; i < n; i++) if (!eq(real.buffer_[i], raw.buffer_._M_elems[i])) return false;
      return true;
    }
  } else if constexpr (has_buffer_<C>::value && has_shape_<C>::value) {  // 1-d hybrid_ndarray used as index array
    unsigned long n = raw.shape_._M_elems[0];
    if ((unsigned long)real.shape_[0] != n) return false;
    for (unsigned long i = 0; i < n; i++) if (!eq(real.buffer_[i], raw.buffer_._M_elems[i])) return false;
    return true;
  } else if constexpr (has_empty<C>::value) {
    return true;
  } else {
    unsupported++;      // unknown layout: not compared (reported by the harness, never a mismatch)
    return true;
  }
}
}  // namespace tv
