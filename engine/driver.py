#!/usr/bin/env python3
"""
driver: extract -> contract -> discharge -> replay -> evidence   (see DESIGN.md section 3)

exit 0  every obligation of every unit discharged (KNOWN-FINDING lines may be printed)
exit 1  some obligation FAILED that no known finding covers  -> VIOLATION line
exit 2  undecided / machinery problem (extraction abort, must-fire rule, timeout, ledger mismatch)
"""
import json, os, re, shutil, subprocess, sys, tempfile, time, hashlib, importlib.util
from concurrent.futures import ThreadPoolExecutor

VERIF = os.path.dirname(os.path.dirname(os.path.abspath(__file__)))
OUT = os.environ.get('VERIF_OUT', VERIF)     # where evidence/ and replays/ are written (scratch dir for mutation self-test children)
REPO = os.environ.get('VERIF_REPO', '/repo')
CLANG_FLAGS = ['-std=c++17', '-DNDEBUG', '-I' + REPO + '/include', '-Wno-everything']
CBMC_CHECKS = ['--bounds-check', '--pointer-check', '--div-by-zero-check', '--signed-overflow-check',
               '--conversion-check', '--pointer-overflow-check']

class Undecided(Exception):
    pass

def sh(cmd, timeout=None, cwd=None, mem_gb=None, env=None):
    pre = ''
    if mem_gb: pre = 'ulimit -v %d; ' % (mem_gb * 1024 * 1024)
    t0 = time.time()
    try:
        p = subprocess.run(['bash', '-c', pre + ' '.join("'%s'" % c.replace("'", "'\\''") for c in cmd)],
                           stdout=subprocess.PIPE, stderr=subprocess.PIPE, timeout=timeout, cwd=cwd, env=env)
        return p.returncode, p.stdout.decode('utf-8', 'replace'), p.stderr.decode('utf-8', 'replace'), time.time() - t0
    except subprocess.TimeoutExpired as e:
        return -9, (e.stdout or b'').decode('utf-8', 'replace'), 'TIMEOUT', time.time() - t0

class Unit:
    """one function under contract, discharged in one CBMC run"""
    def __init__(self, name, inst, target, mode='bp', replace=(), unwind=None, extra=(), bounded=None, harness=None,
                 uchecks=False, timeout=None, clause=None, defines=(), object_bits=None, nondet_static=False, no_canary=False,
                 covers=None, unwind_loops=None, tier='quick', lemma=None, gi_extra=(), waive=(), plain=False):
        self.waive = list(waive)        # regexes on CBMC check descriptions that are NOT obligations of this unit (e.g. --conversion-check
                                        # on signed<->unsigned integer conversions, which are well defined / modular in C++); a matching
                                        # FAILED check is listed under 'waived' in the evidence instead of failing the unit
        self.name = name; self.inst = inst; self.target = target; self.mode = mode
        self.replace = list(replace); self.unwind = unwind; self.extra = list(extra)
        self.bounded = bounded          # None = unbounded proof; else text stating the bound
        self.harness = harness          # custom harness body (C text) or None
        self.uchecks = uchecks          # add --unsigned-overflow-check
        self.timeout = timeout
        self.clause = clause            # which clause of the property statement this unit decides
        self.defines = list(defines)
        self.object_bits = object_bits
        self.no_canary = no_canary
        self.covers = covers
        self.unwind_loops = dict(unwind_loops or {})   # {regex on C function name: N}: code loops WITHOUT contract that are
                                                       # unwound completely before dfcc (constant trip count; else set bounded=)
        self.tier = tier
        self.lemma = lemma
        self.plain = plain   # no contract instrumentation: assume pre_, run the code with all loops unwound, assert post_ (bounded units)
        self.gi_extra = list(gi_extra)  # extra goto-instrument options (e.g. --no-malloc-may-fail for heap units: C library model options are fixed when dfcc links the library)

class Lemma:
    def __init__(self, name, file, kind='lean', clause=None):
        self.name = name; self.file = file; self.kind = kind; self.clause = clause

def load_prop(pid):
    path = os.path.join(VERIF, 'props', pid + '.py')
    if not os.path.exists(path): raise Undecided('no property definition ' + path)
    spec = importlib.util.spec_from_file_location('prop_' + pid, path)
    m = importlib.util.module_from_spec(spec)
    m.Unit = Unit; m.Lemma = Lemma
    def import_units(src_pid, names=None, clause=None, tier=None):
        """re-use units of another property (composite properties C02 / C09 / C15): same contracts, same discharge"""
        import copy
        sm = load_prop(src_pid)
        out = []
        for u in sm.UNITS:
            if names is not None and u.name not in names: continue
            v = copy.copy(u); v.name = '%s:%s' % (src_pid, u.name); v.src_pid = src_pid
            if clause: v.clause = clause
            if tier: v.tier = tier
            out.append(v)
        if names is not None:
            missing = set(names) - set(u.name for u in sm.UNITS)
            if missing: raise Undecided('must-fire: units %s not found in %s' % (sorted(missing), src_pid))
        return out
    m.import_units = import_units
    spec.loader.exec_module(m)
    return m

class Run:
    def __init__(self, pid, tier, seed, keep=False, verbose=False):
        self.pid = pid; self.tier = tier; self.seed = seed; self.keep = keep; self.verbose = verbose
        base = os.environ.get('TMPDIR', '/tmp')
        self.work = tempfile.mkdtemp(prefix='verif_%s_' % pid, dir=base)
        self.inst_built = {}
        self.t0 = time.time()
        self.assumption_scan = {}

    def log(self, *a):
        if self.verbose: print('[driver]', *a, file=sys.stderr, flush=True)

    def cleanup(self):
        if not self.keep: shutil.rmtree(self.work, ignore_errors=True)

    # ------------------------------------------------------------ extraction
    def build_inst(self, inst, defines=()):
        import threading
        if not hasattr(self, '_build_lock'): self._build_lock = threading.Lock(); self._build_failed = {}
        with self._build_lock:
            key = (inst, tuple(defines))
            if key in self.inst_built: return self.inst_built[key]
            if key in self._build_failed: raise Undecided(self._build_failed[key])
            try:
                return self._build_inst(inst, defines)
            except Undecided as e:
                self._build_failed[key] = str(e)
                raise

    def _build_inst(self, inst, defines=()):
        key = (inst, tuple(defines))
        tag = inst + ('_' + hashlib.sha1(' '.join(defines).encode()).hexdigest()[:6] if defines else '')
        src = os.path.join(VERIF, 'inst', inst + '.cpp')
        js = os.path.join(self.work, tag + '.json')
        t0 = time.time()
        cmdline = ' '.join(['clang++'] + CLANG_FLAGS + ['-D' + d for d in defines if d != '__VERIF_NOSPEC__'] + ['-fsyntax-only', '-Xclang', '-ast-dump=json', src])
        p = subprocess.run(['bash', '-c', cmdline + ' > ' + js], stderr=subprocess.PIPE, timeout=900)
        if p.returncode != 0:
            raise Undecided('clang failed on %s: %s' % (src, p.stderr.decode('utf-8', 'replace')[-2000:]))
        gen = os.path.join(self.work, tag + '.c')
        meta = os.path.join(self.work, tag + '.meta.json')
        structs = os.path.join(self.work, tag + '.structs.h')
        specs = []
        sp = os.path.join(VERIF, 'contracts', inst + '.spec')
        nospec = '__VERIF_NOSPEC__' in defines
        defines = tuple(x for x in defines if x != '__VERIF_NOSPEC__')
        if os.path.exists(sp) and not nospec: specs += ['--spec', sp]
        if os.path.exists(sp) and nospec:
            # bounded fallback: only the prelude of the sidecar file (includes / macros), no function or loop annotations
            pre = []
            for ln in open(sp).read().split('\n'):
                if ln.strip().startswith('@'): break
                pre.append(ln)
            spn = os.path.join(self.work, tag + '.prelude.spec')
            open(spn, 'w').write('\n'.join(pre) + '\n')
            specs += ['--spec', spn]
        ap_ = os.path.join(self.work, inst + '.auto.spec')
        if os.path.exists(ap_): specs += ['--spec', ap_]
        cmd = [sys.executable, os.path.join(VERIF, 'engine', 'cxx2c.py'), js, '--main-file', src,
               '--prelude', os.path.join(VERIF, 'models', 'prelude.h'), '-o', gen, '--meta', meta, '--structs-out', structs] + specs
        rc, out, err, dt2 = sh(cmd, timeout=900)
        os.unlink(js)
        if rc != 0:
            raise Undecided('extraction failed for %s: %s' % (inst, (err or out)[-3000:]))
        m = json.load(open(meta))
        info = {'gen': gen, 'meta': m, 'structs': structs, 'src': src, 'seconds': round(time.time() - t0, 1), 'spec': sp}
        self.inst_built[key] = info
        self.log('extracted', inst, 'functions=%d' % len(m['functions']), '%.1fs' % (time.time() - t0))
        return info

    # ------------------------------------------------------------ harness
    def resolve_target(self, info, target):
        fns = info['meta']['functions']
        if target in fns: return target
        hits = [c for c, f in fns.items() if strip_targs(f['qualname']) == target]
        if len(hits) == 1: return hits[0]
        m = re.match(r'^(.*)\[(.*)\]$', target)
        if m:
            hits = [c for c, f in fns.items() if strip_targs(f['qualname']) == m.group(1).strip() and m.group(2) in c]
            if len(hits) == 1: return hits[0]
        raise Undecided('must-fire: target %r resolves to %d functions %s' % (target, len(hits), hits[:5]))

    def make_harness(self, unit, info, cname):
        f = info['meta']['functions'][cname]
        lines = ['#include "%s"' % info['gen'], '']
        lines.append('int main(void) {')
        args = []
        for p in f['params']:
            if p['ptr']:
                lines.append('  %s;' % p['pointee_decl'].replace('$', 'a_' + p['name']))
                args.append('&a_' + p['name'])
            else:
                lines.append('  %s;' % p['decl'].replace('$', 'a_' + p['name']))
                args.append('a_' + p['name'])
        if info['meta'].get('has_havoc_ghosts'):
            lines.append('  verif_havoc_ghosts();')
        if unit.harness:
            lines.append(unit.harness)
        call = '%s(%s)' % (cname, ', '.join(args))
        if unit.plain:
            lines.append('  __CPROVER_assume(pre_%s(%s));' % (cname, ', '.join(args)))
            # known-finding regions of this entry: contract units get `requires !(region)` (auto_spec_text); a plain unit assumes the same
            # (the region is a predicate over the wrapper's by-value parameters: wrapped in a helper with exactly these parameter names)
            rgs = getattr(self, 'kf_regions', {}).get(unit.inst, {}).get(cname, [])
            if rgs and not any(p['ptr'] for p in f['params']):
                for k, rg in enumerate(rgs):
                    lines.insert(2, 'static int verif_kf_region_%d(%s) { return (%s) ? 1 : 0; }' % (k, ', '.join(p['decl'].replace('$', p['name']) for p in f['params']), rg))
                    lines.append('  __CPROVER_assume(!verif_kf_region_%d(%s));' % (k, ', '.join(args)))
            elif rgs:
                raise Undecided('plain unit %s: known-finding region on an entry with reference parameters is not supported' % unit.name)
        if f['ret'] != 'void':
            lines.append('  %s = %s;' % (f['ret_decl'].replace('$', 'r_ret'), call))
        else:
            lines.append('  %s;' % call)
        if unit.plain:
            lines.append('  __CPROVER_assert(post_%s(%s), "postcondition of %s (plain bounded unit)");' % (cname, ', '.join(args + ['r_ret']), cname))
        if not unit.no_canary:
            lines.append('  __CPROVER_assert(0, "VERIF_CANARY reachability of the end of the harness");')
        lines.append('  return 0;')
        lines.append('}')
        return '\n'.join(lines)

    # ------------------------------------------------------------ discharge
    def run_unit(self, unit):
        res = {'unit': unit.name, 'target': unit.target, 'mode': unit.mode, 'inst': unit.inst, 'bounded': unit.bounded,
               'status': 'undecided', 'obligations': 0, 'discharged': 0, 'failed': [], 'seconds': 0.0, 'clause': unit.clause}
        t0 = time.time()
        try:
            info = self.build_inst(unit.inst, unit.defines)
            if unit.lemma:
                return self.run_lemma_unit(unit, info, res, t0)
            cname = self.resolve_target(info, unit.target)
            res['cname'] = cname
            res['source'] = '%s:%s' % (info['meta']['functions'][cname]['file'], info['meta']['functions'][cname]['line'])
            reps = []
            for r in unit.replace:
                try:
                    reps.append(self.resolve_target(info, r))
                except Undecided as e:
                    if 'resolves to 0 functions' not in str(e): raise
                    # callee contract marked @optional whose function is no longer called: nothing to replace
                    res.setdefault('replace_skipped', []).append(r)
            ud = os.path.join(self.work, 'u_' + re.sub(r'\W+', '_', unit.name))
            os.makedirs(ud, exist_ok=True)
            hc = os.path.join(ud, 'h.c')
            open(hc, 'w').write(self.make_harness(unit, info, cname))
            defs = ['-DVERIF_CBMC']
            if unit.mode == 'uf': defs.append('-DVERIF_UF')
            if unit.mode == 'fuf': defs.append('-DVERIF_FUF')       # float ops / <cmath> uninterpreted; integer index arithmetic stays bit-precise
            rc, out, err, dt = sh(['goto-cc'] + defs + ['-I', VERIF, hc, '-o', os.path.join(ud, 'h.gb')], timeout=300)
            if rc != 0: raise Undecided('goto-cc failed for %s: %s' % (unit.name, (err + out)[-3000:]))
            # code loops without a loop contract must be unwound before dfcc (constant-trip loops only; see README)
            rc, cg, err, dt = sh(['goto-instrument', '--reachable-call-graph', os.path.join(ud, 'h.gb')], timeout=120)
            edges = {}
            for a_, b_ in re.findall(r'^(\S+) -> (\S+)$', cg, re.M): edges.setdefault(a_, set()).add(b_)
            reach = set(); todo = ['main']
            while todo:
                x = todo.pop()
                if x in reach: continue
                reach.add(x)
                if x in reps: continue          # body replaced by its contract: callees not part of this unit
                todo.extend(edges.get(x, ()))
            rc, out, err, dt = sh(['goto-instrument', '--show-loops', os.path.join(ud, 'h.gb')], timeout=120)
            fns = info['meta']['functions']
            uws = []; res['unwound_code_loops'] = []
            for m in re.finditer(r'^Loop (\S+)\.(\d+):\n\s+file (\S+) line (\d+) function (\S+)', out, re.M):
                lf, lk, lfile, lline = m.group(1), int(m.group(2)), m.group(3), int(m.group(4))
                if lf not in fns: continue          # spec-header function (pre_/post_/spec_): unwound by cbmc below
                if lf not in reach: continue        # not in the call closure of the target
                f = fns[lf]
                clines = set(l[2] for l in f['loops'] if l[0] in f.get('contract_loops', []))
                if lline in clines: continue
                n = None
                for rx, k in unit.unwind_loops.items():
                    if re.search(rx, lf): n = k
                if n is None:
                    raise Undecided('code loop without loop contract: %s.%d (%s:%d); add a contract or list it in unwind_loops' % (lf, lk, lfile, lline))
                uws.append('%s.%d:%d' % (lf, lk, n))
                res['unwound_code_loops'].append('%s.%d (%s:%d) x%d' % (lf, lk, os.path.basename(lfile), lline, n))
            src_gb = os.path.join(ud, 'h.gb')
            if uws:
                rc, out, err, dt = sh(['goto-instrument', '--unwindset', ','.join(uws), '--unwinding-assertions', src_gb, os.path.join(ud, 'hu.gb')], timeout=300)
                if rc != 0: raise Undecided('goto-instrument --unwindset failed: %s' % (err + out)[-1500:])
                src_gb = os.path.join(ud, 'hu.gb')
            gi = ['goto-instrument', '--dfcc', 'main', '--enforce-contract', cname]
            for r in reps: gi += ['--replace-call-with-contract', r]
            gi += unit.gi_extra
            gi += ['--apply-loop-contracts', src_gb, os.path.join(ud, 'hi.gb')]
            if unit.plain:
                if not unit.bounded: raise Undecided('plain units must be labelled bounded')
                shutil.copy(src_gb, os.path.join(ud, 'hi.gb'))
                gi = ['(no contract instrumentation: assume pre_, assert post_)', '', '']
            else:
                rc, out, err, dt = sh(gi, timeout=600, mem_gb=16)
                if rc != 0: raise Undecided('goto-instrument failed for %s: %s' % (unit.name, (err + out)[-3000:]))
                open(os.path.join(ud, 'gi.log'), 'w').write(out + err)
            cb = ['cbmc', os.path.join(ud, 'hi.gb')] + CBMC_CHECKS + ['--json-ui', '--trace']
            if unit.uchecks: cb.append('--unsigned-overflow-check')
            if unit.unwind: cb += ['--unwind', str(unit.unwind), '--unwinding-assertions']
            if unit.object_bits: cb += ['--object-bits', str(unit.object_bits)]
            cb += unit.extra
            tmo = unit.timeout or (300 if self.tier == 'quick' else 1800)
            rc, out, err, dt = sh(cb, timeout=tmo, mem_gb=24)
            res['solver_seconds'] = round(dt, 2)
            res['checker_cmd'] = ' '.join(gi[:-2]) + ' ; ' + ' '.join(['cbmc'] + cb[2:])
            open(os.path.join(ud, 'cbmc.json'), 'w').write(out)
            if rc == -9: raise Undecided('cbmc timeout (%ds) on unit %s' % (tmo, unit.name))
            if 'ignoring' in out and 'forall' in out:
                raise Undecided('cbmc ignored a quantifier in unit %s' % unit.name)
            try:
                msgs = json.loads(out)
            except Exception:
                raise Undecided('cbmc output unparsable for %s (rc=%s): %s' % (unit.name, rc, (out + err)[-1500:]))
            results = None; errs = []
            for m in msgs:
                if isinstance(m, dict) and 'result' in m: results = m['result']
                if isinstance(m, dict) and m.get('messageType') == 'ERROR': errs.append(m.get('messageText', ''))
            if results is None:
                raise Undecided('cbmc produced no result for %s: %s' % (unit.name, ' | '.join(errs)[-1500:] or out[-800:]))
            names = []
            canary_failed = False
            for r in results:
                desc = r.get('description', '')
                if 'VERIF_CANARY' in desc:
                    canary_failed = r.get('status') == 'FAILURE'
                    continue
                if r.get('status') != 'SUCCESS' and any(re.search(w, desc) for w in getattr(unit, 'waive', ())):
                    res.setdefault('waived', []).append('%s: %s' % (r['property'], desc))
                    continue
                names.append(r['property'])
                res['obligations'] += 1
                if r.get('status') == 'SUCCESS': res['discharged'] += 1
                else:
                    res['failed'].append({'property': r['property'], 'description': desc, 'status': r.get('status'),
                                          'location': r.get('sourceLocation', {}), 'trace': r.get('trace')})
            res['names'] = names
            res['samples'] = ['%s: %s' % (r['property'], r.get('description', '')) for r in results
                              if any(k in r['property'] for k in ('postcondition', 'loop_invariant', 'precondition'))][:4]
            # (a FAILED obligation takes precedence: e.g. a loop invariant that fails before entry for every input is assumed
            #  afterwards, which makes the canary unreachable -- that run is red, not vacuous)
            if not unit.no_canary and not canary_failed and not res['failed']:
                raise Undecided('vacuity: canary after the call is unreachable in unit %s (contradictory requires?)' % unit.name)
            if res['obligations'] == 0: raise Undecided('vacuity: zero obligations in unit %s' % unit.name)
            res['status'] = 'proved' if not res['failed'] else 'failed'
            res['info'] = info; res['dir'] = ud
        except Undecided as e:
            res['status'] = 'undecided'; res['why'] = str(e)
        res['seconds'] = round(time.time() - t0, 2)
        self.log(unit.name, res['status'], '%d/%d' % (res['discharged'], res['obligations']), '%.1fs' % res['seconds'], res.get('why', ''))
        return res

def _run_lemma_unit(self, unit, info, res, t0):
    """lemma over spec functions: `int lemma_x(params)` defined in spec/<inst>.h must return 1 for all inputs.
    No code of /repo is involved; loops (bounded by CAP) are unwound completely with unwinding assertions."""
    hdr = open(os.path.join(VERIF, 'spec', unit.inst + '.h')).read()
    m = re.search(r'\b%s\s*\(([^)]*)\)\s*\{' % re.escape(unit.lemma), hdr)
    if not m: raise Undecided('must-fire: lemma %s not found in spec/%s.h' % (unit.lemma, unit.inst))
    ps = [p.strip() for p in m.group(1).split(',') if p.strip() and p.strip() != 'void']
    names = [re.match(r'^(.*?)(\w+)$', p).group(2) for p in ps]
    ud = os.path.join(self.work, 'u_' + re.sub(r'\W+', '_', unit.name)); os.makedirs(ud, exist_ok=True)
    lines = ['#include "%s"' % info['gen'], 'int main(void) {'] + ['  %s;' % p for p in ps]
    lines += ['  __CPROVER_assert(%s(%s), "lemma %s");' % (unit.lemma, ', '.join(names), unit.lemma),
              '  __CPROVER_assert(0, "VERIF_CANARY reachability of the end of the harness");', '  return 0;', '}']
    hc = os.path.join(ud, 'h.c'); open(hc, 'w').write('\n'.join(lines))
    defs = ['-DVERIF_CBMC'] + (['-DVERIF_UF'] if unit.mode == 'uf' else []) + (['-DVERIF_FUF'] if unit.mode == 'fuf' else [])
    rc, out, err, dt = sh(['goto-cc'] + defs + ['-I', VERIF, hc, '-o', os.path.join(ud, 'h.gb')], timeout=300)
    if rc != 0: raise Undecided('goto-cc failed for %s: %s' % (unit.name, (err + out)[-2000:]))
    cb = ['cbmc', os.path.join(ud, 'h.gb'), '--json-ui', '--trace', '--unwind', str(unit.unwind or 10), '--unwinding-assertions'] + CBMC_CHECKS + unit.extra
    tmo = unit.timeout or (300 if self.tier == 'quick' else 1800)
    rc, out, err, dt = sh(cb, timeout=tmo, mem_gb=12)
    res['solver_seconds'] = round(dt, 2); res['checker_cmd'] = ' '.join(['cbmc'] + cb[2:]); res['cname'] = unit.lemma
    res['source'] = 'spec/%s.h' % unit.inst
    if rc == -9: raise Undecided('cbmc timeout on lemma %s' % unit.name)
    try: msgs = json.loads(out)
    except Exception: raise Undecided('cbmc output unparsable for %s' % unit.name)
    results = None
    for mm in msgs:
        if isinstance(mm, dict) and 'result' in mm: results = mm['result']
    if results is None: raise Undecided('cbmc produced no result for %s: %s' % (unit.name, out[-800:]))
    canary = False; names_ = []
    for r in results:
        if 'VERIF_CANARY' in r.get('description', ''):
            canary = r.get('status') == 'FAILURE'; continue
        names_.append(r['property']); res['obligations'] += 1
        if r.get('status') == 'SUCCESS': res['discharged'] += 1
        else: res['failed'].append({'property': r['property'], 'description': r.get('description', ''), 'status': r.get('status'),
                                    'location': r.get('sourceLocation', {}), 'trace': r.get('trace')})
    if not canary: raise Undecided('vacuity: canary unreachable in lemma %s' % unit.name)
    res['names'] = names_; res['samples'] = ['%s: lemma over spec functions' % unit.lemma]
    res['status'] = 'proved' if not res['failed'] else 'failed'
    res['info'] = info; res['dir'] = ud; res['is_lemma'] = True
    res['seconds'] = round(time.time() - t0, 2)
    self.log(unit.name, res['status'], '%d/%d' % (res['discharged'], res['obligations']), '%.1fs' % res['seconds'])
    return res
Run.run_lemma_unit = _run_lemma_unit

def strip_targs(q):
    out = ''; depth = 0
    for c in q:
        if c == '<': depth += 1
        elif c == '>': depth -= 1
        elif depth == 0: out += c
    return out

# ---------------------------------------------------------------- trace -> inputs
def value_to_c(v):
    """CBMC json value -> C initializer text"""
    if v is None: return '0'
    n = v.get('name')
    if n == 'struct':
        return '{' + ', '.join(value_to_c(m.get('value')) for m in v.get('members', []) if not str(m.get('name', '')).startswith('$pad')) + '}'   # CBMC lists padding as members
    if n == 'array':
        els = sorted(v.get('elements', []), key=lambda e: e.get('index', 0))
        return '{' + ', '.join(value_to_c(e.get('value')) for e in els) + '}'
    if n == 'union':
        m = v.get('member', {})
        return '{.%s = %s}' % (m.get('name'), value_to_c(m.get('value')))
    if n in ('integer', 'boolean', 'float'):
        d = str(v.get('data', '0'))
        if d in ('TRUE', 'true'): return '1'
        if d in ('FALSE', 'false'): return '0'
        if n == 'float' and d.lstrip('+-').lower() in ('inf', 'infinity', 'nan'):
            # CBMC prints non-finite floats as inf / -inf / NaN: not C literals
            core = '__builtin_inf()' if d.lstrip('+-').lower() != 'nan' else '__builtin_nan("")'
            return ('(-%s)' % core) if d.startswith('-') else core
        t = v.get('type', '')
        if n == 'float' and re.match(r'^[01]+$', str(v.get('binary', ''))) and len(v['binary']) in (32, 64):
            # exact value from the bit pattern (the decimal rendering is rounded to 6 digits)
            import struct as _st
            b = v['binary']
            x = _st.unpack('>f' if len(b) == 32 else '>d', int(b, 2).to_bytes(len(b) // 8, 'big'))[0]
            if x != x: return '__builtin_nanf("")' if len(b) == 32 else '__builtin_nan("")'
            if x in (float('inf'), float('-inf')): return ('(-__builtin_inff())' if x < 0 else '__builtin_inff()') if len(b) == 32 else ('(-__builtin_inf())' if x < 0 else '__builtin_inf()')
            return x.hex() + ('f' if len(b) == 32 else '')
        if n == 'integer':
            if d[-1:].isalpha(): return d          # cbmc already printed a suffix (e.g. '4u', '2ul')
            if 'unsigned' in t and ('long' in t): return d + 'UL'
            if 'long' in t: return d + 'L'
            if 'unsigned' in t: return d + 'U'
        if n == 'float' and t == 'float': return d.rstrip('f') + 'f'
        return d
    if n == 'pointer':
        return '0'
    return str(v.get('data', '0'))

def inputs_from_trace(trace, params, ghosts):
    """last value assigned (before the call) to each harness local a_<param> / ghost global"""
    vals = {}
    want = {'a_' + p['name']: p['name'] for p in params}
    for st in trace or []:
        if st.get('stepType') == 'function-call' and not st.get('hidden') and st.get('function', {}).get('displayName', '').startswith('verif_') and False:
            break
        if st.get('stepType') != 'assignment': continue
        lhs = st.get('lhs', '')
        base = re.split(r'[\.\[]', lhs)[0]
        if base in want and st.get('sourceLocation', {}).get('function') in ('main', None) and lhs == base:
            vals.setdefault(want[base], st.get('value'))
        if base in ghosts and lhs == base:
            vals['ghost:' + base] = st.get('value')
    return vals

# ---------------------------------------------------------------- spec header conventions
def parse_spec_header(path):
    """find pre_/post_ predicates and ghost declarations in spec/<inst>.h"""
    out = {'pre': {}, 'post': {}, 'ghosts': []}
    if not os.path.exists(path): return out
    txt = open(path).read()
    for m in re.finditer(r'\b(pre|post)_(verif_\w+)\s*\(([^)]*)\)\s*\{', txt):
        kind, entry, params = m.group(1), m.group(2), m.group(3)
        ps = []
        for p in [x.strip() for x in params.split(',') if x.strip() and x.strip() != 'void']:
            mm = re.match(r'^(.*?)(\w+)$', p)
            ps.append((mm.group(1).strip(), mm.group(2)))
        out[kind][entry] = ps
    for m in re.finditer(r'^\s*GHOST\(\s*([^,]+?)\s*,\s*(\w+)\s*\)', txt, re.M):
        out['ghosts'].append((m.group(1), m.group(2), None))
    for m in re.finditer(r'^\s*GHOST_ARR\(\s*([^,]+?)\s*,\s*(\w+)\s*,\s*(\w+)\s*\)', txt, re.M):
        out['ghosts'].append((m.group(1), m.group(2), m.group(3)))
    return out

def auto_spec_text(hdr, kf_regions):
    lines = ['## generated by the driver from spec header conventions (pre_/post_ predicates, ghosts, known-finding regions)']
    if hdr['ghosts']:
        lines.append('void verif_havoc_ghosts(void) {')
        for ty, nm, n in hdr['ghosts']:
            lines.append('  __CPROVER_havoc_object(%s%s);' % ('' if n else '&', nm))
        lines.append('}')
    entries = sorted(set(hdr['pre']) | set(hdr['post']) | set(kf_regions))
    for e in entries:
        lines.append('@function %s' % e)
        if e in hdr['pre']:
            lines.append('@requires pre_%s(%s)' % (e, ', '.join(n for _, n in hdr['pre'][e])))
        for r in kf_regions.get(e, []):
            lines.append('@requires !(%s)' % r)
        if e in hdr['post']:
            ps = hdr['post'][e]
            lines.append('@ensures post_%s(%s)' % (e, ', '.join([n for _, n in ps[:-1]] + ['__CPROVER_return_value'])))
        lines.append('@assigns')
        lines.append('@end')
    return '\n'.join(lines) + '\n'

# ---------------------------------------------------------------- native replay
REPLAY_TMPL = r"""// generated native replay: calls the REAL C++ function with the counterexample inputs (+ searched candidates)
#include "%(inst_src)s"
#include <cstring>
#include <cstdio>
#define _Bool bool
namespace cgen {
%(structs)s
}
#define VERIF_NATIVE 1
#include "%(spec_hdr)s"
template <class T, class R> static T from_raw(const R& r) { static_assert(sizeof(T) == sizeof(R), "layout mismatch"); T t; std::memcpy((void*)&t, &r, sizeof t); return t; }
struct Cand { %(fields)s };
static const Cand cands[] = {
%(cands)s
};
int main() {
  const unsigned long N = sizeof(cands) / sizeof(cands[0]);
  unsigned long tried = 0;
  for (unsigned long cand_i__ = 0; cand_i__ < N; cand_i__++) {
    const Cand& C = cands[cand_i__];
%(decls)s
%(pre)s
    tried++;
    std::printf("CAND %%lu\n", cand_i__); std::fflush(stdout);
    auto ret = %(entry)s(%(args)s);
    (void)ret;
%(post)s
  }
  std::printf("REPLAY: ok (no candidate violates the postcondition on the real code; %%lu satisfied the precondition)\n", tried);
  return 0;
}
"""

BOUNDARY = [0, 1, 2, 3, 4, 5, 6, 7, 8, 9, 2**31 - 1, 2**31, 2**32 - 1, 2**32, 2**63 - 1, 2**63, 2**64 - 1]

def mutate_value(v, rng, p=0.5):
    """random variant of a CBMC json value tree (same structure)"""
    if v is None: return v
    n = v.get('name')
    if n == 'struct':
        return dict(v, members=[dict(m, value=mutate_value(m.get('value'), rng, p)) for m in v.get('members', [])])
    if n == 'array':
        return dict(v, elements=[dict(e, value=mutate_value(e.get('value'), rng, p)) for e in v.get('elements', [])])
    if n == 'union':
        m = v.get('member', {})
        return dict(v, member=dict(m, value=mutate_value(m.get('value'), rng, p)))
    if n == 'integer':
        if rng.random() > p: return v
        t = v.get('type', '')
        d = str(v.get('data', '0'))
        msuf = re.search(r'[uUlL]+$', d)
        suf = msuf.group(0) if msuf else ''
        unsigned = 'unsigned' in t or 'u' in suf.lower()
        w = int(v.get('width', 64 if 'l' in suf.lower() else 32))
        r = rng.random()
        x = rng.randrange(0, 6) if r < 0.7 else (rng.choice(BOUNDARY) if r < 0.9 else rng.getrandbits(w))
        x &= (1 << w) - 1
        if not unsigned:
            if rng.random() < 0.3 and x < 6: x = -x
            elif x >= (1 << (w - 1)): x -= (1 << w)
        return dict(v, data=str(x) + suf)
    if n == 'boolean':
        return dict(v, data=rng.choice(['TRUE', 'FALSE'])) if rng.random() < p else v
    if n == 'float':
        if rng.random() > p: return v
        w = dict(v); w.pop('binary', None)      # (value_to_c prefers the exact bit pattern when present)
        w['data'] = str(rng.choice([0.0, 1.0, -1.0, 0.5, 2.0, 1e-6, 1e6, 3.0, '-0.0', 'inf', '-inf', 'NaN', 3e38, -3e38, 1e-40]))
        return w
    return v

def native_replay(run_dir, info, entry, hdr, cand_list, spec_hdr_path, exclude=()):
    """cand_list: list of (inputs: {param: C-init}, ghosts: {name: C-init}); first one is the verifier's counterexample.
    exclude: known-finding regions (C predicates over the parameters) -- candidates inside are skipped, as the verifier's
    contract has `requires !(region)` for them.
    returns (verdict, output, index_of_failing_candidate)"""
    f = info['meta']['functions'][entry]
    post_ps = hdr['post'].get(entry) or hdr['pre'].get(entry)
    if post_ps is None: return 'no-spec-predicate', '', None
    fields = []; decls = []; args = []
    order = []
    for i, p in enumerate(f['params']):
        cxx_ty = post_ps[i][0] if i < len(post_ps) else None
        d = p['decl']
        m = re.match(r'^(struct|union) (\w+) \$$', d)
        if m:
            fields.append('cgen::%s %s;' % (m.group(2), p['name']))
            decls.append('    %s %s = from_raw<%s>(C.%s);' % (cxx_ty, p['name'], cxx_ty, p['name']))
        else:
            fields.append('%s;' % d.replace('$', p['name']).replace('_Bool', 'bool'))
            decls.append('    %s = C.%s;' % (d.replace('$', p['name']).replace('_Bool', 'bool'), p['name']))
        args.append(p['name']); order.append(('in', p['name']))
    for ty, nm, n in hdr['ghosts']:
        if n: continue   # ghost arrays are functional definitions: recomputed natively by GHOST_DEF in pre_
        fields.append('%s gh_%s;' % (ty, nm))
        decls.append('    %s = C.gh_%s;' % (nm, nm)); order.append(('gh', nm))
    rows = []
    for inputs, ghosts in cand_list:
        vals = []
        for kind, nm in order:
            v = (inputs if kind == 'in' else ghosts).get(nm)
            if v is None:
                if kind == 'in': return 'missing-input', nm, None
                v = '0'
            vals.append(v)
        rows.append('  {' + ', '.join(vals) + '},')
    pre = ''
    if entry in hdr['pre']:
        pre = '    if (!pre_%s(%s)) { if (cand_i__ == 0) std::puts("REPLAY: precondition false for the verifier counterexample (UF / invariant-havoc artefact)"); continue; }' % (entry, ', '.join(args))
    for rg in exclude:
        pre += '\n    if (%s) continue;   /* inside a known-finding region */' % rg
    post = ''
    if entry in hdr['post']:
        post = '    if (!post_%s(%s)) { std::printf("REPLAY: postcondition VIOLATED on the real code, candidate %%lu\\n", cand_i__); return 1; }' % (entry, ', '.join(args + ['ret']))
    src = REPLAY_TMPL % {'inst_src': info['src'], 'structs': open(info['structs']).read(), 'spec_hdr': spec_hdr_path,
                         'fields': ' '.join(fields), 'cands': '\n'.join(rows),
                         'decls': '\n'.join(decls), 'pre': pre, 'post': post, 'entry': entry, 'args': ', '.join(args)}
    cpp = os.path.join(run_dir, 'replay_%s.cpp' % entry)
    exe = os.path.join(run_dir, 'replay_%s' % entry)
    open(cpp, 'w').write(src)
    rc, out, err, dt = sh(['g++', '-std=c++17', '-O1', '-g', '-DNDEBUG', '-fsanitize=address,undefined', '-fno-sanitize-recover=undefined',
                           '-I', REPO + '/include', '-I', VERIF, '-w', cpp, '-o', exe], timeout=900)
    if rc != 0: return 'build-failed', (err + out)[-3000:], None
    rc, out, err, dt = sh([exe], timeout=120, env=dict(os.environ, ASAN_OPTIONS='detect_leaks=1', UBSAN_OPTIONS='print_stacktrace=1'))
    txt = out + err
    last = None
    for m in re.finditer(r'^CAND (\d+)$', txt, re.M): last = int(m.group(1))
    tail = '\n'.join([l for l in txt.split('\n') if not l.startswith('CAND ')][-40:])
    if rc == 0: return 'not-confirmed', tail, None
    return 'confirmed', 'exit=%s\n%s' % (rc, tail), last


# ---------------------------------------------------------------- translation validation (supporting check, not proof)
C_INT = {'unsigned long': (64, False), 'long': (64, True), 'unsigned int': (32, False), 'int': (32, True), 'unsigned short': (16, False),
         'short': (16, True), 'unsigned char': (8, False), 'signed char': (8, True), 'char': (8, True), 'unsigned long long': (64, False),
         'long long': (64, True)}

def parse_structs(text):
    out = {}
    for m in re.finditer(r'(struct|union) (\w+) \{\n(.*?)\n\};', text, re.S):
        mem = []
        for ln in m.group(3).split('\n'):
            ln = ln.strip().rstrip(';')
            if not ln: continue
            mm = re.match(r'^(.*?)\s*(\**)(\w+)((?:\[\d+\])*)$', ln)
            if not mm: mem.append(None); continue
            dims = [int(x) for x in re.findall(r'\[(\d+)\]', mm.group(4))]
            mem.append((mm.group(1).strip(), mm.group(2), mm.group(3), dims))
        out[m.group(2)] = (m.group(1), mem)
    return out

def value_template(ty, structs, depth=0):
    """zero value tree (CBMC json shape) for C type string ty; None if it contains pointers / unknown types"""
    ty = ty.strip()
    if depth > 12: return None
    if ty in C_INT:
        w, s = C_INT[ty]
        return {'name': 'integer', 'data': '0' + ('' if s else 'u') + ('l' if w == 64 else ''), 'type': ty, 'width': w}
    if ty == '_Bool': return {'name': 'boolean', 'data': 'FALSE'}
    if ty in ('float', 'double'): return {'name': 'float', 'data': '0.0', 'type': ty}
    m = re.match(r'^(struct|union) (\w+)$', ty)
    if m and m.group(2) in structs:
        kind, mem = structs[m.group(2)]
        if kind == 'union': return None
        members = []
        for x in mem:
            if x is None: return None
            t, ptr, nm, dims = x
            if ptr: return None
            v = value_template(t, structs, depth + 1)
            if v is None: return None
            for dsz in reversed(dims):
                v = {'name': 'array', 'elements': [{'index': i, 'value': json.loads(json.dumps(v))} for i in range(dsz)]}
            members.append({'name': nm, 'value': v})
        return {'name': 'struct', 'members': members}
    return None

TV_TMPL = r"""// generated translation-validation harness: REAL C++ instantiation vs generated C on the same inputs
#include "%(inst_src)s"
#include <cstring>
#include <cstdio>
#define _Bool bool
namespace cgen {
%(structs)s
}
#define VERIF_NATIVE 1
#include "%(spec_hdr)s"
#include "%(verif)s/engine/tv_eq.hpp"
template <class T, class R> static T from_raw(const R& r) { static_assert(sizeof(T) == sizeof(R), "layout mismatch"); T t; std::memcpy((void*)&t, &r, sizeof t); return t; }
%(decls)s
int main() {
  unsigned long compared = 0, mism = 0;
%(body)s
  std::printf("TV compared=%%lu mismatches=%%lu unsupported=%%lu\n", compared, mism, tv::unsupported);
  return mism ? 4 : 0;
}
"""

def translation_validation(run, inst, info, hdr, spec_hdr_path, n_inputs, seed, regions=None):
    """returns dict(status, compared, wrappers, skipped, detail)"""
    import random
    res = {'inst': inst, 'status': 'skipped', 'compared': 0, 'wrappers': [], 'skipped': [], 'detail': ''}
    structs_text = open(info['structs']).read()
    structs = parse_structs(structs_text)
    fns = info['meta']['functions']
    rng = random.Random(seed * 7919 + 5)
    decls = []; body = []; syms = []
    for entry in info['meta']['entries']:
        if entry not in fns or entry not in hdr['pre']: res['skipped'].append(entry + ' (no pre_ predicate)'); continue
        f = fns[entry]
        sig = hdr['post'].get(entry) or hdr['pre'].get(entry)
        tmpls = []; ok = True
        for p in f['params']:
            if p['ptr']: ok = False; break
            t = value_template(p['decl'].replace('$', '').strip(), structs)
            if t is None: ok = False; break
            tmpls.append(t)
        ret = f['ret'].strip()
        if not ok or ret == 'void' or '*' in ret or (ret not in C_INT and ret not in ('_Bool', 'float', 'double') and not re.match(r'^struct \w+$', ret)):
            res['skipped'].append(entry + ' (parameter/return type not generatable)'); continue
        def cxx(t): return re.sub(r'\bstruct (\w+)', r'cgen::\1', t).replace('_Bool', 'bool')
        fields = []; args_real = []; args_raw = []; dl = []
        for i, p in enumerate(f['params']):
            d = p['decl']; nm = p['name']
            fields.append(cxx(d.replace('$', nm)) + ';')
            m = re.match(r'^(struct) (\w+) \$$', d)
            if m:
                dl.append('      %s %s = from_raw<%s>(C.%s);' % (sig[i][0], nm, sig[i][0], nm))
            else:
                dl.append('      %s = C.%s;' % (cxx(d.replace('$', nm)), nm))
            args_real.append(nm); args_raw.append('C.' + nm)
        rows = []
        for t in range(n_inputs):
            p = 1.0 if t % 3 else 0.5
            rows.append('  {' + ', '.join(value_to_c(mutate_value(tp, rng, p)) for tp in tmpls) + '},')
        decls.append('extern "C" %s cgen_%s(%s);' % (cxx(ret), entry, ', '.join(cxx(p['decl'].replace('$', p['name'])) for p in f['params'])))
        decls.append('struct Cand_%s { %s };' % (entry, ' '.join(fields)))
        decls.append('static const Cand_%s cands_%s[] = {\n%s\n};' % (entry, entry, '\n'.join(rows)))
        body.append('  for (unsigned long cand_i__ = 0; cand_i__ < sizeof(cands_%s) / sizeof(cands_%s[0]); cand_i__++) {' % (entry, entry))
        body.append('      const Cand_%s& C = cands_%s[cand_i__];' % (entry, entry))
        body.extend(dl)
        body.append('      if (!pre_%s(%s)) continue;' % (entry, ', '.join(args_real)))
        for rg in (regions or {}).get(entry, []):
            body.append('      if (%s) continue;   /* known-finding region: the real code is known to misbehave here */' % rg)
        body.append('      auto real = %s(%s);' % (entry, ', '.join(args_real)))
        body.append('      auto gen  = cgen_%s(%s);' % (entry, ', '.join(args_raw)))
        body.append('      compared++;')
        body.append('      if (!tv::eq(real, gen)) { mism++; std::printf("TV MISMATCH %s candidate %%lu\\n", cand_i__); }' % entry)
        body.append('  }')
        syms.append(entry); res['wrappers'].append(entry)
    if not syms: return res
    wd = os.path.join(run.work, 'tv_' + inst); os.makedirs(wd, exist_ok=True)
    gen_o = os.path.join(wd, 'gen.o')
    rc, out, err, dt = sh(['gcc', '-std=gnu11', '-O1', '-w', '-c', '-DVERIF_NATIVE_C', '-I', VERIF, info['gen'], '-o', gen_o], timeout=600)
    if rc != 0:
        res['status'] = 'unavailable'; res['detail'] = 'generated C does not compile natively: ' + (err + out)[-600:]; return res
    open(os.path.join(wd, 'redef.txt'), 'w').write('\n'.join('%s cgen_%s' % (s, s) for s in syms) + '\n')
    open(os.path.join(wd, 'keep.txt'), 'w').write('\n'.join('cgen_%s' % s for s in syms) + '\n')
    rc, out, err, dt = sh(['objcopy', '--redefine-syms=' + os.path.join(wd, 'redef.txt'), '--keep-global-symbols=' + os.path.join(wd, 'keep.txt'), gen_o], timeout=60)
    if rc != 0:
        res['status'] = 'unavailable'; res['detail'] = 'objcopy failed: ' + (err + out)[-300:]; return res
    src = TV_TMPL % {'inst_src': info['src'], 'structs': structs_text, 'spec_hdr': spec_hdr_path, 'verif': VERIF,
                     'decls': '\n'.join(decls), 'body': '\n'.join(body)}
    cpp = os.path.join(wd, 'tv.cpp'); open(cpp, 'w').write(src)
    rc, out, err, dt = sh(['g++', '-std=c++17', '-O1', '-DNDEBUG', '-w', '-I', REPO + '/include', '-I', VERIF, cpp, gen_o, '-o', os.path.join(wd, 'tv')], timeout=1200)
    if rc != 0:
        res['status'] = 'unavailable'; res['detail'] = 'harness does not compile: ' + (err + out)[-800:]; return res
    rc, out, err, dt = sh([os.path.join(wd, 'tv')], timeout=300)
    m = re.search(r'TV compared=(\d+) mismatches=(\d+) unsupported=(\d+)', out)
    if not m:
        res['status'] = 'unavailable'; res['detail'] = 'harness crashed: rc=%s %s' % (rc, (out + err)[-400:]); return res
    res['compared'] = int(m.group(1)) - int(m.group(3)); res['mismatches'] = int(m.group(2)); res['not_comparable'] = int(m.group(3))
    res['status'] = 'agree' if int(m.group(2)) == 0 else 'MISMATCH'
    res['detail'] = '\n'.join(l for l in out.split('\n') if 'MISMATCH' in l)[:600]
    return res

# ---------------------------------------------------------------- main flow
def trace_excerpt(trace, limit=40):
    out = []
    for st in trace or []:
        if st.get('stepType') == 'assignment' and not st.get('hidden'):
            v = st.get('value', {})
            d = v.get('data') if isinstance(v, dict) else None
            if d is None and isinstance(v, dict): d = value_to_c(v)
            loc = st.get('sourceLocation', {})
            out.append('%s = %s  (%s:%s)' % (st.get('lhs'), d, os.path.basename(str(loc.get('file', ''))), loc.get('line', '')))
    return out[-limit:]

def main(argv=None):
    import argparse
    ap = argparse.ArgumentParser()
    ap.add_argument('pid')
    ap.add_argument('--tier', default=os.environ.get('VERIF_TIER', 'quick'), choices=['quick', 'thorough'])
    ap.add_argument('--replay', default=None)
    ap.add_argument('--keep', action='store_true')
    ap.add_argument('--update-ledger', action='store_true')
    ap.add_argument('--only', default=None, help='comma separated unit names')
    ap.add_argument('-v', action='store_true')
    ap.add_argument('-j', type=int, default=int(os.environ.get('VERIF_JOBS', '14')))
    a = ap.parse_args(argv)
    seed = int(os.environ.get('VERIF_SEED', '0') or 0)
    pid = a.pid
    run = Run(pid, a.tier, seed, keep=a.keep, verbose=a.v)
    t0 = time.time()
    try:
        rc = _main(a, pid, run, seed, t0)
    except Undecided as e:
        print('UNDECIDED property=%s: %s' % (pid, e))
        rc = 2
    except Exception as e:      # an internal error of the machinery is never a verdict
        import traceback
        traceback.print_exc()
        print('UNDECIDED property=%s: internal error of the driver: %r' % (pid, e))
        rc = 2
    finally:
        run.cleanup()
    return rc

def load_known(pid, units=None):
    p = os.path.join(VERIF, 'known_findings.json')
    if not os.path.exists(p): return [], []
    d = json.load(open(p))
    pids = {pid} | set(getattr(u, 'src_pid', pid) for u in (units or []))
    targets = set((u.inst, u.target) for u in (units or []))
    fnd = [f for f in d.get('findings', []) if f.get('property') == pid or
           (f.get('property') in pids and (f.get('inst'), f.get('entry')) in targets)]
    return fnd, [x for x in d.get('fixed', []) if any(('property=%s ' % q) in x for q in pids)]

def _main(a, pid, run, seed, t0):
    prop = load_prop(pid)
    units = [u for u in prop.UNITS if a.tier == 'thorough' or getattr(u, 'tier', 'quick') == 'quick']
    if a.only:
        sel = set(a.only.split(','))
        units = [u for u in units if u.name in sel]
    if not units: raise Undecided('no units')
    os.makedirs(os.path.join(OUT, 'replays'), exist_ok=True)
    os.makedirs(os.path.join(OUT, 'evidence'), exist_ok=True)
    findings, fixed = load_known(pid, units)

    if a.replay:
        return do_replay_file(a.replay, run, prop)
    import glob
    for f in glob.glob(os.path.join(OUT, 'replays', pid + '_*')):
        os.unlink(f)
    if False:
        return do_replay_file(a.replay, run, prop)

    # ---- known findings: replay witnesses against the real code first
    insts = sorted(set((u.inst, tuple(u.defines)) for u in units))
    findings = [f for f in findings if any(f.get('inst') == i for i, _ in insts)]
    kf_active = []
    kf_stale = []
    kf_regions_by_inst = {}
    hdrs = {}
    for inst, _ in insts:
        hdrs[inst] = parse_spec_header(os.path.join(VERIF, 'spec', inst + '.h'))

    # auto spec per inst (needs kf regions) -> written before extraction
    # first extraction without regions is needed for native witness replay (struct layouts); do it lazily
    autos = {}
    for inst, defs in insts:
        regions = {}
        for kf in findings:
            if kf.get('inst') == inst:
                regions.setdefault(kf['entry'], []).append(kf['region'])
        autos[inst] = regions
        run.kf_regions = autos      # plain (bounded) units assume !(region) in their harness, see make_harness
        ap_ = os.path.join(run.work, inst + '.auto.spec')
        open(ap_, 'w').write(auto_spec_text(hdrs[inst], regions))

    # build all insts (in parallel) up front
    with ThreadPoolExecutor(max_workers=min(4, len(insts))) as ex:
        list(ex.map(lambda x: build_one(run, x[0], x[1]), insts))

    for kf in findings:
        info = run.inst_built.get((kf['inst'], tuple(kf.get('defines', ()))))
        if info is None:
            raise Undecided('extraction of inst %s failed: %s' % (kf['inst'], getattr(run, '_build_failed', {}).get((kf['inst'], tuple(kf.get('defines', ()))), '?')[-1500:]))
        verdict, out, _ = native_replay(run.work, info, kf['entry'], hdrs[kf['inst']], [(kf['witness'], kf.get('ghosts', {}))],
                                        os.path.join(VERIF, 'spec', kf['inst'] + '.h'))
        if verdict == 'confirmed':
            print('KNOWN-FINDING: property=%s %s region=(%s) %s' % (pid, kf['entry'], kf['region'], kf['what']))
            kf_active.append(kf)
        elif verdict in ('not-confirmed', 'pre-false'):
            # the recorded witness no longer fails on this tree: the finding suppresses nothing any more -> proceed WITHOUT its region
            print('NOTE: known-finding witness for %s (%s) no longer fails on this tree; its region is not excluded in this run' % (kf['entry'], kf['region'][:80]))
            kf_stale.append(kf)
        else:
            raise Undecided('known finding witness for %s could not be replayed (%s): %s' % (kf['entry'], verdict, str(out)[-300:]))
    if kf_stale:
        for inst, defs in insts:
            st = [k for k in kf_stale if k['inst'] == inst]
            if not st: continue
            regions = {}
            for kf in findings:
                if kf.get('inst') == inst and kf not in kf_stale:
                    regions.setdefault(kf['entry'], []).append(kf['region'])
            autos[inst] = regions
            open(os.path.join(run.work, inst + '.auto.spec'), 'w').write(auto_spec_text(hdrs[inst], regions))
            run.inst_built.pop((inst, tuple(defs)), None)
            build_one(run, inst, defs)

    # ---- discharge (translation validation of every inst runs alongside, as a supporting check)
    tv_results = []
    tv_regions = {}
    try:
        for f_ in json.load(open(os.path.join(VERIF, 'known_findings.json'))).get('findings', []):
            tv_regions.setdefault(f_.get('inst'), {}).setdefault(f_.get('entry'), []).append(f_.get('region'))
    except Exception:
        pass
    def do_tv(key):
        inst, defs = key
        try:
            return translation_validation(run, inst, run.inst_built[key], hdrs[inst], os.path.join(VERIF, 'spec', inst + '.h'),
                                          600 if a.tier == 'quick' else 20000, seed, tv_regions.get(inst))
        except Exception as e:
            return {'inst': inst, 'status': 'unavailable', 'detail': 'exception: %r' % (e,), 'compared': 0, 'wrappers': [], 'skipped': []}
    with ThreadPoolExecutor(max_workers=a.j) as ex:
        tv_f = [ex.submit(do_tv, k) for k in insts if not os.environ.get('VERIF_NO_TV')]
        results = list(ex.map(run.run_unit, units))
        tv_results = [f.result() for f in tv_f]
    for t in tv_results:
        if t['status'] == 'MISMATCH':
            raise Undecided('translation validation: generated C disagrees with the real C++ code for %s: %s' % (t['inst'], t['detail']))

    # ---- bounded fallback: a unit whose proof could not even be attempted because the code changed shape (a new loop without
    #      contract, sidecar invariants that no longer compile, a must-fire rule) is re-run WITHOUT the sidecar annotations as a
    #      bounded model check of the wrapper (assume pre_, all loops unwound, assert post_).  Only a native-replay-confirmed
    #      counterexample turns this into a VIOLATION; a bounded pass leaves the unit undecided.
    unit_by_name = dict((u.name, u) for u in units)
    for i_, r in enumerate(results):
        if r['status'] != 'undecided': continue
        why = r.get('why', '')
        if not re.search(r'code loop without loop contract|goto-cc failed|must-fire|goto-instrument failed|annotates loop', why): continue
        u = unit_by_name[r['unit']]
        if u.lemma or u.plain or not str(u.target).startswith('verif_'): continue
        hdr = hdrs.get(u.inst, {})
        if u.target not in hdr.get('post', {}): continue
        import copy
        fu = copy.copy(u)
        fu.plain = True; fu.bounded = 'fallback: all loops unwound %d times' % (u.unwind or 10)
        fu.unwind = u.unwind or 10; fu.unwind_loops = {'.': u.unwind or 10}; fu.replace = []
        fu.defines = list(u.defines) + ['__VERIF_NOSPEC__']; fu.timeout = min(u.timeout or 600, 600); fu.object_bits = u.object_bits or 12
        fu.name = u.name
        ap0 = os.path.join(run.work, u.inst + '_nospec.auto.spec')
        fr = run.run_unit(fu)
        if fr['status'] == 'failed':
            fr['fallback_of'] = why
            fr['needs_confirmation'] = True
            results[i_] = fr
        else:
            r['why'] = why + ' | bounded fallback (no sidecar annotations, loops unwound %d): %s' % (fu.unwind, fr['status'] if fr['status'] != 'undecided' else fr.get('why', '')[:200])

    # ---- lemmas
    lemma_results = []
    for lm in getattr(prop, 'LEMMAS', []):
        if getattr(lm, 'tier', 'quick') == 'thorough' and a.tier != 'thorough': continue
        lemma_results.append(check_lemma(lm, run))

    # ---- ledger
    ledger_path = os.path.join(VERIF, 'ledger', pid + '.json')
    if a.update_ledger:
        os.makedirs(os.path.dirname(ledger_path), exist_ok=True)
        led = json.load(open(ledger_path)) if os.path.exists(ledger_path) else {}
        for r in results:
            if r['status'] != 'undecided':
                led[r['unit']] = sorted(set(essential(r.get('names', []))))
        json.dump(led, open(ledger_path, 'w'), indent=1, sort_keys=True)
        print('ledger updated:', ledger_path)
    undecided = [r for r in results if r['status'] == 'undecided']
    if os.path.exists(ledger_path) and not a.only:
        led = json.load(open(ledger_path))
        for r in results:
            if r['status'] != 'proved': continue      # a failed obligation is a violation whatever else is missing
            exp = set(led.get(r['unit'], []))
            if not exp:
                r['status'] = 'undecided'; r['why'] = 'unit not in ledger (run --update-ledger)'; undecided.append(r); continue
            missing = exp - set(essential(r.get('names', [])))
            if missing:
                r['status'] = 'undecided'; r['why'] = 'ledger: obligations not generated: %s' % sorted(missing)[:5]; undecided.append(r)
    elif not a.only and not a.update_ledger:
        raise Undecided('no ledger for %s (run ./check %s --update-ledger on a tree where the check passes)' % (pid, pid))

    # ---- violations
    violations = []
    for r in results:
        if r['status'] != 'failed': continue
        info = r['info']; hdr = hdrs[r['inst']]
        entry = r['cname']
        # group failed obligations: one replay per unit (first failing obligation with a trace)
        fl = r['failed'][0]
        if r.get('is_lemma'):
            rp = os.path.join(OUT, 'replays', '%s_%s_lemma.json' % (pid, re.sub(r'\W+', '_', r['unit'])))
            json.dump({'property': pid, 'unit': r['unit'], 'inst': r['inst'], 'entry': entry, 'failed_obligation': fl['property'],
                       'description': fl['description'], 'native_replay': 'not-applicable (lemma over spec functions)',
                       'cbmc_trace_excerpt': trace_excerpt(fl.get('trace'))}, open(rp, 'w'), indent=1)
            violations.append((r, rp, 'lemma')); continue
        fn = info['meta']['functions'][entry]
        ghosts = set(g[1] for g in hdr['ghosts'])
        vals = inputs_from_trace(fl.get('trace'), fn['params'], ghosts)
        inputs = {k: value_to_c(v) for k, v in vals.items() if not k.startswith('ghost:')}
        gvals = {k[6:]: value_to_c(v) for k, v in vals.items() if k.startswith('ghost:')}
        verdict, out = ('no-entry-wrapper', '')
        if entry.startswith('verif_'):
            import random
            rng = random.Random(seed * 1000003 + 17)
            cands = [(inputs, gvals)]
            for t in range(3000 if run.tier == 'quick' else 30000):
                p = 0.15 if t < 500 else 0.6
                mv = {k: mutate_value(v, rng, p) for k, v in vals.items()}
                cands.append(({k: value_to_c(v) for k, v in mv.items() if not k.startswith('ghost:')},
                              {k[6:]: value_to_c(v) for k, v in mv.items() if k.startswith('ghost:')}))
            verdict, out, idx = native_replay(run.work, info, entry, hdr, cands, os.path.join(VERIF, 'spec', r['inst'] + '.h'),
                                              exclude=[k['region'] for k in kf_active if k.get('inst') == r['inst'] and k.get('entry') == entry])
            if verdict == 'confirmed' and idx is not None:
                inputs, gvals = cands[idx]
                out = ('failing input = candidate %d (%s)\n' % (idx, "the verifier's counterexample" if idx == 0 else 'found by seeded mutation of the counterexample')) + out
        rp = os.path.join(OUT, 'replays', '%s_%s_%s.json' % (pid, re.sub(r'\W+', '_', r['unit']), re.sub(r'\W+', '_', fl['property'])[-60:]))
        json.dump({'property': pid, 'unit': r['unit'], 'inst': r['inst'], 'entry': entry, 'target': r['target'], 'mode': r['mode'],
                   'failed_obligation': fl['property'], 'description': fl['description'], 'location': fl['location'],
                   'all_failed_obligations': [(x['property'], x['description']) for x in r['failed']],
                   'inputs': inputs, 'ghosts': gvals, 'native_replay': verdict, 'native_output': out,
                   'verifier': 'cbmc 6.11 (dfcc contracts)', 'checker_cmd': r.get('checker_cmd'),
                   'cbmc_trace_excerpt': trace_excerpt(fl.get('trace'))}, open(rp, 'w'), indent=1)
        if r.get('mode') == 'fuf' and verdict != 'confirmed' and not r.get('needs_confirmation'):
            # float operations / <cmath> abstracted as uninterpreted functions: a failed obligation without a natively confirmed input may be
            # an artefact of the abstraction (an equivalent formula written differently) -- undecided, not a violation
            r['status'] = 'undecided'; r['why'] = 'obligation %s failed under the uninterpreted-float abstraction (mode fuf) but no input was confirmed on the real code (replay: %s)' % (fl['property'], rp)
            undecided.append(r)
            continue
        if r.get('needs_confirmation') and verdict != 'confirmed':
            # bounded fallback without a natively confirmed input stays undecided
            r['status'] = 'undecided'; r['why'] = 'proof not attempted (%s); bounded fallback failed an obligation but no failing input was confirmed natively' % r.get('fallback_of', '')[:200]
            undecided.append(r)
            continue
        violations.append((r, rp, verdict))

    mut_results = []
    if a.tier == 'thorough' and not a.only and not violations and not os.environ.get('VERIF_NO_MUT'):
        mut_results = mutation_selftest(pid, run)
    wall = time.time() - t0
    write_evidence(pid, a.tier, seed, prop, results, lemma_results, kf_active, fixed, violations, wall, tv_results, mut_results)
    for m_ in mut_results:
        print('mutation %-40s %s' % (m_['name'], m_['verdict']))
    for t in tv_results:
        print('translation-validation %-12s %-11s wrappers=%d inputs_compared=%d %s' % (t['inst'], t['status'], len(t['wrappers']), t['compared'], t['detail'][:200].replace('\n', ' ')))

    for r in results:
        print('unit %-40s %-9s %4d/%-4d %6.1fs %s' % (r['unit'], r['status'] + ('(B)' if r['bounded'] else ''), r['discharged'], r['obligations'], r['seconds'], r.get('why', '')))
    for l in lemma_results:
        print('lemma %-39s %-9s %6.1fs %s' % (l['name'], l['status'], l['seconds'], l.get('why', '')))
    if violations:
        for r, rp, verdict in violations:
            tail = '' if verdict == 'confirmed' else ' no-failing-input-found'
            print('VIOLATION property=%s replay=%s%s' % (pid, rp, tail))
        return 1
    bad_lemmas = [l for l in lemma_results if l['status'] != 'proved']
    if undecided or bad_lemmas:
        for r in undecided: print('UNDECIDED unit=%s: %s' % (r['unit'], r.get('why')))
        for l in bad_lemmas: print('UNDECIDED lemma=%s: %s' % (l['name'], l.get('why')))
        return 2
    print('OK property=%s units=%d obligations=%d wall=%.0fs' % (pid, len(results), sum(r['obligations'] for r in results), wall))
    return 0

def build_one(run, inst, defs):
    try:
        return run.build_inst(inst, defs)
    except Undecided as e:
        return e

def essential(names):
    out = []
    for n in names:
        if re.search(r'\.(postcondition|precondition|loop_invariant_base|loop_invariant_step|loop_decreases|loop_assigns|assigns|memory-leak|precondition_instance)\.\d+$', n) \
                or re.search(r'\.assertion\.\d+$', n) and not n.startswith('__CPROVER'):
            out.append(re.sub(r'\.\d+$', '', n))
    return out

def check_lemma(lm, run):
    t0 = time.time()
    path = os.path.join(VERIF, 'lemmas', lm.file)
    res = {'name': lm.name, 'file': lm.file, 'backend': 'lean 4', 'status': 'undecided', 'clause': lm.clause}
    txt = open(path).read()
    if re.search(r'\bsorry\b|\baxiom\b|\badmit\b', re.sub(r'--.*', '', txt)):
        res['why'] = 'lemma file contains sorry/axiom'; res['seconds'] = 0; return res
    rc, out, err, dt = sh(['lean', path], timeout=1800, cwd=os.path.join(VERIF, 'lemmas'))
    res['seconds'] = round(time.time() - t0, 1)
    if rc == 0 and 'error' not in out and 'sorry' not in out:
        res['status'] = 'proved'
    else:
        res['why'] = (out + err)[-800:]
    return res

def mutation_selftest(pid, run):
    """thorough tier: apply each catalogued single edit (mutations/<pid>.json) to a scratch copy of the headers and expect the
    quick check to go red; results are recorded in the evidence (a mutation that stays green is a weakness of the contracts,
    not a violation of the property)"""
    path = os.path.join(VERIF, 'mutations', pid + '.json')
    if not os.path.exists(path): return []
    out = []
    for m in json.load(open(path)):
        d = tempfile.mkdtemp(prefix='mut_%s_' % pid, dir=os.environ.get('TMPDIR', '/tmp'))
        try:
            shutil.copytree(os.path.join(REPO, 'include'), os.path.join(d, 'include'))
            p = os.path.join(d, 'include', m['file'])
            s = open(p).read()
            if s.count(m['old']) != 1:
                out.append({'name': m['name'], 'verdict': 'catalogue entry does not apply to the current tree (old text occurs %d times)' % s.count(m['old'])}); continue
            open(p, 'w').write(s.replace(m['old'], m['new']))
            cmd = [os.path.join(VERIF, 'check'), pid, '--tier', 'quick'] + (['--only', ','.join(m['units'])] if m.get('units') else [])
            env = dict(os.environ, VERIF_REPO=d, VERIF_OUT=os.path.join(d, 'out'), VERIF_NO_TV='1', VERIF_TIER='quick')
            r = subprocess.run(cmd, env=env, stdout=subprocess.PIPE, stderr=subprocess.STDOUT, timeout=3600)
            o = r.stdout.decode('utf-8', 'replace')
            v = [l for l in o.split('\n') if l.startswith('VIOLATION')]
            verdict = {0: 'MISSED (check stayed green)', 1: 'caught' + (' (no-failing-input-found)' if v and all('no-failing-input-found' in l for l in v) else ' (replay confirmed)'),
                       2: 'undecided (exit 2)'}.get(r.returncode, 'rc=%d' % r.returncode)
            out.append({'name': m['name'], 'file': m['file'], 'units': m.get('units'), 'verdict': verdict})
        except Exception as e:
            out.append({'name': m.get('name'), 'verdict': 'error: %r' % (e,)})
        finally:
            shutil.rmtree(d, ignore_errors=True)
    return out

def write_evidence(pid, tier, seed, prop, results, lemma_results, kf_active, fixed, violations, wall, tv_results=(), mut_results=()):
    meta = getattr(prop, 'META', {})
    proved_units = [r for r in results if r['status'] == 'proved' and not r['bounded']]
    bounded_units = [r for r in results if r['bounded']]
    obligations = sum(r['obligations'] for r in results if not r['bounded']) + len(lemma_results)
    discharged = sum(r['discharged'] for r in results if not r['bounded']) + sum(1 for l in lemma_results if l['status'] == 'proved')
    fns = []
    for r in results:
        fns.append({'unit': r['unit'], 'function': r['target'], 'c_name': r.get('cname'), 'source': r.get('source'), 'kind_mode': r['mode'],
                    'status': r['status'], 'obligations': r['obligations'], 'discharged': r['discharged'],
                    'backend': 'cbmc 6.11.0 --dfcc (SAT: minisat2 built in)', 'solver_seconds': r.get('solver_seconds'),
                    'wall_seconds': r['seconds'], 'bounded': r['bounded'], 'clause': r.get('clause'), 'why': r.get('why'),
                    'code_loops_unwound_completely': r.get('unwound_code_loops', []),
                    'waived_checks': r.get('waived', [])})
    samples = []
    for r in results: samples += r.get('samples', [])[:2]
    ev = {
        'property_id': pid, 'tier': tier, 'seed': seed, 'level': meta.get('level', 'proof'),
        'coverage': {
            'obligations': obligations, 'discharged': discharged,
            'checker_cmd': (results[0].get('checker_cmd') or 'goto-cc; goto-instrument --dfcc; cbmc') if results else '',
            'trusted_base': meta.get('trusted_base', []),
            'functions_under_contract': fns,
            'bounded_obligations': [{'unit': r['unit'], 'bound': r['bounded'], 'obligations': r['obligations'], 'discharged': r['discharged']} for r in bounded_units],
            'lemmas': lemma_results,
            'samples': samples[:12] or ['(none)'],
            'known_findings_active': [k['what'] for k in kf_active],
            'fixed': fixed,
            'translation_validation': [{k: v for k, v in t.items()} for t in tv_results],
            'mutation_selftest': list(mut_results),
            'not_covered': meta.get('not_covered', []),
            'explanation': meta.get('explanation', ''),
            'extraction': 'clang++ -ast-dump=json of /verif/inst/*.cpp against /repo/include (current working tree) -> engine/cxx2c.py -> C; contracts from /verif/contracts/*.spec and /verif/spec/*.h',
        },
        'assumptions': meta.get('assumptions', []),
        'wall_s': round(wall, 1),
        'violations': len(violations),
    }
    json.dump(ev, open(os.path.join(OUT, 'evidence', pid + '.json'), 'w'), indent=1)

def do_replay_file(path, run, prop):
    rp = json.load(open(path))
    inst = rp['inst']
    hdr = parse_spec_header(os.path.join(VERIF, 'spec', inst + '.h'))
    open(os.path.join(run.work, inst + '.auto.spec'), 'w').write(auto_spec_text(hdr, {}))
    info = run.build_inst(inst)
    verdict, out, _ = native_replay(run.work, info, rp['entry'], hdr, [(rp['inputs'], rp.get('ghosts', {}))], os.path.join(VERIF, 'spec', inst + '.h'))
    print('replay of %s on the real code: %s' % (rp['failed_obligation'], verdict))
    print(out)
    return 1 if verdict == 'confirmed' else 0

if __name__ == '__main__':
    sys.exit(main())
