#!/usr/bin/env python3
"""
cxx2c -- mechanical C++ -> C extraction of *instantiated* nmtools functions.

Input : clang's JSON AST dump (-Xclang -ast-dump=json) of an instantiation TU that
        includes the real /repo headers and defines by-value entry wrappers verif_*().
Output: one C translation unit holding, for every function in the call closure of the
        requested entry wrappers, a C function whose statements/expressions are a 1:1
        rendering of clang's instantiated body, plus one C struct per C++ record.
        Contracts from sidecar spec files are spliced after declarators and loop heads.

What is dropped (exhaustive): attributes, constexpr/inline/noexcept, access control, type
aliases and static_assert, `if constexpr` branches clang discarded (NullStmt) or whose
condition is a ConstantExpr, const qualifiers, namespaces (mangled into identifiers),
reference-vs-pointer distinction (references become pointers), unused local constexpr
variables that cannot be constant-folded, destructors of trivially destructible types.
Anything not understood raises Unsupported -> exit 2 by the driver (never a verdict).
"""
import json, re, sys, os, hashlib

# C library functions passed through to the verifier's built-in models (heap containers: utl::vector)
LIBC_PROTOS = {'malloc': 'void *malloc(unsigned long)', 'calloc': 'void *calloc(unsigned long, unsigned long)',
               'free': 'void free(void *)', 'memcpy': 'void *memcpy(void *, const void *, unsigned long)'}

LP64_SIZEOF = {'char': 1, 'signed char': 1, 'unsigned char': 1, '_Bool': 1, 'short': 2, 'unsigned short': 2, 'int': 4, 'unsigned int': 4,
               'long': 8, 'unsigned long': 8, 'long long': 8, 'unsigned long long': 8, 'float': 4, 'double': 8}

class Unsupported(Exception):
    pass

def fail(msg, node=None):
    loc = ''
    if node is not None:
        loc = ' [%s %s @%s:%s]' % (node.get('kind'), node.get('name', ''), node.get('_file', '?'), node.get('_line', '?'))
    raise Unsupported(msg + loc)

# --------------------------------------------------------------------------------------
# type strings
# --------------------------------------------------------------------------------------
BUILTIN = {
    'void': 'void', 'bool': '_Bool', 'char': 'char', 'signed char': 'signed char',
    'unsigned char': 'unsigned char', 'short': 'short', 'unsigned short': 'unsigned short',
    'int': 'int', 'unsigned int': 'unsigned int', 'long': 'long', 'unsigned long': 'unsigned long',
    'long long': 'long long', 'unsigned long long': 'unsigned long long', 'float': 'float',
    'double': 'double', 'long double': 'long double', 'unsigned': 'unsigned int',
    '__int128': '__int128', 'unsigned __int128': 'unsigned __int128', 'wchar_t': 'int',
    'char16_t': 'unsigned short', 'char32_t': 'unsigned int', 'std::nullptr_t': 'void*',
    'nullptr_t': 'void*',
}
BUILTIN_SHORT = {
    'void': 'v', '_Bool': 'b', 'char': 'c', 'signed char': 'sc', 'unsigned char': 'uc', 'short': 's',
    'unsigned short': 'us', 'int': 'i', 'unsigned int': 'u', 'long': 'l', 'unsigned long': 'ul',
    'long long': 'll', 'unsigned long long': 'ull', 'float': 'f', 'double': 'd', 'long double': 'ld',
}

class Ty:
    """parsed type: kind in {'builtin','named','ptr','ref','array','func'}"""
    __slots__ = ('kind', 'name', 'args', 'elem', 'size', 'const', 'ret', 'params')
    def __init__(self, kind, **kw):
        self.kind = kind; self.name = None; self.args = None; self.elem = None
        self.size = None; self.const = False; self.ret = None; self.params = None
        for k, v in kw.items(): setattr(self, k, v)
    def key(self):
        if self.kind == 'builtin': return self.name
        if self.kind == 'named':
            return self.name
        if self.kind == 'ptr': return self.elem.key() + ' *'
        if self.kind == 'ref': return self.elem.key() + ' &'
        if self.kind == 'array': return '%s[%s]' % (self.elem.key(), self.size)
        if self.kind == 'func': return '%s (%s)' % (self.ret.key(), ', '.join(p.key() for p in self.params))
        return '?'
    def __repr__(self): return 'Ty(%s)' % self.key()

_int_suffix = re.compile(r'^(-?\d+)(?:[uU]?[lL]{0,2}|[lL]{0,2}[uU]?)$')

def split_top(s, sep=','):
    """split s at top-level separators (outside <>, (), [])"""
    out = []; depth = 0; cur = ''
    i = 0
    while i < len(s):
        c = s[i]
        if c in '<([': depth += 1
        elif c in '>)]': depth -= 1
        if c == sep and depth == 0:
            out.append(cur.strip()); cur = ''
        else:
            cur += c
        i += 1
    if cur.strip() or out: out.append(cur.strip())
    return out

def norm_targ(a):
    a = a.strip()
    m = _int_suffix.match(a)
    if m: return m.group(1)
    return norm_type_string(a)

_NTS_MEMO = {}
def norm_type_string(s):
    """normalise spacing / integer suffixes in a (canonical) clang type string (memoised: pure function of the string)"""
    r = _NTS_MEMO.get(s)
    if r is None:
        r = _norm_type_string(s); _NTS_MEMO[s] = r
    return r

def _norm_type_string(s):
    s = s.strip()
    s = re.sub(r'\s+', ' ', s)
    # normalise template args recursively
    out = ''; i = 0
    while i < len(s):
        c = s[i]
        if c == '<':
            # find matching
            depth = 0; j = i
            while j < len(s):
                if s[j] == '<': depth += 1
                elif s[j] == '>':
                    depth -= 1
                    if depth == 0: break
                elif s[j] == '(' :
                    # skip parens (lambda at ...)
                    d2 = 0
                    while j < len(s):
                        if s[j] == '(': d2 += 1
                        elif s[j] == ')':
                            d2 -= 1
                            if d2 == 0: break
                        j += 1
                j += 1
            inner = s[i + 1:j]
            args = [norm_targ(a) for a in split_top(inner)] if inner.strip() else []
            out += '<' + ', '.join(args) + '>'
            i = j + 1
        else:
            out += c; i += 1
    out = out.replace('> >', '>>')
    return out

def strip_cv(s):
    s = s.strip()
    changed = True
    while changed:
        changed = False
        for q in ('const ', 'volatile ', 'struct ', 'class ', 'typename ', 'enum '):
            if s.startswith(q): s = s[len(q):].strip(); changed = True
        for q in (' const', ' volatile'):
            if s.endswith(q): s = s[:-len(q)].strip(); changed = True
    return s

def parse_type(s):
    """parse a clang-printed type string into Ty (structure only; names unresolved)."""
    s = re.sub(r'\s+', ' ', s.strip())
    # function type:  R (params) [const] [noexcept]
    # find top-level '(' that is not '(lambda' / '(anonymous' and not '(*)' / '(&)'
    s0 = s
    for q in (' noexcept', ' const', ' &', ' &&'):
        pass
    # pointer/reference suffixes
    s = s.strip()
    if s.endswith('&&'):
        return Ty('ref', elem=parse_type(s[:-2]))
    if s.endswith('&'):
        return Ty('ref', elem=parse_type(s[:-1]))
    if s.endswith('*const') or s.endswith('* const'):
        s = s[:s.rfind('*') + 1]
    if s.endswith('*'):
        return Ty('ptr', elem=parse_type(s[:-1]))
    if s.endswith(' const'):
        t = parse_type(s[:-6]); t.const = True; return t
    if s.endswith(']'):
        # array: T[N]  (possibly multi-dim: T[2][3] -> array of array)
        depth = 0; j = len(s) - 1
        while j >= 0:
            if s[j] == ']': depth += 1
            elif s[j] == '[':
                depth -= 1
                if depth == 0: break
            j -= 1
        # leftmost dimension binds outermost: find first '[' at top level after the element type
        k = top_level_find(s, '[')
        first_end = matching(s, k, '[', ']')
        size = s[k + 1:first_end]
        rest = s[:k] + s[first_end + 1:]
        return Ty('array', elem=parse_type(rest), size=size.strip())
    if s.endswith(')') or s.endswith(') const') or s.endswith(' noexcept'):
        # function type
        t = s
        for q in (' noexcept', ' const'):
            if t.endswith(q): t = t[:-len(q)]
        if t.endswith(' noexcept'): t = t[:-9]
        if t.endswith(')'):
            # find the matching '(' of the last ')'
            depth = 0; j = len(t) - 1
            while j >= 0:
                if t[j] == ')': depth += 1
                elif t[j] == '(':
                    depth -= 1
                    if depth == 0: break
                j -= 1
            head = t[:j].strip(); params = t[j + 1:-1]
            if head and not head.endswith('::') and not params.startswith('lambda at') and not params.startswith('anonymous') and not params.startswith('unnamed'):
                if head.endswith(')'):
                    # pointer to function  R (*)(...)
                    return Ty('func', ret=Ty('named', name=head), params=[])
                return Ty('func', ret=parse_type(head), params=[parse_type(p) for p in split_top(params) if p and p != 'void'])
    const = False
    s2 = strip_cv(s)
    if s2 != s: const = ('const' in s.replace(s2, ''))
    s = s2
    if s in BUILTIN:
        return Ty('builtin', name=BUILTIN[s], const=const)
    return Ty('named', name=norm_type_string(s), const=const)

def top_level_find(s, ch):
    depth = 0
    for i, c in enumerate(s):
        if c == ch and depth == 0: return i
        if c in '<(': depth += 1
        elif c in '>)': depth -= 1
    return -1

def matching(s, i, o, c):
    depth = 0
    for j in range(i, len(s)):
        if s[j] == o: depth += 1
        elif s[j] == c:
            depth -= 1
            if depth == 0: return j
    return -1

def split_template(name):
    """'a::b<x, y>' -> ('a::b', ['x','y']) ; no template -> (name, None). Only the LAST component's args."""
    name = name.strip()
    if not name.endswith('>'): return name, None
    depth = 0
    for j in range(len(name) - 1, -1, -1):
        if name[j] == '>': depth += 1
        elif name[j] == '<':
            depth -= 1
            if depth == 0:
                inner = name[j + 1:-1]
                return name[:j], ([a for a in split_top(inner)] if inner.strip() else [])
    return name, None

def sanitize(s):
    s = re.sub(r'[^A-Za-z0-9_]+', '_', s)
    return s.strip('_')

# --------------------------------------------------------------------------------------
# AST container
# --------------------------------------------------------------------------------------
DECL_FN = ('FunctionDecl', 'CXXMethodDecl', 'CXXConstructorDecl', 'CXXDestructorDecl', 'CXXConversionDecl')
RECORD_KINDS = ('CXXRecordDecl', 'ClassTemplateSpecializationDecl', 'ClassTemplatePartialSpecializationDecl')
SCOPE_KINDS = ('NamespaceDecl',) + RECORD_KINDS

class AST:
    def __init__(self, path):
        with open(path) as f:
            self.root = json.load(f)
        self.byid = {}
        self.parent = {}
        self._index()

    def _index(self):
        byid = self.byid; parent = self.parent
        last_file = [None]; last_line = [None]
        def upd(loc):
            if not isinstance(loc, dict): return None, None
            if 'expansionLoc' in loc or 'spellingLoc' in loc:
                r = (None, None)
                # dict order is emission order
                for k, v in loc.items():
                    if k in ('spellingLoc', 'expansionLoc'):
                        rr = upd(v)
                        if k == 'expansionLoc': r = rr
                return r
            if not loc: return last_file[0], last_line[0]
            if 'file' in loc: last_file[0] = loc['file']
            if 'line' in loc: last_line[0] = loc['line']
            return last_file[0], last_line[0]
        # iterative pre-order traversal in document order
        stack = [(self.root, None)]
        while stack:
            n, p = stack.pop()
            f = l = None
            if 'loc' in n:
                f, l = upd(n['loc'])
            if 'range' in n:
                rb = upd(n['range'].get('begin'))
                upd(n['range'].get('end'))
                if f is None or n.get('kind', '').endswith('Stmt') or n.get('kind', '').endswith('Expr') or n.get('kind', '').endswith('Operator'):
                    f, l = rb
            n['_file'] = f; n['_line'] = l
            if n.get('kind') == 'InitListExpr' and n.get('array_filler') and not n.get('inner'):
                # clang JSON quirk: when an array InitListExpr has a filler, the filler AND the explicit elements are
                # all emitted under the key 'array_filler' (filler first) and there is no 'inner'
                n['inner'] = list(n['array_filler'][1:])
            i = n.get('id')
            if i is not None:
                old = byid.get(i)
                if old is None or len(n.get('inner') or ()) > len(old.get('inner') or ()):
                    byid[i] = n
                    parent[i] = p
            inner = n.get('inner')
            if inner:
                for c in reversed(inner):
                    stack.append((c, n))

    def par(self, n):
        return self.parent.get(n.get('id'))

    def qualname(self, n):
        parts = []
        cur = n
        while cur is not None:
            k = cur.get('kind')
            if k == 'NamespaceDecl':
                if cur.get('name') and not cur.get('isInline'):
                    parts.append(cur['name'])
                elif cur.get('name') and cur.get('isInline'):
                    pass
            elif k in RECORD_KINDS:
                parts.append(self.record_local_name(cur))
            elif k in DECL_FN and cur is not n:
                parts.append(cur.get('name', '?') + '()')
            elif cur is n:
                parts.append(cur.get('name', ''))
            cur = self.par(cur)
        return '::'.join(reversed(parts))

    def targs(self, n):
        """template arguments of a specialization decl as normalised strings (packs flattened)"""
        out = []
        def walk(ta):
            if 'type' in ta:
                out.append(norm_type_string(ta['type'].get('qualType')))
            elif 'value' in ta:
                out.append(str(ta['value']))
            elif ta.get('isPack') or (ta.get('inner') and all(c.get('kind') == 'TemplateArgument' for c in ta['inner'])):
                for c in ta.get('inner', []):
                    walk(c)
            elif 'decl' in ta:
                out.append(ta['decl'].get('name', '?'))
            elif ta.get('isExpr') and ta.get('inner'):
                e = ta['inner'][0]
                out.append(str(e.get('value', '?expr')))
            elif ta.get('isNull'):
                out.append('null')
            else:
                # template template arg etc.
                out.append('tmpl')
        for c in n.get('inner', []) or []:
            if c.get('kind') == 'TemplateArgument':
                walk(c)
        return out

    def record_local_name(self, n):
        name = n.get('name') or ''
        if n.get('kind') in ('ClassTemplateSpecializationDecl',):
            return name + '<' + ', '.join(self.targs(n)) + '>'
        if not name:
            return '(anon@%s:%s)' % (n.get('_file'), n.get('_line'))
        return name

# --------------------------------------------------------------------------------------
# C-level types
# --------------------------------------------------------------------------------------
class CT:
    """resolved C type"""
    __slots__ = ('kind', 'c', 'rec', 'elem', 'size', 'short', 'model', 'margs', 'ref')
    def __init__(self, kind, c=None, rec=None, elem=None, size=None, short=None, model=None, margs=None, ref=False):
        self.kind = kind; self.c = c; self.rec = rec; self.elem = elem; self.size = size
        self.short = short; self.model = model; self.margs = margs; self.ref = ref
    def decl(self, name=''):
        if self.kind == 'func': fail('object of function type', None)
        """C declarator string for a variable of this type"""
        if self.kind == 'ptr':
            if self.elem.kind == 'array':
                return self.elem.elem.decl('(*%s)[%s]' % (name, self.elem.size))
            return self.elem.decl('*' + name)
        if self.kind == 'array':
            return self.elem.decl('%s[%s]' % (name, self.size))
        return (self.c + ' ' + name).rstrip()
    def is_record(self): return self.kind == 'struct'
    def is_scalar(self): return self.kind in ('builtin', 'ptr', 'enum')
    def __repr__(self): return 'CT(%s)' % self.decl()

class FCtx:
    def __init__(self, decl, cname):
        self.decl = decl; self.cname = cname
        self.aliases = {}      # local alias name -> type dict
        self.lambdas = {}      # 'file:line:col' -> closure record decl
        self.captures = None   # var decl id -> C expr (inside lambda operator())
        self.this_capture = None
        self.temps = []        # stack of lists of decl strings
        self.ntemp = 0
        self.nloop = 0
        self.ret_ref = False
        self.ret_ct = None
        self.is_ctor = False
        self.record = None
        self.skip_vars = set()
        self.loops = []        # (ordinal, file, line)
        self.header_temps = None
        self.dscopes = [[]]    # stack of scopes: each a list of (local name, destructor C name); the string 'LOOP' marks a loop body

class FuncSpec:
    def __init__(self):
        self.requires = []; self.ensures = []; self.assigns = []; self.loops = {}
        self.sig = None; self.name = None; self.src = None; self.used = False; self.optional = False
        self.frees = []
        self.modular_conv = False   # @modular_conversions: integer conversions in this function wrap (no conversion-check)

class LoopSpec:
    def __init__(self):
        self.invariant = []; self.assigns = []; self.decreases = []

def parse_spec_text(text, src='<spec>'):
    """returns (list of FuncSpec, prelude C text)"""
    specs = []; prelude = []; cur = None; curloop = None; clause = None
    def flush():
        nonlocal clause
        if clause is None: return
        kind, lines = clause
        body = '\n'.join(lines).strip()
        clause = None
        if not body and kind not in ('assigns',): return
        if kind == 'requires': cur.requires.append(body)
        elif kind == 'ensures': cur.ensures.append(body)
        elif kind == 'assigns': cur.assigns.append(body)
        elif kind == 'frees': cur.frees.append(body)
        elif kind == 'invariant': curloop.invariant.append(body)
        elif kind == 'loop_assigns': curloop.assigns.append(body)
        elif kind == 'decreases': curloop.decreases.append(body)
    for ln in text.split('\n'):
        s = ln.strip()
        if s.startswith('##'): continue
        if s.startswith('@'):
            flush()
            parts = s.split(None, 1)
            d = parts[0][1:]; rest = parts[1] if len(parts) > 1 else ''
            if d == 'function':
                cur = FuncSpec(); cur.src = src
                m = re.match(r'(\S+)(?:\s+\[(.*)\])?\s*$', rest)
                cur.name = m.group(1); cur.sig = m.group(2)
                specs.append(cur); curloop = None
            elif d == 'loop':
                curloop = LoopSpec(); cur.loops[int(rest)] = curloop
            elif d == 'end':
                cur = None; curloop = None
            elif d == 'optional':
                if cur is None: raise Unsupported('%s: @optional outside @function' % src)
                cur.optional = True
            elif d == 'modular_conversions':
                if cur is None: raise Unsupported('%s: @modular_conversions outside @function' % src)
                cur.modular_conv = True
            elif d in ('requires', 'ensures', 'assigns', 'frees', 'invariant', 'loop_assigns', 'decreases'):
                if cur is None: raise Unsupported('%s: clause outside @function' % src)
                clause = (d, [rest])
            else:
                raise Unsupported('%s: unknown directive @%s' % (src, d))
        else:
            if clause is not None: clause[1].append(ln)
            elif cur is None: prelude.append(ln)
    flush()
    return specs, '\n'.join(prelude)

# --------------------------------------------------------------------------------------
# translator
# --------------------------------------------------------------------------------------
MATH_UF = dict([(f, 1) for f in ('exp','log','cos','sin','tan','cosh','sinh','tanh','exp2','acos','asin','atan','rint','log2','sqrt','cbrt','ceil','trunc','floor','atanh','acosh','asinh','expm1','log1p','log10','fabs')] + [(f, 2) for f in ('pow','fmod','atan2','hypot','fmax','fmin')])
STD_MODELS = ('std::optional', 'std::tuple', 'std::array', 'std::pair', 'std::variant', 'std::vector')
VCAP = 8   # capacity of the bounded model of std::vector (lengths beyond it are an assertion failure of the MODEL)
ARITH_MACRO = {'*': 'MUL', '/': 'DIV', '%': 'MOD'}
FLOAT_MACRO = {'+': 'add', '-': 'sub', '*': 'mul', '/': 'div'}

class Translator:
    def __init__(self, ast, main_file, line_directives=True):
        self.ast = ast
        self.main_file = main_file
        self.line_directives = line_directives
        self.records = {}        # canonical full name -> decl
        self.templ = {}          # template qualname -> [(args, decl)]
        self.enums = {}
        self.galias = {}         # qualified alias name -> type dict
        self.rec_ct = {}         # decl id / model key -> CT
        self.struct_defs = []    # ordered C text
        self.struct_names = {}   # cname -> key
        self.fn_cname = {}       # decl id -> cname
        self.fn_names = {}       # cname -> decl id
        self.fn_text = {}        # decl id -> C text (definition)
        self.fn_proto = {}       # decl id -> prototype
        self.fn_order = []
        self.fn_meta = {}        # cname -> dict
        self.queue = []
        self.lambda_ctx = {}     # decl id -> lambdas dict inherited from caller
        self.lambda_recs = {}    # loc -> [record decls]
        self.model_fns = {}      # name -> C text of helper model functions
        self.specs = []          # FuncSpec list
        self.top_typedefs = []   # (name, type dict) from main file
        self.entries = []
        self.field_names = {}    # field decl id -> C member name
        self.const_cache = {}
        self._ret_cache = {}
        self._merged = {}
        self._ret_hint = {}
        self.hidden_vars = {}
        self.legacy_lambda = {}
        self.alias_templates = {}
        self._scan()

    # ---------------------------------------------------------------- scanning
    def _scan(self):
        ast = self.ast
        stack = [ast.root]
        while stack:
            n = stack.pop()
            k = n.get('kind')
            if k in RECORD_KINDS:
                if n.get('completeDefinition') and k != 'ClassTemplatePartialSpecializationDecl':
                    p = ast.par(n)
                    pk = p.get('kind') if p else None
                    if pk == 'LambdaExpr':
                        loc = self._lambda_loc(p)
                        self.lambda_recs.setdefault(loc, []).append(n)
                    elif pk == 'ClassTemplateDecl' and k == 'CXXRecordDecl':
                        pass  # the template pattern itself
                    else:
                        if not self._in_template_pattern(n):
                            q = norm_type_string(ast.qualname(n))
                            self.records.setdefault(q, n)
                            if k == 'ClassTemplateSpecializationDecl':
                                base = q[:len(q) - len(norm_type_string(ast.record_local_name(n)))] + n.get('name', '')
                                self.templ.setdefault(base, []).append((ast.targs(n), n))
            elif k == 'TypeAliasTemplateDecl':
                self.alias_templates.setdefault(n.get('name'), []).append(n)
            elif k == 'EnumDecl':
                if n.get('name'):
                    self.enums.setdefault(norm_type_string(ast.qualname(n)), n)
            elif k in ('TypeAliasDecl', 'TypedefDecl'):
                p = ast.par(n)
                if p is not None and p.get('kind') in ('NamespaceDecl', 'TranslationUnitDecl') + RECORD_KINDS and 'dependent' not in str(n.get('type', {}).get('qualType', '')):
                    if not self._in_template_pattern(n):
                        q = norm_type_string(ast.qualname(n))
                        self.galias.setdefault(q, n.get('type'))
                        if p.get('kind') == 'TranslationUnitDecl' and n.get('_file') == self.main_file:
                            self.top_typedefs.append((n['name'], n.get('type')))
            elif k == 'FunctionDecl':
                p = ast.par(n)
                if p is not None and p.get('kind') == 'TranslationUnitDecl' and n.get('name', '').startswith('verif_') and any(c.get('kind') == 'CompoundStmt' for c in n.get('inner', [])):
                    self.entries.append(n)
            inner = n.get('inner')
            if inner:
                # do not descend into function bodies for global tables (locals handled per function)
                if k in DECL_FN:
                    # still need lambda closure records inside bodies
                    for c in inner:
                        if c.get('kind') == 'CompoundStmt' or c.get('kind') == 'CXXCtorInitializer':
                            self._scan_body(c)
                    continue
                if k in ('VarDecl', 'VarTemplateSpecializationDecl', 'FieldDecl'):
                    for c in inner: self._scan_body(c)
                    continue
                stack.extend(inner)

    def _scan_body(self, n):
        stack = [n]
        while stack:
            x = stack.pop()
            if x.get('kind') == 'LambdaExpr':
                inner = x.get('inner', [])
                if inner and inner[0].get('kind') == 'CXXRecordDecl':
                    self.lambda_recs.setdefault(self._lambda_loc(x), []).append(inner[0])
            inner = x.get('inner')
            if inner: stack.extend(inner)

    def _lambda_loc(self, lam):
        # type string of the lambda: '(lambda at file:line:col)'
        t = lam.get('type', {}).get('qualType', '')
        m = re.search(r'\(lambda at ([^)]+)\)', t)
        return m.group(1) if m else '?'

    def _in_template_pattern(self, n):
        """True if n lives inside an uninstantiated template pattern (dependent context)"""
        cur = self.ast.par(n); child = n
        while cur is not None:
            k = cur.get('kind')
            if k == 'ClassTemplateDecl' and child.get('kind') == 'CXXRecordDecl':
                return True
            if k == 'ClassTemplatePartialSpecializationDecl':
                return True
            if k in ('FunctionTemplateDecl',) and child.get('kind') in DECL_FN and not any(c.get('kind') == 'TemplateArgument' for c in child.get('inner', [])):
                # first FunctionDecl child of a FunctionTemplateDecl is the pattern
                first = [c for c in cur.get('inner', []) if c.get('kind') in DECL_FN]
                if first and first[0] is child: return True
            child = cur; cur = self.ast.par(cur)
        return False

    # ---------------------------------------------------------------- types
    def ctype(self, tyd, fctx=None, node=None, scope=None):
        """type dict (qualType/desugaredQualType) -> CT"""
        if tyd is None: fail('missing type', node)
        errs = []
        for key in ('desugaredQualType', 'qualType'):
            s = tyd.get(key)
            if not s: continue
            try:
                return self.ctype_str(s, fctx, node, scope)
            except Unsupported as e:
                errs.append(str(e))
        aid = tyd.get('typeAliasDeclId')
        if aid and aid in self.ast.byid:
            ad = self.ast.byid[aid]
            try:
                return self.ctype(ad.get('type'), fctx, node, scope=self.ast.par(ad))
            except Unsupported as e:
                errs.append(str(e))
        fail('cannot resolve type %r: %s' % (tyd, ' | '.join(errs)), node)

    def ctype_str(self, s, fctx=None, node=None, scope=None):
        return self.ct_of(parse_type(s), fctx, node, scope)

    def ct_of(self, t, fctx, node, scope=None):
        if t.kind == 'builtin':
            return CT('builtin', c=t.name, short=BUILTIN_SHORT.get(t.name, sanitize(t.name)))
        if t.kind in ('ptr', 'ref'):
            if t.elem.kind == 'func':
                return CT('ptr', elem=CT('builtin', c='void', short='v'), short='fnptr')
            e = self.ct_of(t.elem, fctx, node, scope)
            # 'r' = reference to const, 'w' = reference to non-const (writable): keeps overloads on constness apart in C names
            pre = 'p' if t.kind != 'ref' else ('r' if getattr(t.elem, 'const', False) else 'w')
            return CT('ptr', elem=e, short=pre + e.short, ref=(t.kind == 'ref'))
        if t.kind == 'array':
            e = self.ct_of(t.elem, fctx, node, scope)
            return CT('array', elem=e, size=t.size, short='a%s_%s' % (e.short, t.size))
        if t.kind == 'func':
            return CT('func', short='fn')
        return self.named(t.name, fctx, node, scope)

    def named(self, name, fctx, node, scope=None):
        name = norm_type_string(name)
        self._depth = getattr(self, '_depth', 0) + 1
        try:
            if self._depth > 60: fail('type resolution recursion on %r' % name, node)
            return self._named(name, fctx, node, scope)
        finally:
            self._depth -= 1

    def _named(self, name, fctx, node, scope=None):
        if name in BUILTIN:
            c = BUILTIN[name]; return CT('builtin', c=c, short=BUILTIN_SHORT.get(c, sanitize(c)))
        # lambda closure
        m = re.search(r'\(lambda at ([^)]+)\)$', name)
        if m:
            loc = m.group(1)
            rec = None
            if fctx is not None and loc in fctx.lambdas: rec = fctx.lambdas[loc]
            else:
                c = self.lambda_recs.get(loc, [])
                if len(c) == 1: rec = c[0]
                elif fctx is not None:
                    # choose the closure nested in the current function
                    mine = [r for r in c if self._is_inside(r, fctx.decl)]
                    if len(mine) == 1: rec = mine[0]
            if rec is None: fail('ambiguous/unknown lambda type %s' % name, node)
            return self.record_ct(rec, fctx)
        base, args = split_template(name)
        if base in STD_MODELS:
            return self.model_ct(base, args, fctx, node)
        if base == '__gnu_cxx::__normal_iterator' and args:
            # iterator of the bounded std::vector model: the element pointer itself
            return self.ctype_str(args[0], fctx, node)
        if name in self.records:
            return self.record_ct(self.records[name], fctx)
        if args is not None and base in self.templ:
            cands = [d for (a, d) in self.templ[base] if a == args]
            if not cands:
                # a non-type argument printed as an enumerator name ('as_type<nmtools::index::VERTICAL>'): clang's JSON records
                # only its integer value for the specialization
                ev = self._enumerator_values()
                # (likewise a bool non-type argument: printed 'true'/'false' in type strings, recorded as value -1/0 -- a 1-bit APSInt)
                eargs = [str(ev[a]) if a in ev else {'true': '-1', 'false': '0'}.get(a, a) for a in args]
                if eargs != args:
                    cands = [d for (a, d) in self.templ[base] if a == eargs]
                    if len(cands) > 1:
                        # same template, same values, different non-type argument TYPES (enum vs integer) cannot be told apart in
                        # the JSON; harmless only when every candidate is an empty record (identical C layout): take the first
                        cts = [self.record_ct(d, fctx) for d in cands]
                        if all(self.record_is_empty(c) for c in cts): return cts[0]
            if not cands:
                cands = [d for (a, d) in self.templ[base] if a[:len(args)] == args]
                if len(cands) > 1:
                    # clang prints a specialization without its trailing DEFAULT arguments ('add<>' for add<none_t,none_t,none_t,void>):
                    # prefer the candidate whose remaining arguments are the primary template's defaults
                    dfl = self._template_defaults(cands[0])
                    if dfl is not None:
                        pick = [d for (a, d) in self.templ[base] if a[:len(args)] == args and len(a) == len(dfl)
                                and all(dfl[k] is not None and norm_type_string(a[k]) == norm_type_string(dfl[k]) for k in range(len(args), len(a)))]
                        if len(pick) == 1: cands = pick
            if not cands:
                # template-template arguments have no name in clang's JSON (recorded as '{"kind": "TemplateArgument"}'):
                # treat them as wildcards; still must be unique
                cands = [d for (a, d) in self.templ[base]
                         if len(a) >= len(args) and all(x == y or x.startswith('{"kind": "TemplateArgument"') for x, y in zip(a, args))]
            if len(cands) == 1: return self.record_ct(cands[0], fctx)
            if len(cands) > 1:
                # specializations that print the same (e.g. on T and const T): harmless when every candidate is an empty record
                # (identical C layout; member functions are resolved through the AST, not through the record)
                try:
                    cts = [self.record_ct(d, fctx) for d in cands]
                    if all(self.record_is_empty(c) for c in cts): return cts[0]
                except Unsupported:
                    pass
                fail('ambiguous template spec %s (%d candidates)' % (name, len(cands)), node)
        if name in self.enums:
            return self.enum_ct(self.enums[name])
        if args is None and '::' not in name and fctx is not None and fctx.aliases.get(name) is not None:
            # a local alias of the function being translated wins over same-named aliases elsewhere (suffix lookup)
            return self.ctype(fctx.aliases[name], fctx, node, scope)
        r = self._suffix_lookup(name, base, args, fctx, node, scope)
        if r is not None: return r
        if args is not None:
            r = self._alias_template(base, args, fctx, node, scope)
            if r is not None: return r
        # aliases: local, then record scope, then global
        if fctx is not None and name in fctx.aliases and fctx.aliases[name] is not None:
            return self.ctype(fctx.aliases[name], fctx, node, scope)
        if name in self.galias:
            return self.ctype(self.galias[name], fctx, node, scope)
        # qualified member of a record:  <record>::member
        j = self._last_scope_sep(name)
        if j > 0:
            prefix, last = name[:j], name[j + 2:]
            try:
                pct = self.named(prefix, fctx, node, scope)
            except Unsupported:
                pct = None
            if pct is not None and pct.kind == 'struct' and pct.rec is not None:
                r = self._member_type(pct.rec, last, fctx, node)
                if r is not None: return r
        if '::' not in name:
            for sc in (scope, fctx.decl if fctx is not None else None):
                cur = sc
                while cur is not None:
                    if cur.get('kind') in RECORD_KINDS:
                        r = self._member_type(cur, name, fctx, node)
                        if r is not None: return r
                    if cur.get('kind') in SCOPE_KINDS:
                        q = norm_type_string(self.ast.qualname(cur) + '::' + name)
                        if q in self.galias: return self.ctype(self.galias[q], fctx, node, cur)
                        if q in self.records: return self.record_ct(self.records[q], fctx)
                    cur = self.ast.par(cur)
        # clang prints template arguments "as written" inside desugared strings ('std::array<tuple<SIMD, unsigned long>, 3>'
        # for nmtools_tuple<SIMD,index_t> written inside namespace nmtools::index):
        #  * an unqualified enum name: the unique enum with that last component
        #  * an unqualified std:: model template: no instantiated non-std template of that name and arguments matched above
        #    (_suffix_lookup), so it can only be the std model
        if '::' not in name and args is None:
            eh = [d for (q, d) in self.enums.items() if q.endswith('::' + name)]
            if len(eh) == 1: return self.enum_ct(eh[0])
        if args is not None and '::' not in base and ('std::' + base) in STD_MODELS:
            return self.model_ct('std::' + base, args, fctx, node)
        mt = re.match(r'^(?:typename )?(?:std::|nmtools::meta::|meta::)?(remove_reference|remove_cvref|remove_const|remove_cv)<(.*)>::type$', name)
        if mt:
            # `typename remove_reference<T>::type` left unresolved in a desugared string (std::add_pointer_t): apply the trait textually
            t = parse_type(mt.group(2))
            if mt.group(1) in ('remove_reference', 'remove_cvref') and t.kind == 'ref': t = t.elem
            return self.ct_of(t, fctx, node, scope)
        if args is not None and len(args) == 1 and base.split('::')[-1] in ('remove_reference_t', 'remove_cvref_t', 'remove_const_t', 'remove_cv_t') \
                and (base.startswith('meta::') or base.startswith('nmtools::meta::') or base.startswith('std::')):
            # type-trait alias printed unresolved (no desugared string on a dependent-looking parameter type): apply it textually
            t = parse_type(args[0]); tr = base.split('::')[-1]
            if tr in ('remove_reference_t', 'remove_cvref_t') and t.kind == 'ref': t = t.elem
            return self.ct_of(t, fctx, node, scope)       # cv-qualifiers do not exist in the C rendering
        fail('unknown type name %r' % name, node)

    def _suffix_index(self):
        if hasattr(self, '_sfx'): return self._sfx
        rec = {}; tm = {}; al = {}
        for q, d in self.records.items():
            b, a = split_template(q)
            if a is None: rec.setdefault(b.split('::')[-1], []).append((q, d))
        for b, lst in self.templ.items():
            tm.setdefault(b.split('::')[-1], []).append((b, lst))
        for q, t in self.galias.items():
            al.setdefault(q.split('::')[-1], []).append((q, t))
        self._sfx = (rec, tm, al)
        return self._sfx

    def _same_arg(self, want, have, fctx, node, scope):
        if want == have: return True
        if not hasattr(self, '_same_arg_memo'): self._same_arg_memo = {}
        key = (want, have, id(scope) if scope is not None else None, (fctx.decl.get('id') if fctx is not None and fctx.decl else None))
        if key in self._same_arg_memo: return self._same_arg_memo[key]
        self._same_arg_memo[key] = False      # (re-entrant lookups of the same pair while it is being decided: not equal)
        r = self._same_arg_uncached(want, have, fctx, node, scope)
        self._same_arg_memo[key] = r
        return r

    def _same_arg_uncached(self, want, have, fctx, node, scope):
        if have == 'tmpl': return True      # template template argument: clang 14 JSON does not print it (wildcard)
        if re.match(r'^-?\d+$', want) or re.match(r'^-?\d+$', have) or want in ('true', 'false') or have in ('true', 'false'):
            return want == have
        try:
            a = self.ctype_str(want, fctx, node, scope); b = self.ctype_str(have, fctx, node, scope)
        except Unsupported:
            return False
        return self._ct_equal(a, b)

    def _ct_equal(self, a, b):
        if a is b: return True
        if a.kind != b.kind: return False
        if a.kind in ('builtin', 'enum'): return a.c == b.c
        if a.kind == 'struct': return a.c == b.c
        if a.kind == 'ptr': return self._ct_equal(a.elem, b.elem)
        if a.kind == 'array': return str(a.size) == str(b.size) and self._ct_equal(a.elem, b.elem)
        return False

    def _suffix_lookup(self, name, base, args, fctx, node, scope):
        rec, tm, al = self._suffix_index()
        last = base.split('::')[-1]
        def sfx_ok(full, part):
            return full == part or full.endswith('::' + part)
        if args is None:
            hits = [(q, d) for (q, d) in rec.get(last, []) if sfx_ok(q, name)]
            if len(hits) == 1: return self.record_ct(hits[0][1], fctx)
            ah = [(q, t) for (q, t) in al.get(last, []) if sfx_ok(q, name)]
            if len(ah) == 1: return self.ctype(ah[0][1], fctx, node, scope)
            return None
        cands = []
        for b, lst in tm.get(last, []):
            if not sfx_ok(b, base): continue
            for (a, d) in lst:
                if len(a) < len(args): continue
                if all(self._same_arg(w, h, fctx, node, scope) for w, h in zip(args, a)):
                    cands.append((a, d))
        exact = [d for (a, d) in cands if len(a) == len(args)]
        if len(exact) == 1: return self.record_ct(exact[0], fctx)
        if not exact and len(cands) == 1: return self.record_ct(cands[0][1], fctx)
        if len(exact) > 1:
            # same-named templates in different namespaces (std::integral_constant / nmtools::meta::integral_constant) with the same
            # arguments: harmless when every candidate is an empty record (identical C layout)
            try:
                cts = [self.record_ct(d, fctx) for d in exact]
                if all(self.record_is_empty(c) for c in cts): return cts[0]
            except Unsupported:
                pass
        return None

    def _alias_template(self, base, args, fctx, node, scope):
        """resolve  alias_t<args>  by textual substitution into the alias template's pattern (simple patterns only)"""
        last = base.split('::')[-1]
        for at in self.alias_templates.get(last, []):
            q = norm_type_string(self.ast.qualname(at))
            if not (q == base or q.endswith('::' + base)): continue
            params = []; pat = None
            for c in at.get('inner', []) or []:
                if c.get('kind') in ('TemplateTypeParmDecl', 'NonTypeTemplateParmDecl'):
                    params.append((c.get('name'), bool(c.get('isParameterPack'))))
                elif c.get('kind') == 'TypeAliasDecl':
                    pat = c.get('type', {}).get('qualType')
            if pat is None: continue
            sub = pat
            ai = 0; ok = True
            for pn, is_pack in params:
                if not pn: ok = False; break
                if is_pack:
                    rest = args[ai:]; ai = len(args)
                    sub = re.sub(r'\b%s\b\s*\.\.\.' % re.escape(pn), ', '.join(rest), sub)
                else:
                    if ai >= len(args): ok = False; break
                    sub = re.sub(r'\b%s\b' % re.escape(pn), lambda m, a=args[ai]: a, sub); ai += 1
            if not ok or ai != len(args): continue
            try:
                return self.ctype_str(sub, fctx, node, scope=self.ast.par(at))
            except Unsupported:
                continue
        return None

    def _last_scope_sep(self, name):
        depth = 0
        for j in range(len(name) - 1, 0, -1):
            c = name[j]
            if c in '>)': depth += 1
            elif c in '<(': depth -= 1
            elif c == ':' and name[j - 1] == ':' and depth == 0:
                return j - 1
        return -1

    def _member_type(self, rec, last, fctx, node):
        for c in rec.get('inner', []) or []:
            if c.get('name') != last: continue
            k = c.get('kind')
            if k in ('TypeAliasDecl', 'TypedefDecl'):
                return self.ctype(c.get('type'), fctx, node, scope=rec)
            if k in RECORD_KINDS and c.get('completeDefinition'):
                return self.record_ct(c, fctx)
            if k == 'EnumDecl':
                return self.enum_ct(c)
        for b in rec.get('bases', []) or []:
            try:
                bt = self.ctype(b.get('type'), fctx, node, scope=rec)
            except Unsupported:
                continue
            if bt.rec is not None:
                r = self._member_type(bt.rec, last, fctx, node)
                if r is not None: return r
        return None

    def _is_inside(self, n, anc):
        cur = n
        while cur is not None:
            if cur is anc or cur.get('id') == anc.get('id'): return True
            cur = self.ast.par(cur)
        return False

    def _enumerator_values(self):
        """{qualified enumerator name (both 'ns::Enum::K' and, for unscoped enums, 'ns::K'): integer value}"""
        if hasattr(self, '_enumvals'): return self._enumvals
        def find_val(x):
            if 'value' in x and x.get('kind') in ('ConstantExpr', 'IntegerLiteral'): return x['value']
            for c in x.get('inner', []) or []:
                v = find_val(c)
                if v is not None: return v
            return None
        out = {}
        for q, d in self.enums.items():
            val = -1
            scope = q.rsplit('::', 1)[0] if '::' in q else ''
            for c in d.get('inner', []) or []:
                if c.get('kind') != 'EnumConstantDecl': continue
                vv = find_val(c)      # ConstantExpr carries the evaluated (signed) value of the initialiser
                try:
                    val = int(vv) if vv is not None else val + 1
                except (TypeError, ValueError):
                    break
                out[q + '::' + c.get('name', '')] = val
                if not d.get('scopedEnumTag'):
                    out[(scope + '::' if scope else '') + c.get('name', '')] = val
        self._enumvals = out
        return out

    def enum_ct(self, decl):
        under = decl.get('fixedUnderlyingType', {}).get('qualType')
        c = 'int'
        if under:
            u = self.ctype_str(under)
            c = u.c
        return CT('enum', c=c, short='e' + sanitize(decl.get('name', 'enum')))

    def short_of_name(self, decl):
        """readable short identifier for a record"""
        nm = decl.get('name') or 'lambda'
        if decl.get('kind') == 'ClassTemplateSpecializationDecl':
            parts = []
            for a in self.ast.targs(decl):
                parts.append(self.short_arg(a))
            nm = nm + '_' + '_'.join(parts) if parts else nm
        elif not decl.get('name'):
            nm = self.lambda_stable_name(decl)
            legacy = 'lambda_%s_%s' % (os.path.basename(str(decl.get('_file') or 'x')).split('.')[0], decl.get('_line'))
            self.legacy_lambda[sanitize(nm)] = sanitize(legacy)
        p = self.ast.par(decl)
        if p is not None and p.get('kind') in RECORD_KINDS:
            nm = self.short_of_name(p) + '__' + nm
        return sanitize(nm)

    def lambda_stable_name(self, decl):
        """line-independent name of a closure type: lambda_<enclosing function>_<ordinal of the lambda in that function>"""
        lam = self.ast.par(decl)
        enc = self.enclosing_fn(decl)
        if enc is None or lam is None or lam.get('kind') != 'LambdaExpr':
            return 'lambda_%s_%s' % (os.path.basename(str(decl.get('_file') or 'x')).split('.')[0], decl.get('_line'))
        body = self.body_of(enc)
        k = -1; cnt = 0
        stack = [body] if body is not None else []
        # also constructor initialisers
        stack += [c for c in enc.get('inner', []) or [] if c.get('kind') == 'CXXCtorInitializer']
        order = []
        def walk(n):
            if n.get('kind') == 'LambdaExpr':
                order.append(n)
                for c in (n.get('inner', []) or [])[1:-1]: walk(c)
                return
            for c in n.get('inner', []) or []: walk(c)
        for x in stack: walk(x)
        for i, l in enumerate(order):
            if l is lam or l.get('id') == lam.get('id'): k = i
        if k < 0:
            return 'lambda_%s_%s' % (os.path.basename(str(decl.get('_file') or 'x')).split('.')[0], decl.get('_line'))
        erec = self.enclosing_record(enc)
        if erec is not None and not erec.get('name') and (self.ast.par(erec) or {}).get('kind') == 'LambdaExpr':
            base = self.lambda_stable_name(erec)
        else:
            nm = enc.get('name', 'fn')
            if nm.startswith('operator'): nm = 'op_' + self.OPNAMES.get(nm[len('operator'):].strip(), 'x')
            base = 'lambda_' + nm
        return '%s_%d' % (base, k)

    def short_arg(self, a):
        a = a.strip()
        if re.match(r'^-?\d+$', a): return a.replace('-', 'm')
        if a in ('true', 'false'): return a
        try:
            t = parse_type(a)
            if t.kind == 'builtin': return BUILTIN_SHORT.get(t.name, sanitize(t.name))
            if t.kind == 'named':
                base, args = split_template(t.name)
                b = base.split('::')[-1]
                if args is None: return sanitize(b)
                return sanitize(b + '_' + '_'.join(self.short_arg(x) for x in args))
            if t.kind in ('ptr', 'ref'): return ('p' if t.kind == 'ptr' else 'r') + self.short_arg(t.elem.key())
        except Exception:
            pass
        return sanitize(a)

    def abbr(self, name, canonical, maxlen):
        """deterministic abbreviation of over-long identifiers: prefix + hash of the canonical (stable) name"""
        if len(name) <= maxlen: return name
        return '%s_%s' % (name[:maxlen - 8].rstrip('_'), hashlib.sha1(str(canonical).encode()).hexdigest()[:6])

    def uniq(self, table, want, key, skey=None):
        """unique C identifier; collisions get a suffix derived from a *stable* key (mangled name / canonical type name),
        never from AST node addresses"""
        want = self.abbr(want, skey if skey is not None else want, 120)
        nm = want; i = 1
        while nm in table and table[nm] != key:
            i += 1
            nm = '%s_%s' % (want, hashlib.sha1(str(skey if skey is not None else key).encode()).hexdigest()[:6]) if i == 2 else '%s_%d' % (want, i)
        table[nm] = key
        return nm

    def record_fields(self, decl):
        """[(cname, field decl)] of non-static data members, bases first as pseudo fields"""
        out = []
        return out

    def record_ct(self, decl, fctx=None):
        rid = decl['id']
        decl = self.ast.byid.get(rid, decl)
        if rid in self.rec_ct: return self.rec_ct[rid]
        q = self.ast.qualname(decl)
        if q.startswith('std::') or q.startswith('__gnu_cxx::'):
            base, args = split_template(norm_type_string(q))
            if base in STD_MODELS:
                return self.model_ct(base, args, fctx, decl)
            if base == '__gnu_cxx::__normal_iterator' and args:
                return self.ctype_str(args[0], fctx, decl)
        short = self.abbr(self.short_of_name(decl), self._record_skey(decl), 56)
        cname = self.uniq(self.struct_names, short, rid, skey=self._record_skey(decl))
        ct = CT('struct', c='struct ' + cname, rec=decl, short=cname)
        self.rec_ct[rid] = ct
        try:
            lines = self._record_lines(decl, cname, ct)
        except Unsupported:
            del self.rec_ct[rid]
            raise
        if not lines:
            lines.append('  char _empty;')
        is_union = ct.size == 'union'
        kw = 'union' if is_union else 'struct'
        if is_union: ct.c = 'union ' + cname
        text = '/* %s */\n%s %s {\n%s\n};\n' % (norm_type_string(q), kw, cname, '\n'.join(lines))
        self.struct_defs.append(text)
        ct.model = None
        return ct

    def _record_skey(self, decl):
        """stable key (no file paths, no line numbers) used to hash-disambiguate colliding C identifiers"""
        enc = self.enclosing_fn(decl)
        if enc is not None:
            return '%s|%s' % (enc.get('mangledName'), decl.get('name') or self.lambda_stable_name(decl))
        return re.sub(r'\(anon@[^)]*\)', '(anon)', self.ast.qualname(decl))

    def _record_lines(self, decl, cname, ct):
        lines = []
        rctx = FCtx(decl, cname)
        enc = self.enclosing_fn(decl)
        if enc is not None:
            if enc['id'] in self.lambda_ctx: rctx.lambdas.update(self.lambda_ctx[enc['id']])
            self._collect_aliases(enc, rctx)
        nb = 0
        for b in decl.get('bases', []) or []:
            bt = self.ctype(b.get('type'), rctx, decl)
            if bt.kind != 'struct': fail('non-record base', decl)
            lines.append('  %s;' % bt.decl('_base%d' % nb))
            nb += 1
        nf = 0
        is_union = decl.get('tagUsed') == 'union'
        ct.size = 'union' if is_union else None
        cap_inits = None
        lam = self.ast.par(decl)
        if lam is not None and lam.get('kind') == 'LambdaExpr':
            cap_inits = (lam.get('inner', []) or [])[1:-1]
        last_anon = None
        for c in decl.get('inner', []) or []:
            if c.get('kind') == 'FieldDecl':
                fname = c.get('name') or ('_f%d' % nf)
                self.field_names[c['id']] = fname
                fqt = c.get('type', {}).get('qualType') or ''
                if not c.get('name') and c.get('isImplicit') and last_anon is not None and cap_inits is None \
                        and ('(anonymous ' in fqt or '(unnamed ' in fqt):
                    # implicit field holding the anonymous struct/union declared just before it
                    ft = self.record_ct(last_anon, rctx)
                    if not hasattr(self, 'anon_field'): self.anon_field = {}
                    self.anon_field[last_anon['id']] = fname
                    lines.append('  %s;' % ft.decl(fname))
                    nf += 1
                    last_anon = None
                    continue
                try:
                    ft = self.ctype(c.get('type'), rctx, c)
                except Unsupported:
                    if cap_inits is None or nf >= len(cap_inits): raise
                    # closure field: type of the captured entity (+ reference)
                    it = self.ctype(cap_inits[nf].get('type'), rctx, c)
                    isref = (c.get('type', {}).get('qualType', '').rstrip().endswith('&'))
                    ft = CT('ptr', elem=it, short='r' + it.short, ref=True) if isref else it
                lines.append('  %s;' % ft.decl(fname))
                nf += 1
            elif c.get('kind') in RECORD_KINDS and not c.get('name') and c.get('completeDefinition') and not c.get('isImplicit'):
                # anonymous struct/union member: emitted through its FieldDecl (which follows); register
                self.records.setdefault('(anon)%s' % c['id'], c)
                last_anon = c
        return lines

    def field_path(self, fd, fctx):
        """C member path of a field relative to the object of fctx.record ('left' inside an anonymous union -> '_f0.left')"""
        path = self.field_names.get(fd['id'], fd.get('name'))
        rec = self.ast.par(fd)
        while rec is not None and not rec.get('name') and rec.get('kind') in RECORD_KINDS:
            outer = self.ast.par(rec)
            if outer is None or outer.get('kind') not in RECORD_KINDS: break
            self.record_ct(outer, fctx)
            af = getattr(self, 'anon_field', {}).get(rec['id'])
            if af is None: fail('anonymous record without implicit field', fd)
            path = af + '.' + path
            rec = outer
        return path

    def record_is_empty(self, ct):
        if ct.kind != 'struct': return False
        if ct.model: return ct.model in ('empty',)
        d = ct.rec
        if d.get('bases'):
            for b in d['bases']:
                if not self.record_is_empty(self.ctype(b.get('type'), None, d)): return False
        return not any(c.get('kind') == 'FieldDecl' for c in d.get('inner', []) or [])

    def ct_stateless(self, ct, depth=0):
        """a type whose objects carry no information (every object equals `(T){0}`): empty records, records / tuples of such"""
        if ct.kind != 'struct' or depth > 8: return False
        if ct.model:
            if ct.model == 'empty': return True
            if ct.model == 'tuple': return all(not m.ref and self.ct_stateless(m, depth + 1) for m in ct.margs)
            return False
        d = ct.rec
        if d is None: return False
        try:
            for b in d.get('bases') or []:
                if not self.ct_stateless(self.ctype(b.get('type'), None, d), depth + 1): return False
            for c in d.get('inner', []) or []:
                if c.get('kind') == 'FieldDecl':
                    if not self.ct_stateless(self.ctype(c.get('type'), None, c, scope=d), depth + 1): return False
        except Unsupported:
            return False
        return True

    def _template_defaults(self, spec):
        """default template arguments (type strings; None where there is none or it is not a plain type) of the primary template of a
        class template specialization"""
        tpl = self.ast.par(spec)
        if tpl is None or tpl.get('kind') != 'ClassTemplateDecl': return None
        out = []
        for c in tpl.get('inner', []) or []:
            if c.get('kind') in ('TemplateTypeParmDecl', 'NonTypeTemplateParmDecl', 'TemplateTemplateParmDecl'):
                da = c.get('defaultArg') or {}
                out.append((da.get('type') or {}).get('qualType') if c.get('kind') == 'TemplateTypeParmDecl' else None)
        return out

    def model_ct(self, base, args, fctx, node):
        args = args or []
        key = base + '<' + ', '.join(args) + '>'
        if key in self.rec_ct: return self.rec_ct[key]
        if base == 'std::optional':
            if len(args) != 1: fail('std::optional without arguments: ' + key, node)
            e = self.ctype_str(args[0], fctx, node)
            cname = self.uniq(self.struct_names, 'opt_' + e.short, key)
            ct = CT('struct', c='struct ' + cname, short=cname, model='optional', margs=[e])
            self.rec_ct[key] = ct
            self.struct_defs.append('/* model of %s */\nstruct %s {\n  _Bool has;\n  %s;\n};\n' % (key, cname, e.decl('val')))
            self.struct_defs.append(
                'static inline %s { __CPROVER_assert(o->has, "std::optional: dereference of empty optional"); return &o->val; }\n'
                % (CT('ptr', elem=e).decl('%s_deref(struct %s *o)' % (cname, cname))))
            return ct
        if base in ('std::tuple', 'std::pair'):
            es = [self.ctype_str(a, fctx, node) for a in args]
            # the same tuple type may be spelled differently ('std::tuple<SIMD, unsigned long>' / 'std::tuple<nmtools::index::SIMD, ...>'):
            # one C struct per list of resolved element types
            ckey = base + '<' + ', '.join(e.decl() for e in es) + '>#canon'
            if ckey in self.rec_ct:
                self.rec_ct[key] = self.rec_ct[ckey]
                return self.rec_ct[ckey]
            cname = self.uniq(self.struct_names, 'tup_' + '_'.join(e.short for e in es) if es else 'tup_empty', key)
            ct = CT('struct', c='struct ' + cname, short=cname, model='tuple', margs=es)
            self.rec_ct[key] = ct; self.rec_ct[ckey] = ct
            fl =['  %s;' % e.decl('e%d' % i) for i, e in enumerate(es)] or ['  char _empty;']
            self.struct_defs.append('/* model of %s */\nstruct %s {\n%s\n};\n' % (key, cname, '\n'.join(fl)))
            return ct
        if base == 'std::vector':
            if not args: fail('std::vector without arguments: ' + key, node)
            e = self.ctype_str(args[0], fctx, node)
            key = 'std::vector<' + args[0] + '>'
            if key in self.rec_ct: return self.rec_ct[key]
            cname = self.uniq(self.struct_names, self.abbr('vec_' + e.short, key, 56), key, skey=key)
            ct = CT('struct', c='struct ' + cname, short=cname, model='vector', margs=[e])
            self.rec_ct[key] = ct
            self.rec_ct[base + '<' + ', '.join(args) + '>'] = ct
            self.struct_defs.append('/* bounded model of %s: at most %d elements */\nstruct %s {\n  %s;\n  unsigned long _M_size;\n};\n' % (key, VCAP, cname, e.decl('_M_elems[%d]' % VCAP)))
            zero = '(%s){0}' % e.c if e.kind == 'struct' else '0'
            fill = '\n'.join('  if (%dUL >= v->_M_size && %dUL < n) v->_M_elems[%d] = %s;' % (k, k, k, zero) for k in range(VCAP))
            self.struct_defs.append(
                'static inline void %s_resize(struct %s *v, unsigned long n) { __CPROVER_assert(n <= %dUL, "std::vector MODEL: length within the modelled capacity %d");\n%s\n  v->_M_size = n; }\n' % (cname, cname, VCAP, VCAP, fill))
            self.struct_defs.append(
                'static inline %s { __CPROVER_assert(i < v->_M_size, "std::vector: index below size()"); return &v->_M_elems[i]; }\n'
                % (CT('ptr', elem=e).decl('%s_at(struct %s *v, unsigned long i)' % (cname, cname))))
            self.struct_defs.append(
                'static inline void %s_push_back(struct %s *v, %s) { __CPROVER_assert(v->_M_size < %dUL, "std::vector MODEL: length within the modelled capacity %d"); v->_M_elems[v->_M_size] = x; v->_M_size = v->_M_size + 1UL; }\n'
                % (cname, cname, e.decl('x'), VCAP, VCAP))
            return ct
        if base == 'std::variant':
            if not args: fail('std::variant without arguments: ' + key, node)
            es = [self.ctype_str(a, fctx, node) for a in args]
            cname = self.uniq(self.struct_names, self.abbr('var_' + '_'.join(e.short for e in es), key, 56), key, skey=key)
            ct = CT('struct', c='struct ' + cname, short=cname, model='variant', margs=es)
            self.rec_ct[key] = ct
            fl = ['    %s;' % e.decl('a%d' % i) for i, e in enumerate(es)]
            self.struct_defs.append('/* model of %s */\nstruct %s {\n  unsigned long idx;\n  union {\n%s\n  } u;\n};\n' % (key, cname, '\n'.join(fl)))
            return ct
        if base == 'std::array':
            if len(args) != 2: fail('std::array without arguments: ' + key, node)
            e = self.ctype_str(args[0], fctx, node); n = int(args[1])
            ckey = '%s<%s, %d>#canon' % (base, e.decl(), n)     # one C struct per resolved element type (spelling-independent)
            if ckey in self.rec_ct:
                self.rec_ct[key] = self.rec_ct[ckey]
                return self.rec_ct[ckey]
            cname = self.uniq(self.struct_names, 'arr_%s_%d' % (e.short, n), key)
            ct = CT('struct', c='struct ' + cname, short=cname, model='array', margs=[e, n])
            self.rec_ct[key] = ct; self.rec_ct[ckey] = ct
            body = '  %s;' % e.decl('_M_elems[%d]' % n) if n > 0 else '  char _empty;'
            self.struct_defs.append('/* model of %s */\nstruct %s {\n%s\n};\n' % (key, cname, body))
            if n > 0:
                self.struct_defs.append(
                    'static inline %s { __CPROVER_assert(i < %d, "std::array: index in range"); return &a->_M_elems[i]; }\n'
                    % (CT('ptr', elem=e).decl('%s_at(struct %s *a, unsigned long i)' % (cname, cname)), n))
            return ct
        fail('no model for ' + key, node)

    # ---------------------------------------------------------------- functions
    OPNAMES = {'()': 'call', '[]': 'index', '=': 'assign', '*': 'star', '->': 'arrow', '==': 'eq', '!=': 'ne',
               '<': 'lt', '>': 'gt', '<=': 'le', '>=': 'ge', '+': 'plus', '-': 'minus', '/': 'div', '%': 'mod',
               '+=': 'pluseq', '-=': 'minuseq', '*=': 'muleq', '!': 'not', '&&': 'and', '||': 'or', '++': 'inc', '--': 'dec',
               '<<': 'shl', '>>': 'shr', '&': 'amp', '|': 'pipe', '~': 'tilde', '^': 'xor', ',': 'comma'}

    def is_std(self, decl):
        q = self.ast.qualname(decl)
        return q.startswith('std::') or q.startswith('__gnu_cxx::') or q.startswith('__builtin')

    def enclosing_fn(self, n):
        cur = self.ast.par(n)
        while cur is not None:
            if cur.get('kind') in DECL_FN: return cur
            cur = self.ast.par(cur)
        return None

    def enclosing_record(self, n):
        cur = self.ast.par(n)
        while cur is not None:
            if cur.get('kind') in RECORD_KINDS: return cur
            if cur.get('kind') in DECL_FN or cur.get('kind') in ('NamespaceDecl', 'TranslationUnitDecl'): return None
            cur = self.ast.par(cur)
        return None

    def fn_base_name(self, decl):
        nm = decl.get('name', 'fn')
        k = decl.get('kind')
        if nm.startswith('operator'):
            op = nm[len('operator'):].strip()
            if op in self.OPNAMES: nm = 'op_' + self.OPNAMES[op]
            elif k == 'CXXConversionDecl': nm = 'conv_' + sanitize(op)
            else: nm = 'op_' + sanitize(op)
        if k == 'CXXConstructorDecl': nm = 'ctor'
        if k == 'CXXDestructorDecl': nm = 'dtor'
        rec = self.enclosing_record(decl)
        if rec is not None:
            rct = self.record_ct(rec)
            if re.search(r'\)\s*const\b', decl.get('type', {}).get('qualType', '')) and nm not in ('op_call',):
                nm += '_c'
            return rct.short + '__' + nm
        # namespace path
        parts = []
        cur = self.ast.par(decl)
        while cur is not None:
            if cur.get('kind') == 'NamespaceDecl' and cur.get('name'): parts.append(cur['name'])
            elif cur.get('kind') in DECL_FN: parts.append(cur.get('name', 'fn'))
            cur = self.ast.par(cur)
        return sanitize('_'.join(reversed(parts)) + '_' + nm)

    def fn_cname_of(self, decl):
        did = decl['id']
        if did in self.fn_cname: return self.fn_cname[did]
        if decl in self.entries or (decl.get('name', '').startswith('verif_') and self.ast.par(decl).get('kind') == 'TranslationUnitDecl'):
            nm = decl['name']
        else:
            base = self.fn_base_name(decl)
            ps = []
            fctx = FCtx(decl, base)
            self._collect_aliases(decl, fctx)
            for c in decl.get('inner', []) or []:
                if c.get('kind') == 'ParmVarDecl':
                    try:
                        sh = self.ctype(c.get('type'), fctx, c).short
                        ps.append(self.abbr(sh, sh, 40))
                    except Unsupported:
                        ps.append('x')
            targs = [self.short_arg(a) for a in self.ast.targs(decl)]
            nm = base + ('__' + '_'.join(ps) if ps else '')
            if nm in self.fn_names and self.fn_names[nm] != did and targs:
                nm = base + '_T_' + '_'.join(targs) + ('__' + '_'.join(ps) if ps else '')
        nm = self.uniq(self.fn_names, nm, did, skey=decl.get('mangledName') or nm)
        self.fn_cname[did] = nm
        return nm

    def body_of(self, decl):
        for c in decl.get('inner', []) or []:
            if c.get('kind') == 'CompoundStmt': return c
        return None

    def _trivial_implicit_assign(self, decl, depth=0):
        """implicit (compiler-synthesised) operator= whose body is only __builtin_memcpy of array members, built-in member
        assignments and trivial implicit operator= of members/bases  ==  a plain struct copy in C"""
        if not decl.get('isImplicit') or decl.get('name') != 'operator=' or depth > 8: return False
        body = self.body_of(decl)
        if body is None: return False
        for s in body.get('inner', []) or []:
            k = s.get('kind')
            if k == 'ReturnStmt': continue
            if k == 'BinaryOperator' and s.get('opcode') == '=': continue
            if k == 'CallExpr':
                c, _ = self.callee_decl(s['inner'][0])
                if c is not None and c.get('name') == '__builtin_memcpy': continue
                return False
            if k in ('CXXOperatorCallExpr', 'CXXMemberCallExpr'):
                c, _ = self.callee_decl(s['inner'][0])
                if c is not None and self.body_of(c) is not None and self._trivial_implicit_assign(c, depth + 1): continue
                return False
            return False
        return True

    def find_definition(self, decl):
        if self.body_of(decl) is not None:
            if decl.get('isImplicit') and self._trivial_implicit_assign(decl): return None
            return decl
        # explicitly defaulted / implicit members have no body
        mn = decl.get('mangledName')
        if mn:
            if not hasattr(self, '_by_mangled'):
                self._by_mangled = {}
                for n in self.ast.byid.values():
                    if n.get('kind') in DECL_FN and n.get('mangledName') and self.body_of(n) is not None:
                        self._by_mangled.setdefault(n['mangledName'], n)
            d = self._by_mangled.get(mn)
            if d is not None: return d
        return None

    def _collect_aliases(self, decl, fctx):
        # inherit from enclosing function (lambdas / local classes)
        enc = self.enclosing_fn(decl)
        if enc is not None:
            self._collect_aliases(enc, fctx)
        body = self.body_of(decl)
        if body is None: return
        stack = [body]
        if decl.get('kind') == 'CXXConstructorDecl':
            # lambdas written inside member initializers belong to the constructor too
            stack.extend(c for c in decl.get('inner', []) or [] if c.get('kind') == 'CXXCtorInitializer')
        while stack:
            n = stack.pop()
            k = n.get('kind')
            if k in ('TypeAliasDecl', 'TypedefDecl'):
                fctx.aliases[n['name']] = n.get('type')
            elif k == 'LambdaExpr':
                inner = n.get('inner', [])
                if inner and inner[0].get('kind') == 'CXXRecordDecl':
                    fctx.lambdas[self._lambda_loc(n)] = inner[0]
                # nested lambdas (their closure types, aliases) belong to the nested operator(); capture inits are ours
                stack.extend(inner[1:-1])
                continue
            elif k in RECORD_KINDS and n.get('name') and n.get('completeDefinition'):
                fctx.aliases.setdefault(n['name'], None)
                self.records.setdefault(norm_type_string(self.ast.qualname(n)), n)
            stack.extend(n.get('inner', []) or [])

    def request(self, decl, caller_fctx=None):
        """ensure decl gets translated; returns cname"""
        d = self.find_definition(decl)
        if d is None:
            fail('no definition found for %s' % self.ast.qualname(decl), decl)
        did = d['id']
        nm = self.fn_cname_of(d)
        self.fn_cname[decl['id']] = nm
        if did not in self.fn_text and did not in [q['id'] for q in self.queue]:
            if caller_fctx is not None:
                self.lambda_ctx[did] = dict(caller_fctx.lambdas)
            self.queue.append(d)
        return nm

    def run(self, entry_names=None):
        for e in self.entries:
            if entry_names is None or e['name'] in entry_names:
                self.request(e)
        while self.queue:
            d = self.queue.pop(0)
            if d['id'] in self.fn_text: continue
            self.translate_fn(d)

    def ret_type_string(self, decl):
        t = decl.get('type', {}).get('qualType', '')
        # strip trailing qualifiers and the parameter list
        s = t
        for q in (' noexcept', ' const', ' &', ' &&'):
            pass
        depth = 0
        # find the '(' opening the parameter list: last top-level '(' ... matching ')' at end (modulo qualifiers)
        s = re.sub(r'\)\s*(const|noexcept|volatile|&|&&|\s)*$', ')', s)
        j = len(s) - 1; depth = 0
        while j >= 0:
            if s[j] == ')': depth += 1
            elif s[j] == '(':
                depth -= 1
                if depth == 0: break
            j -= 1
        return s[:j].strip()

    def translate_fn(self, decl):
        cname = self.fn_cname_of(decl)
        fctx = FCtx(decl, cname)
        if decl['id'] in self.lambda_ctx: fctx.lambdas.update(self.lambda_ctx[decl['id']])
        self._collect_aliases(decl, fctx)
        kind = decl.get('kind')
        rec = self.enclosing_record(decl)
        fctx.record = rec
        is_method = kind in ('CXXMethodDecl', 'CXXConstructorDecl', 'CXXDestructorDecl', 'CXXConversionDecl') and decl.get('storageClass') != 'static'
        params = []
        pinfo = []
        if is_method:
            rct = self.record_ct(rec, fctx)
            params.append(CT('ptr', elem=rct).decl('self'))
            pinfo.append({'name': 'self', 'ptr': True, 'pointee_decl': rct.decl('$'), 'decl': CT('ptr', elem=rct).decl('$')})
        # lambda captures
        lam = self.ast.par(rec) if rec is not None else None
        if rec is not None and lam is not None and lam.get('kind') == 'LambdaExpr':
            self._setup_captures(lam, rec, fctx)
        elif rec is not None:
            # operator() of a generic lambda: parent chain FunctionTemplateDecl -> CXXRecordDecl -> LambdaExpr (handled by enclosing_record)
            pass
        pi = 0
        for c in decl.get('inner', []) or []:
            if c.get('kind') == 'ParmVarDecl':
                ct = self.ctype(c.get('type'), fctx, c)
                nm = c.get('name') or ('_p%d' % pi)
                if any(q['name'] == nm for q in pinfo): nm = '%s_%d' % (nm, pi)   # expanded parameter pack: same name repeated
                c['_cname'] = nm
                params.append(ct.decl(nm))
                if ct.kind == 'ptr' and ct.ref:
                    pinfo.append({'name': nm, 'ptr': True, 'pointee_decl': ct.elem.decl('$'), 'decl': ct.decl('$')})
                else:
                    pinfo.append({'name': nm, 'ptr': False, 'decl': ct.decl('$')})
                pi += 1
        # return type
        fctx.is_ctor = kind == 'CXXConstructorDecl'
        ret, fctx.ret_ref = self.ret_info(decl, fctx)
        fctx.ret_ct = ret
        proto = '%s(%s)' % (cname, ', '.join(params) if params else 'void')
        proto = ret.decl(proto)
        self.fn_proto[decl['id']] = proto
        self.fn_text[decl['id']] = None  # mark in-progress (recursion guard)
        self.fn_order.append(decl['id'])
        # skip-able constexpr locals
        fctx.skip_vars = self._unused_constexpr_locals(decl, fctx)
        lines = []
        fctx.temps.append([])
        pre = []
        if kind == 'CXXConstructorDecl':
            for c in decl.get('inner', []) or []:
                if c.get('kind') == 'CXXCtorInitializer':
                    pre.extend(self.ctor_init(c, fctx))
        body = self.body_of(decl)
        blines = self.stmts(body.get('inner', []) or [], fctx, 1)
        if not ((body.get('inner') or [{}])[-1].get('kind') == 'ReturnStmt'): blines = blines + self.dtor_calls(fctx.dscopes[0], '  ')
        temps = fctx.temps.pop()
        spec = self.spec_for(decl, cname)
        text = []
        text.append('/* %s  [%s:%s] */' % (norm_type_string(self.ast.qualname(decl)), decl.get('_file'), decl.get('_line')))
        text.append(proto)
        if spec is not None:
            spec.used = True
            for r in spec.requires: text.append('__CPROVER_requires(%s)' % r)
            for r in spec.ensures: text.append('__CPROVER_ensures(%s)' % r)
            for r in spec.assigns: text.append('__CPROVER_assigns(%s)' % r)
            for r in spec.frees: text.append('__CPROVER_frees(%s)' % r)
            for k in spec.loops:
                if k >= fctx.nloop:
                    fail('spec %s annotates loop %d but %s has only %d loops' % (spec.src, k, cname, fctx.nloop), decl)
        text.append('{')
        for t in temps: text.append('  ' + t)
        text.extend(pre)
        text.extend(blines)
        text.append('}')
        if spec is not None and getattr(spec, 'modular_conv', False):
            # out-of-range integer conversions are modular here (implementation-defined in C++17, modular on gcc/clang/msvc, C++20)
            text = ['#pragma CPROVER check push', '#pragma CPROVER check disable "conversion"'] + text + ['#pragma CPROVER check pop']
        self.fn_text[decl['id']] = '\n'.join(text)
        self.fn_meta[cname] = {'qualname': norm_type_string(self.ast.qualname(decl)), 'file': decl.get('_file'), 'line': decl.get('_line'),
                               'loops': fctx.loops, 'mangled': decl.get('mangledName'), 'has_spec': spec is not None,
                               'contract_loops': sorted(spec.loops.keys()) if spec is not None else [],
                               'params': pinfo, 'ret': ret.decl(), 'ret_decl': ret.decl('$'), 'ret_ref': fctx.ret_ref}

    def _first_return(self, body):
        stack = [body]
        # BFS in document order, not descending into lambdas
        out = []
        def walk(n):
            if n.get('kind') == 'LambdaExpr': return
            if n.get('kind') == 'ReturnStmt': out.append(n)
            if n.get('kind') == 'IfStmt' and n.get('isConstexpr'):
                inner = n.get('inner', [])
                cond = inner[0]
                if cond.get('kind') == 'ConstantExpr' and 'value' in cond:
                    taken = inner[1] if cond['value'] == 'true' else (inner[2] if len(inner) > 2 else None)
                    if taken is not None: walk(taken)
                    return
            for c in n.get('inner', []) or []: walk(c)
        walk(body)
        for r in out:
            if r.get('inner'): return r
        return out[0] if out else None

    def _unused_constexpr_locals(self, decl, fctx=None):
        """ids of local constexpr VarDecls never referenced from run-time (non-constant-folded) code"""
        body = self.body_of(decl)
        declared = {}; used = set(); empty_cx = set()
        def is_empty_cx(n):
            # a constexpr local whose TYPE is an empty record (e.g. a tuple of integral constants): its value is its type, so its
            # initializer (often lambdas evaluated at compile time) is never needed; references fold to `(T){0}` (const_value)
            if not n.get('constexpr') or fctx is None: return False
            t = n.get('type', {})
            if (parse_type(t.get('desugaredQualType') or t.get('qualType') or 'int')).kind in ('ref', 'ptr'): return False
            try:
                ct = self.ctype(t, fctx, n)
                return ct.kind == 'struct' and self.ct_stateless(ct)
            except Unsupported:
                return False
        uses_in = {}        # constexpr local id -> ids referenced from its own initializer
        def walk(n, owner):
            k = n.get('kind')
            if k == 'VarDecl' and is_empty_cx(n):
                declared[n['id']] = n; empty_cx.add(n['id'])
                return
            if k == 'LambdaExpr':
                # captures/body are run-time code of this function as far as uses are concerned
                for c in (n.get('inner', []) or [])[1:]: walk(c, owner)
                # also the closure's methods
                walk(n['inner'][0], owner) if n.get('inner') else None
                return
            if k == 'ConstantExpr' and 'value' in n and self._scalar_const(n):
                return
            if k == 'IfStmt' and n.get('isConstexpr'):
                inner = n.get('inner', [])
                cond = inner[0]
                if cond.get('kind') == 'ConstantExpr' and 'value' in cond:
                    taken = inner[1] if cond['value'] == 'true' else (inner[2] if len(inner) > 2 else None)
                    if taken is not None: walk(taken, owner)
                    return
            if k == 'VarDecl' and (n.get('constexpr') or 'const' in n.get('type', {}).get('qualType', '').split()):
                declared[n['id']] = n
                if n.get('constexpr') and owner is None:
                    # uses inside the initializer of a constexpr local count only if that local is itself needed
                    uses_in[n['id']] = set()
                    for c in n.get('inner', []) or []: walk(c, n['id'])
                    return
            if k == 'DeclRefExpr':
                r = n.get('referencedDecl', {})
                (used if owner is None else uses_in[owner]).add(r.get('id'))
            if k in ('TypeAliasDecl', 'TypedefDecl', 'StaticAssertDecl'): return
            for c in n.get('inner', []) or []: walk(c, owner)
        walk(body, None)
        # a constexpr var only used by other unused constexpr vars is also unused: propagate liveness from the run-time uses
        todo = [i for i in used if i in uses_in]
        while todo:
            i = todo.pop()
            for j in uses_in.get(i, ()):
                if j not in used:
                    used.add(j)
                    if j in uses_in: todo.append(j)
        skip = set(i for i in declared if i not in used or i in empty_cx)
        return skip

    def _scalar_const(self, n):
        t = n.get('type', {})
        s = t.get('desugaredQualType') or t.get('qualType') or ''
        s = strip_cv(s)
        return s in BUILTIN or s in self.enums

    def _setup_captures(self, lam, rec, fctx):
        fields = [c for c in rec.get('inner', []) or [] if c.get('kind') == 'FieldDecl']
        inits = (lam.get('inner', []) or [])[1:-1]
        if len(fields) != len(inits):
            fail('lambda capture/field mismatch (%d fields, %d inits)' % (len(fields), len(inits)), lam)
        fctx.captures = {}
        by_field = []
        self.record_ct(rec, fctx)
        for f, e in zip(fields, inits):
            fname = self.field_names[f['id']]
            isref = (f.get('type', {}).get('qualType', '').rstrip().endswith('&'))
            tgt = self._capture_target(e)
            if tgt == 'this':
                pt = parse_type(f.get('type', {}).get('qualType', ''))
                fctx.this_capture = ('self->%s' % fname) if pt.kind == 'ptr' else ('(&self->%s)' % fname)
            elif tgt is None:
                fail('cannot determine captured variable', e)
            else:
                fctx.captures[tgt] = ('(*self->%s)' % fname) if isref else ('self->%s' % fname)
                by_field.append((tgt, fctx.captures[tgt]))
        # init-captures ([x = expr]): the body refers to a VarDecl clang does not dump; match by name / uniqueness
        body = self.body_of(fctx.decl) or (lam.get('inner', []) or [])[-1]
        unknown = []
        stack = [body]
        refd = set()
        # holding variables of tuple-like structured bindings declared inside the body are also undumped VarDecls,
        # but they are locals (see decomp_decl / hidden_vars), not init-captures
        sb_hidden = set()
        st2 = [body]
        while st2:
            x = st2.pop()
            if x.get('kind') == 'BindingDecl':
                for y in x.get('inner', []) or []:
                    if y.get('kind') == 'DeclRefExpr' and y.get('referencedDecl', {}).get('kind') == 'VarDecl':
                        sb_hidden.add(y['referencedDecl'].get('id'))
            st2.extend(x.get('inner', []) or [])
        while stack:
            x = stack.pop()
            if x.get('kind') == 'DeclRefExpr' and x.get('referencedDecl', {}).get('id') in sb_hidden:
                continue
            if x.get('kind') == 'DeclRefExpr':
                r = x.get('referencedDecl', {})
                refd.add(r.get('id'))
                if r.get('kind') == 'VarDecl' and r.get('id') not in self.ast.byid and r.get('id') not in [u[0] for u in unknown]:
                    unknown.append((r.get('id'), r.get('name')))
            stack.extend(x.get('inner', []) or [])
        for uid, unm in unknown:
            cands = [(t, c) for (t, c) in by_field if t not in refd and (self.ast.byid.get(t) or {}).get('name') == unm]
            if len(cands) != 1:
                cands = [(t, c) for (t, c) in by_field if t not in refd]
            if len(cands) != 1:
                fail('cannot match init-capture %s to a closure field' % unm, lam)
            fctx.captures[uid] = cands[0][1]

    def _capture_target(self, e):
        stack = [e]
        while stack:
            n = stack.pop(0)
            if n.get('kind') == 'DeclRefExpr': return n.get('referencedDecl', {}).get('id')
            if n.get('kind') == 'CXXThisExpr': return 'this'
            stack.extend(n.get('inner', []) or [])
        return None

    # ---------------------------------------------------------------- specs
    def add_specs(self, specs):
        self.specs.extend(specs)

    def spec_for(self, decl, cname):
        q = norm_type_string(self.ast.qualname(decl))
        qbare = re.sub(r'<.*>', '', q) if False else q
        hits = []
        legacy_names = set()
        for newn, oldn in self.legacy_lambda.items():
            if newn in cname: legacy_names.add(cname.replace(newn, oldn))
        for s in self.specs:
            if s.name == cname or s.name in legacy_names: hits.append(s); continue
            # `@function <C-name prefix>*`: every instantiation whose C name starts with the prefix (e.g. all instantiations of one
            # generic lambda, whose collision suffix is not stable across header edits)
            if s.name.endswith('*') and '::' not in s.name and cname.startswith(s.name[:-1]): hits.append(s); continue
            if self._qual_match(s.name, q):
                # `[substring]` of the C name; `[suffix$]` anchors at the end (overloads whose C name is a prefix of another's)
                if s.sig is None or (cname.endswith(s.sig[:-1]) if s.sig.endswith('$') else s.sig in cname):
                    hits.append(s)
        if not hits: return None
        if len(hits) == 1: return hits[0]
        key = tuple(id(h) for h in hits)
        if key in self._merged: return self._merged[key]
        m = FuncSpec(); m.name = hits[0].name; m.src = ','.join(h.src for h in hits)
        for h in hits:
            h.used = True
            m.requires += h.requires; m.ensures += h.ensures; m.assigns += h.assigns; m.frees += h.frees
            m.modular_conv = m.modular_conv or getattr(h, 'modular_conv', False)
            for k, l in h.loops.items():
                if k in m.loops: fail('loop %d of %s annotated twice' % (k, cname), decl)
                m.loops[k] = l
        self._merged[key] = m
        return m

    def _qual_match(self, pat, q):
        """pat is a qualified name without template arguments; q the full canonical qualname"""
        # strip template args from q at every level
        out = ''; depth = 0
        for c in q:
            if c == '<': depth += 1
            elif c == '>': depth -= 1
            elif depth == 0: out += c
        if '(anon)' in pat:
            # line-independent form for closure types: `f()::(anon)::operator()` matches every lambda inside f
            # (narrow with the [substring of C name] part of @function)
            out = re.sub(r'\(anon@[^)]*\)', '(anon)', out)
        return out == pat

    # ---------------------------------------------------------------- statements
    def line(self, n, ind):
        if self.line_directives and n.get('_line') and n.get('_file'):
            return ['#line %d "%s"' % (n['_line'], n['_file'])]
        return []

    def stmts(self, nodes, fctx, ind):
        out = []
        for n in nodes:
            out.extend(self.stmt(n, fctx, ind))
        return out

    def block(self, n, fctx, ind):
        """translate n (compound or single stmt) as a braced block with its own temp scope"""
        pad = '  ' * ind
        fctx.temps.append([])
        fctx.dscopes.append([])
        if n is None or not n: body = []
        elif n.get('kind') == 'CompoundStmt': body = self.stmts(n.get('inner', []) or [], fctx, ind + 1)
        else: body = self.stmt(n, fctx, ind + 1)
        dsc = fctx.dscopes.pop()
        last = (n.get('inner') or [None])[-1] if (n and n.get('kind') == 'CompoundStmt') else n
        if not (last and last.get('kind') == 'ReturnStmt'): body = body + self.dtor_calls(dsc, pad + '  ')
        temps = fctx.temps.pop()
        return [pad + '{'] + [pad + '  ' + t for t in temps] + body + [pad + '}']

    # ---- destructors of locals with a user-provided destructor (utl::vector): called at scope exit, return, break, continue
    def dtor_calls(self, scope, pad):
        return [pad + '%s(&%s);' % (fn, nm) for (nm, fn) in reversed([x for x in scope if x != 'LOOP'])]

    def pending_dtors(self, fctx, upto_loop=False):
        """destructor calls for every live local, innermost scope first (up to the enclosing loop body if upto_loop)"""
        out = []
        for sc in reversed(fctx.dscopes):
            for x in reversed(sc):
                if x == 'LOOP':
                    if upto_loop: return out
                    continue
                out.append(x)
        return out

    def user_dtor(self, ct, node):
        """the user-provided destructor (with a body) of record type ct, or None. Implicit destructors (members with
        destructors) are NOT emitted -- unchanged behaviour, see README."""
        if ct.kind != 'struct' or ct.model or ct.rec is None: return None
        for c in ct.rec.get('inner', []) or []:
            if c.get('kind') == 'CXXDestructorDecl' and not c.get('isImplicit') and not c.get('explicitlyDefaulted'):
                d = self.find_definition(c)
                if d is None: return None
                body = self.body_of(d)
                if not (body.get('inner') or []): return None     # empty body: nothing to run
                return d
        return None

    def register_local_dtor(self, name, ct, d, fctx):
        dt = self.user_dtor(ct, d)
        if dt is None: return
        fn = self.request(dt, fctx)
        fctx.dscopes[-1].append((name, fn))

    def new_temp(self, ct, fctx, hint='t'):
        fctx.ntemp += 1
        nm = '__%s%d' % (hint, fctx.ntemp)
        fctx.temps[-1].append(ct.decl(nm) + ';')
        if fctx.header_temps is not None: fctx.header_temps.append(nm)
        return nm

    def const_if(self, n):
        """for `if constexpr`: returns (True, taken_branch_or_None) or (False, None)"""
        if not n.get('isConstexpr'): return False, None
        inner = n.get('inner', [])
        cond = inner[0]
        if cond.get('kind') == 'ConstantExpr' and 'value' in cond:
            if cond['value'] == 'true': return True, inner[1]
            return True, (inner[2] if len(inner) > 2 else None)
        fail('if constexpr without folded condition', n)

    def stmt(self, n, fctx, ind):
        pad = '  ' * ind
        k = n.get('kind')
        if not k: return []
        L = self.line(n, ind)
        if k == 'CompoundStmt':
            return self.block(n, fctx, ind)
        if k == 'NullStmt': return []
        if k == 'DeclStmt':
            out = []
            for d in n.get('inner', []) or []:
                out.extend(self.local_decl(d, fctx, ind))
            return (L + out) if out else []
        if k == 'IfStmt':
            isc, taken = self.const_if(n)
            if isc:
                if taken is None or taken.get('kind') == 'NullStmt': return []
                return self.block(taken, fctx, ind)
            inner = list(n.get('inner', []) or [])
            pre = []
            if n.get('hasInit'):
                pre = self.stmt(inner.pop(0), fctx, ind)
            if n.get('hasVar'):
                # if (T x = init) ... : the condition variable is declared in an enclosing block, the condition tests it
                pre = pre + self.stmt(inner.pop(0), fctx, ind)
            cond = self.cond(inner[0], fctx)
            out = L + pre + [pad + 'if (%s)' % cond] + self.block(inner[1], fctx, ind)
            if len(inner) > 2:
                out += [pad + 'else'] + self.block(inner[2], fctx, ind)
            if pre: out = [pad + '{'] + out + [pad + '}']
            return out
        if k == 'ForStmt':
            inner = n.get('inner', [])
            init, condvar, cond, inc, body = inner[0], inner[1], inner[2], inner[3], inner[4]
            if condvar.get('kind'): fail('for with condition variable', n)
            k_loop = fctx.nloop; fctx.nloop += 1
            fctx.loops.append((k_loop, n.get('_file'), n.get('_line')))
            out = [pad + '{']
            fctx.temps.append([])
            initl = self.stmt(init, fctx, ind + 1) if init.get('kind') else []
            fctx.header_temps = []
            c = self.cond(cond, fctx) if cond.get('kind') else '1'
            i = self.ex(inc, fctx) if inc.get('kind') else ''
            htemps = fctx.header_temps; fctx.header_temps = None
            fctx.dscopes.append(['LOOP'])
            bl = self.block(body, fctx, ind + 1)
            fctx.dscopes.pop()
            temps = fctx.temps.pop()
            out += [pad + '  ' + t for t in temps] + initl
            out += self.line(n, ind)
            out += [pad + '  for (; %s; %s)' % (c, i)]
            out += self.loop_contract(fctx, k_loop, htemps, pad + '  ')
            out += bl
            out += [pad + '}']
            return out
        if k == 'WhileStmt':
            inner = n.get('inner', [])
            if len(inner) != 2: fail('while with condition variable', n)
            k_loop = fctx.nloop; fctx.nloop += 1
            fctx.loops.append((k_loop, n.get('_file'), n.get('_line')))
            fctx.header_temps = []
            c = self.cond(inner[0], fctx)
            htemps = fctx.header_temps; fctx.header_temps = None
            fctx.dscopes.append(['LOOP'])
            wbl = self.block(inner[1], fctx, ind)
            fctx.dscopes.pop()
            return L + [pad + 'while (%s)' % c] + self.loop_contract(fctx, k_loop, htemps, pad) + wbl
        if k == 'DoStmt':
            inner = n.get('inner', [])
            k_loop = fctx.nloop; fctx.nloop += 1
            fctx.loops.append((k_loop, n.get('_file'), n.get('_line')))
            fctx.dscopes.append(['LOOP'])
            bl = self.block(inner[0], fctx, ind)
            fctx.dscopes.pop()
            c = self.cond(inner[1], fctx)
            return L + [pad + 'do'] + self.loop_contract(fctx, k_loop, [], pad) + bl + [pad + 'while (%s);' % c]
        if k == 'ReturnStmt':
            inner = n.get('inner', [])
            dl = [pad + '%s(&%s);' % (fn, nm) for (nm, fn) in self.pending_dtors(fctx)]
            if not inner or fctx.ret_ct.c == 'void' and fctx.ret_ct.kind == 'builtin':
                if inner:
                    return L + [pad + '%s;' % self.ex(inner[0], fctx)] + dl + [pad + 'return;']
                return L + dl + [pad + 'return;']
            e = inner[0]
            if dl:
                # the return value is computed first, then the locals are destroyed
                rt = self.new_temp(fctx.ret_ct, fctx, 'ret')
                return L + [pad + '%s = %s;' % (rt, self.addr(e, fctx) if fctx.ret_ref else self.ex(e, fctx))] + dl + [pad + 'return %s;' % rt]
            if fctx.ret_ref:
                return L + [pad + 'return %s;' % self.addr(e, fctx)]
            return L + [pad + 'return %s;' % self.ex(e, fctx)]
        if k == 'BreakStmt': return L + [pad + '%s(&%s);' % (fn, nm) for (nm, fn) in self.pending_dtors(fctx, True)] + [pad + 'break;']
        if k == 'ContinueStmt': return L + [pad + '%s(&%s);' % (fn, nm) for (nm, fn) in self.pending_dtors(fctx, True)] + [pad + 'continue;']
        if k == 'AttributedStmt':
            out = []
            for c in n.get('inner', []):
                if c.get('kind', '').endswith('Attr'): continue
                out += self.stmt(c, fctx, ind)
            return out
        if k == 'CXXForRangeStmt':
            return self.range_for(n, fctx, ind)
        if k == 'SwitchStmt':
            # switch (integral expression) { case K: ... break; default: ... }  -> the identical C construct
            inner = list(n.get('inner', []) or [])
            if n.get('hasInit') or n.get('hasVar') or len(inner) != 2: fail('switch with init statement / condition variable', n)
            def _has_continue(x):
                if x.get('kind') == 'ContinueStmt': return True
                if x.get('kind') in ('ForStmt', 'WhileStmt', 'DoStmt', 'CXXForRangeStmt', 'LambdaExpr'): return False
                return any(_has_continue(c) for c in x.get('inner', []) or [])
            if _has_continue(inner[1]): fail('continue inside switch', n)
            c = self.ex(inner[0], fctx)
            fctx.dscopes.append(['LOOP'])      # `break` leaves the switch: destroys only the locals declared inside it
            bl = self.block(inner[1], fctx, ind)
            fctx.dscopes.pop()
            return L + [pad + 'switch (%s)' % c] + bl
        if k == 'CaseStmt':
            inner = list(n.get('inner', []) or [])
            if len(inner) != 2: fail('case range', n)
            return L + [pad + 'case %s:' % self.ex(inner[0], fctx), pad + '{'] + self.stmt(inner[1], fctx, ind + 1) + [pad + '}']
        if k == 'DefaultStmt':
            inner = list(n.get('inner', []) or [])
            return L + [pad + 'default:', pad + '{'] + self.stmt(inner[0], fctx, ind + 1) + [pad + '}']
        if k in ('GotoStmt', 'LabelStmt', 'CXXTryStmt'):
            fail('unsupported statement', n)
        # expression statement
        return L + [pad + self.ex(n, fctx) + ';']

    def loop_contract(self, fctx, k, htemps, pad):
        spec = self.spec_for(fctx.decl, fctx.cname)
        if spec is None or k not in spec.loops: return []
        ls = spec.loops[k]
        out = []
        if ls.assigns:
            tg = list(ls.assigns) + list(htemps or [])
            out.append(pad + '__CPROVER_assigns(%s)' % ', '.join(tg))
        for i in ls.invariant: out.append(pad + '__CPROVER_loop_invariant(%s)' % i)
        for d in ls.decreases: out.append(pad + '__CPROVER_decreases(%s)' % d)
        return out

    def range_for(self, n, fctx, ind):
        # inner: [init?], range decl, begin decl, end decl, cond, inc, loopvar decl, body
        inner = [c for c in n.get('inner', [])]
        if len(inner) == 8:
            init = inner.pop(0)
            if init.get('kind'): fail('range-for with init', n)
        rng, beg, end, cond, inc, var, body = inner
        pad = '  ' * ind
        k_loop = fctx.nloop; fctx.nloop += 1
        fctx.loops.append((k_loop, n.get('_file'), n.get('_line')))
        out = [pad + '{']
        fctx.temps.append([])
        pre = self.stmt(rng, fctx, ind + 1) + self.stmt(beg, fctx, ind + 1) + self.stmt(end, fctx, ind + 1)
        fctx.header_temps = []
        c = self.cond(cond, fctx); i = self.ex(inc, fctx)
        htemps = fctx.header_temps; fctx.header_temps = None
        fctx.temps.append([])
        vl = self.stmt(var, fctx, ind + 2)
        bl = self.block(body, fctx, ind + 2)
        t2 = fctx.temps.pop()
        temps = fctx.temps.pop()
        out += [pad + '  ' + t for t in temps] + pre
        out += self.line(n, ind + 1) + [pad + '  for (; %s; %s)' % (c, i)] + self.loop_contract(fctx, k_loop, htemps, pad + '  ')
        out += [pad + '  {'] + [pad + '    ' + t for t in t2] + vl + bl + [pad + '  }', pad + '}']
        return out

    def cond(self, n, fctx):
        return self.ex(n, fctx)

    def local_decl(self, d, fctx, ind):
        pad = '  ' * ind
        k = d.get('kind')
        if k in ('TypeAliasDecl', 'TypedefDecl', 'StaticAssertDecl', 'UsingDecl', 'UsingDirectiveDecl', 'NamespaceAliasDecl', 'UsingShadowDecl', 'EmptyDecl'):
            return []
        if k in RECORD_KINDS:
            return []
        if k == 'VarDecl':
            return self.var_decl(d, fctx, ind)
        if k == 'DecompositionDecl':
            return self.decomp_decl(d, fctx, ind)
        fail('unsupported local declaration', d)

    def var_decl(self, d, fctx, ind):
        pad = '  ' * ind
        if d['id'] in fctx.skip_vars:
            return [pad + '/* unused constexpr local %s dropped */' % d.get('name')]
        tq = d.get('type', {})
        pt = parse_type(tq.get('desugaredQualType') or tq.get('qualType'))
        init = None
        for c in d.get('inner', []) or []:
            if c.get('kind', '').endswith('Attr'): continue
            init = c
        try:
            ct = self.ctype(tq, fctx, d)
        except Unsupported:
            # `auto x = f(..)` whose deduced type is printed with the sugar of an alias local to ANOTHER function (`const left_t *`):
            # the initializer expression carries a type that can be resolved
            it = (init or {}).get('type') or {}
            if init is None or pt.kind == 'ref' or not (it.get('desugaredQualType') or it.get('qualType')): raise
            ct = self.ctype(it, fctx, init)
        name = d.get('name')
        if d.get('storageClass') == 'static' and not d.get('constexpr'):
            fail('static local variable', d)
        if pt.kind == 'ref':
            if init is None: fail('reference without initializer', d)
            return [pad + '%s = %s;' % (ct.decl(name), self.addr(init, fctx))]
        if ct.kind == 'struct': self.register_local_dtor(name, ct, d, fctx)
        if init is None:
            return [pad + ct.decl(name) + ';']
        core = self.strip_wrappers(init)
        if core.get('kind') in ('CXXConstructExpr', 'CXXTemporaryObjectExpr') and ct.kind == 'struct':
            r = self.construct_into(core, name, fctx)
            if r is not None:
                return [pad + ct.decl(name) + ';'] + [pad + x + ';' for x in r]
        if ct.kind == 'array' or (core.get('kind') == 'InitListExpr'):
            return [pad + '%s = %s;' % (ct.decl(name), self.initializer(core, fctx))]
        return [pad + '%s = %s;' % (ct.decl(name), self.ex(init, fctx))]

    def decomp_decl(self, d, fctx, ind):
        pad = '  ' * ind
        inner = d.get('inner', [])
        init = inner[0]
        tq = d.get('type', {})
        pt = parse_type(tq.get('desugaredQualType') or tq.get('qualType'))
        ct = self.ctype(tq, fctx, d)
        fctx.ntemp += 1
        hid = '__sb%d' % fctx.ntemp
        d['_cname'] = hid
        out = []
        if pt.kind == 'ref':
            out.append(pad + '%s = %s;' % (ct.decl(hid), self.addr(init, fctx)))
            d['_isref'] = True
        else:
            out.append(pad + '%s = %s;' % (ct.decl(hid), self.ex(init, fctx)))
        # bindings: BindingDecl nodes; each has an inner expr (for tuple-like: a VarDecl holding the get<>() call)
        nb = 0
        for b in inner[1:]:
            if b.get('kind') != 'BindingDecl': continue
            bi = b.get('inner', [])
            if not bi: fail('binding without expr', b)
            hv = None; expr = None
            for x in bi:
                if x.get('kind') == 'VarDecl': hv = x
                else: expr = x
            if hv is not None:
                out.extend(self.var_decl(hv, fctx, ind))
                b['_binding_var'] = hv
            elif expr.get('kind') == 'DeclRefExpr' and expr.get('referencedDecl', {}).get('kind') == 'VarDecl' \
                    and expr['referencedDecl'].get('id') not in self.ast.byid:
                # tuple-like binding: clang does not dump the holding variable (= get<i>(e)); only modelled std types
                bct = ct.elem if ct.kind == 'ptr' else ct
                base = ('(*%s)' % hid) if ct.kind == 'ptr' else hid
                if bct.kind == 'struct' and bct.model == 'tuple': b['_binding_cexpr'] = '%s.e%d' % (base, nb)
                elif bct.kind == 'struct' and bct.model == 'array': b['_binding_cexpr'] = '%s._M_elems[%d]' % (base, nb)
                else: fail('tuple-like structured binding on non-modelled type', d)
                self.hidden_vars[expr['referencedDecl']['id']] = b['_binding_cexpr']
            else:
                b['_binding_expr'] = expr
            nb += 1
        return out

    def strip_wrappers(self, n):
        while n.get('kind') in ('ExprWithCleanups', 'CXXBindTemporaryExpr', 'ParenExpr', 'ConstantExpr') or \
                (n.get('kind') in ('ImplicitCastExpr', 'CXXFunctionalCastExpr') and n.get('castKind') in ('NoOp', 'ConstructorConversion')) or \
                (n.get('kind') == 'MaterializeTemporaryExpr' and False):
            if n.get('kind') == 'ConstantExpr' and 'value' in n and self._scalar_const(n): break
            n = n['inner'][0]
        return n

    # ---------------------------------------------------------------- expressions
    def lit(self, value, ct):
        v = str(value)
        if ct.kind == 'builtin':
            c = ct.c
            if c == '_Bool':
                return '1' if v in ('true', 'True', '1') else '0'
            if c in ('float', 'double', 'long double'):
                return '((%s)%s)' % (c, v)
            if v in ('true', 'True'): v = '1'
            if v in ('false', 'False'): v = '0'
            suf = {'unsigned long': 'UL', 'long': 'L', 'unsigned int': 'U', 'int': '', 'unsigned long long': 'ULL', 'long long': 'LL'}.get(c)
            if suf is not None:
                if v.startswith('-'): return '(-%s%s)' % (v[1:], suf) if v != '-9223372036854775808' else '(-9223372036854775807L-1)'
                return v + suf
            return '((%s)%s)' % (c, v)
        if ct.kind == 'enum':
            return '((%s)%s)' % (ct.c, v)
        fail('literal of non-scalar type %r' % ct)

    def addr(self, n, fctx):
        """C expression for the address of lvalue expression n (used when binding references)"""
        e = self.ex(n, fctx)
        return self.addr_of_text(e)

    def addr_of_text(self, e):
        e = e.strip()
        if e.startswith('(*') and e.endswith(')') and matching(e, 0, '(', ')') == len(e) - 1:
            inner = e[2:-1].strip()
            return inner if re.match(r'^[A-Za-z_][A-Za-z0-9_>\-\.]*$', inner) else '(' + inner + ')'
        return '(&%s)' % e

    def is_ref_type(self, tyd, fctx=None, scope=None):
        if not tyd: return False
        s = (tyd.get('desugaredQualType') or tyd.get('qualType') or '').rstrip()
        if s.endswith('&'): return True
        if s.endswith('*') or strip_cv(s) in BUILTIN: return False
        try:
            return self.ctype(tyd, fctx, None, scope).ref
        except Unsupported:
            return False

    def ex(self, n, fctx):
        k = n.get('kind')
        m = getattr(self, 'ex_' + k, None)
        if m is None: fail('unsupported expression kind', n)
        return m(n, fctx)

    def ex_ParenExpr(self, n, fctx): return '(' + self.ex(n['inner'][0], fctx) + ')'
    def ex_ExprWithCleanups(self, n, fctx): return self.ex(n['inner'][0], fctx)
    def ex_CXXBindTemporaryExpr(self, n, fctx): return self.ex(n['inner'][0], fctx)
    def ex_SubstNonTypeTemplateParmExpr(self, n, fctx): return self.ex(n['inner'][-1], fctx)

    def ex_ConstantExpr(self, n, fctx):
        if 'value' in n and self._scalar_const(n):
            return self.lit(n['value'], self.ctype(n.get('type'), fctx, n))
        return self.ex(n['inner'][0], fctx)

    def ex_IntegerLiteral(self, n, fctx): return self.lit(n['value'], self.ctype(n.get('type'), fctx, n))
    def ex_CXXBoolLiteralExpr(self, n, fctx): return '1' if n.get('value') in (True, 'true') else '0'
    def ex_FloatingLiteral(self, n, fctx):
        ct = self.ctype(n.get('type'), fctx, n)
        v = str(n['value'])
        if not re.search(r'[.eE]|inf|nan', v): v += '.0'
        return v + ('f' if ct.c == 'float' else '')
    def ex_CharacterLiteral(self, n, fctx): return str(n['value'])
    def ex_StringLiteral(self, n, fctx): return n['value']
    def ex_CXXNullPtrLiteralExpr(self, n, fctx): return '((void*)0)'
    def ex_GNUNullExpr(self, n, fctx): return '((void*)0)'
    def ex_PredefinedExpr(self, n, fctx): return '"%s"' % fctx.cname
    def ex_TypeTraitExpr(self, n, fctx):
        if 'value' in n: return '1' if n['value'] in (True, 'true') else '0'
        fail('type trait without value', n)
    def ex_CXXNoexceptExpr(self, n, fctx):
        return '1' if n.get('value') in (True, 'true') else '0'

    def _class_spec_pack_size(self, n, nm):
        """sizeof...(Ts) inside a member of a class template specialization instantiated from a partial specialization
        `template <typename...Ts> struct X<Y<Ts...>, fixed...>` (e.g. meta::len<std::tuple<Ts...>>::value): the pack size is the
        number of top-level template arguments of the specialization's corresponding argument.  None if the pattern is not
        exactly this (unique matching partial specialization whose only template parameter is the pack)."""
        spec = self.ast.par(n)
        while spec is not None and spec.get('kind') != 'ClassTemplateSpecializationDecl':
            spec = self.ast.par(spec)
        if spec is None: return None
        tpl = self.ast.par(spec)
        if tpl is None: return None
        sargs = [c.get('type', {}).get('qualType') for c in spec.get('inner', []) or [] if c.get('kind') == 'TemplateArgument']
        if not hasattr(self, '_partial_specs'):
            # partial specializations may live in a different (reopened) namespace block than the primary template: index all of them once
            self._partial_specs = {}
            for d in self.ast.byid.values():
                if d.get('kind') == 'ClassTemplatePartialSpecializationDecl':
                    self._partial_specs.setdefault(self.ast.qualname(d), []).append(d)
        found = []
        for p in self._partial_specs.get(self.ast.qualname(tpl), []):
            if p.get('kind') != 'ClassTemplatePartialSpecializationDecl' or p.get('name') != spec.get('name'): continue
            tps = [c for c in p.get('inner', []) or [] if c.get('kind') in ('TemplateTypeParmDecl', 'NonTypeTemplateParmDecl', 'TemplateTemplateParmDecl')]
            if len(tps) != 1 or tps[0].get('name') != nm or not tps[0].get('isParameterPack'): continue
            pargs = [c.get('type', {}).get('qualType') for c in p.get('inner', []) or [] if c.get('kind') == 'TemplateArgument']
            if len(pargs) != len(sargs) or None in pargs or None in sargs: continue
            idx = [k for k, a in enumerate(pargs) if re.match(r'^(?:\w+::)*(\w+)<type-parameter-0-0\.\.\.>$', a)]
            if len(idx) != 1: continue
            k = idx[0]
            if any(pargs[j] != sargs[j] for j in range(len(pargs)) if j != k): continue
            head = re.match(r'^(?:\w+::)*(\w+)<', pargs[k]).group(1)
            m = re.match(r'^(?:\w+::)*(\w+)<(.*)>$', sargs[k])
            if not m or m.group(1) != head: continue
            body = m.group(2).strip(); depth = 0; cnt = 0 if body == '' else 1
            for ch in body:
                if ch in '<([': depth += 1
                elif ch in '>)]': depth -= 1
                elif ch == ',' and depth == 0: cnt += 1
            found.append(cnt)
        # (two partial specializations for same-named heads, e.g. std::tuple / utl::tuple, count the same argument list)
        return found[0] if found and all(f == found[0] for f in found) else None

    def ex_SizeOfPackExpr(self, n, fctx):
        nm = n.get('name')
        cnt = 0
        cur = fctx.decl
        while cur is not None and cnt == 0:
            if cur.get('kind') in DECL_FN:
                cnt = sum(1 for c in cur.get('inner', []) or [] if c.get('kind') == 'ParmVarDecl' and c.get('name') == nm)
            cur = self.enclosing_fn(cur)
        if cnt == 0:
            # a template (type) parameter pack of the enclosing function template: count the specialization's pack arguments
            cur = fctx.decl
            while cur is not None:
                tpl = self.ast.par(cur)
                if cur.get('kind') in DECL_FN and tpl is not None and tpl.get('kind') == 'FunctionTemplateDecl':
                    tparams = [c for c in tpl.get('inner', []) or [] if c.get('kind') in ('TemplateTypeParmDecl', 'NonTypeTemplateParmDecl', 'TemplateTemplateParmDecl')]
                    targs = [c for c in cur.get('inner', []) or [] if c.get('kind') == 'TemplateArgument']
                    for k, tp in enumerate(tparams):
                        if tp.get('name') == nm and tp.get('isParameterPack') and k < len(targs) and k == len(tparams) - 1:
                            ta = targs[k]
                            if ta.get('isPack') or all(c.get('kind') == 'TemplateArgument' for c in ta.get('inner', []) or [{}]):
                                return self.lit(len(ta.get('inner', []) or []), self.ctype(n.get('type'), fctx, n))
                cur = self.enclosing_fn(cur)
            cnt2 = self._class_spec_pack_size(n, nm)
            if cnt2 is not None:
                return self.lit(cnt2, self.ctype(n.get('type'), fctx, n))
            fail('cannot determine size of pack %s' % nm, n)
        return self.lit(cnt, self.ctype(n.get('type'), fctx, n))

    def ex_CXXNewExpr(self, n, fctx):
        """only the non-allocating placement form  new(p) T{init}  for scalar T:  ( tmp = (T*)p, *tmp = init, tmp )"""
        ond = n.get('operatorNewDecl', {}).get('type', {}).get('qualType', '')
        if not n.get('isPlacement') or n.get('isArray') or not re.match(r'^void \*\((std::)?size_t, void \*\)', ond):
            fail('new-expression other than non-allocating placement new', n)
        pct = self.ctype(n.get('type'), fctx, n)
        if pct.kind == 'ptr' and pct.elem.kind == 'struct' and not pct.elem.model:
            return self.placement_new_record(n, pct, fctx)
        if pct.kind != 'ptr' or not pct.elem.is_scalar():
            fail('placement new of non-scalar type %s' % pct.decl(), n)
        inner = n.get('inner', []) or []
        if n.get('initStyle') in ('list', 'call', 'parens'):
            if len(inner) != 2: fail('placement new: unexpected operands', n)
            init, place = inner[0], inner[1]
        else:
            if len(inner) != 1: fail('placement new: unexpected operands', n)
            init, place = None, inner[0]
        t = self.new_temp(pct, fctx)
        p = '%s = (%s)%s' % (t, pct.decl(), self.paren(self.ex(place, fctx)))
        if init is None:
            return '(%s, %s)' % (p, t)     # default-initialisation of a scalar: value indeterminate, nothing to execute
        core = self.strip_wrappers(init)
        if core.get('kind') == 'InitListExpr' and not core.get('inner'): v = self.lit(0, pct.elem)
        elif core.get('kind') == 'InitListExpr': v = self.ex(core['inner'][0], fctx)
        else: v = self.ex(init, fctx)
        return '(%s, *%s = %s, %s)' % (p, t, v, t)

    def placement_new_record(self, n, pct, fctx):
        """non-allocating placement new of a (non-modelled) record:  new(p) T(args) / T{args}
        ->  ( tmp = (T*)p, T__ctor(tmp, args...), tmp )   for a user-provided constructor,
            ( tmp = (T*)p, *tmp = <value>, tmp )           for an implicit / defaulted one (plain value)"""
        inner = n.get('inner', []) or []
        if n.get('initStyle') in ('list', 'call', 'parens'):
            if len(inner) != 2: fail('placement new: unexpected operands', n)
            init, place = inner[0], inner[1]
        else:
            fail('placement new of a record without initializer', n)
        t = self.new_temp(pct, fctx)
        p = '%s = (%s)%s' % (t, pct.decl(), self.paren(self.ex(place, fctx)))
        core = self.strip_wrappers(init)
        if core.get('kind') in ('CXXConstructExpr', 'CXXTemporaryObjectExpr'):
            r = self.construct_into(core, '(*%s)' % t, fctx)
            if r is not None:
                return '(%s, %s, %s)' % (p, ', '.join(r), t)
        return '(%s, *%s = %s, %s)' % (p, t, self.ex(init, fctx), t)

    def ex_CXXThisExpr(self, n, fctx):
        if fctx.captures is not None:
            if fctx.this_capture is None: fail('this used in lambda without capture', n)
            return fctx.this_capture
        return 'self'

    def ex_UnaryExprOrTypeTraitExpr(self, n, fctx):
        nm = n.get('name')
        if nm != 'sizeof': fail('unsupported %s' % nm, n)
        if 'argType' in n:
            return 'sizeof(%s)' % self.ctype(n['argType'], fctx, n).decl()
        return 'sizeof(%s)' % self.ex(n['inner'][0], fctx)

    def cast_to(self, n, inner_text, fctx):
        ct = self.ctype(n.get('type'), fctx, n)
        return '((%s)%s)' % (ct.decl(), inner_text)

    def ex_cast(self, n, fctx):
        ck = n.get('castKind')
        sub = n['inner'][-1]
        if ck in ('LValueToRValue', 'NoOp', 'ArrayToPointerDecay', 'FunctionToPointerDecay', 'ConstructorConversion',
                  'UserDefinedConversion', 'AtomicToNonAtomic', 'LValueBitCast'):
            return self.ex(sub, fctx)
        if ck in ('IntegralCast', 'IntegralToFloating', 'FloatingToIntegral', 'FloatingCast', 'BooleanToSignedIntegral',
                  'BitCast', 'PointerToIntegral', 'IntegralToPointer'):
            return self.cast_to(n, self.paren(self.ex(sub, fctx)), fctx)
        if ck == 'NullToPointer':
            return self.cast_to(n, '0', fctx)
        if ck in ('IntegralToBoolean', 'FloatingToBoolean', 'PointerToBoolean'):
            return '(%s != 0)' % self.paren(self.ex(sub, fctx))
        if ck == 'ToVoid':
            return '((void)%s)' % self.paren(self.ex(sub, fctx))
        if ck in ('DerivedToBase', 'UncheckedDerivedToBase'):
            return self.derived_to_base(n, sub, fctx)
        if ck == 'BaseToDerived':
            return self.base_to_derived(n, sub, fctx)
        if ck == 'Dependent': fail('dependent cast', n)
        fail('unsupported cast kind %s' % ck, n)
    ex_ImplicitCastExpr = ex_cast
    ex_CStyleCastExpr = ex_cast
    ex_CXXStaticCastExpr = ex_cast
    ex_CXXFunctionalCastExpr = ex_cast
    ex_CXXConstCastExpr = ex_cast
    ex_CXXReinterpretCastExpr = ex_cast

    def derived_to_base(self, n, sub, fctx):
        # walk the base path through _baseK members
        st = sub.get('type', {})
        spt = parse_type(st.get('desugaredQualType') or st.get('qualType'))
        is_ptr = spt.kind == 'ptr'
        cur_ct = self.ct_of(spt.elem if is_ptr else spt, fctx, n)
        e = self.ex(sub, fctx)
        acc = ('(%s)->' % e) if is_ptr else ('(%s).' % e)
        path = n.get('path', [])
        if not path: fail('derived-to-base without path', n)
        first = True
        for step in path:
            rec = cur_ct.rec
            idx = None
            for i, b in enumerate(rec.get('bases', []) or []):
                bt = self.ctype(b.get('type'), fctx, n)
                bn = norm_type_string(self.ast.qualname(bt.rec)) if bt.rec is not None else ''
                if step.get('name') and (bn.endswith(norm_type_string(step['name'])) or bt.rec.get('name') == step['name'] or norm_type_string(step['name']).endswith(bn)):
                    idx = i; cur_ct = bt; break
            if idx is None:
                if len(rec.get('bases', []) or []) == 1:
                    idx = 0; cur_ct = self.ctype(rec['bases'][0].get('type'), fctx, n)
                else:
                    fail('cannot resolve base path step %r' % step, n)
            acc = acc + ('_base%d' % idx) if first else acc + '._base%d' % idx
            first = False
        return ('(&%s)' % acc) if is_ptr else ('(%s)' % acc)

    def base_to_derived(self, n, sub, fctx):
        """static_cast<Derived&>(base) (CRTP): only when every step of the path is the FIRST base (member _base0 at offset 0),
        so that the cast is a pointer reinterpretation"""
        tt = n.get('type', {})
        tpt = parse_type(tt.get('desugaredQualType') or tt.get('qualType'))
        is_ptr = tpt.kind == 'ptr'
        dct = self.ct_of(tpt.elem if is_ptr else tpt, fctx, n)
        if dct.kind != 'struct' or dct.rec is None or dct.model: fail('base-to-derived to non-record', n)
        path = n.get('path', [])
        if not path: fail('base-to-derived without path', n)
        cur = dct
        for step in path:
            bases = cur.rec.get('bases', []) or []
            if not bases: fail('base-to-derived: path step %r not found' % step, n)
            b0 = self.ctype(bases[0].get('type'), fctx, n)
            if len(bases) > 1:
                bn = norm_type_string(self.ast.qualname(b0.rec)) if b0.rec is not None else ''
                sn = norm_type_string(step.get('name') or '')
                if not sn or not (bn.endswith(sn) or sn.endswith(bn)):
                    fail('base-to-derived through a non-first base (needs an offset adjustment)', n)
            cur = b0
        e = self.ex(sub, fctx)
        if is_ptr: return '((%s *)%s)' % (dct.c, self.paren(e))
        return '(*(%s *)%s)' % (dct.c, self.addr_of_text(e))

    def paren(self, s):
        s = s.strip()
        if re.match(r'^[A-Za-z0-9_\.]+$', s): return s
        if s.startswith('(') and matching(s, 0, '(', ')') == len(s) - 1: return s
        return '(' + s + ')'

    def ex_DeclRefExpr(self, n, fctx):
        r = n.get('referencedDecl', {})
        rk = r.get('kind'); rid = r.get('id')
        if rk in ('ParmVarDecl', 'VarDecl', 'VarTemplateSpecializationDecl', 'DecompositionDecl'):
            d = self.ast.byid.get(rid)
            if fctx.captures is not None and rid in fctx.captures:
                return fctx.captures[rid]
            if d is None and rid in self.hidden_vars: return self.hidden_vars[rid]
            if d is None: fail('unknown referenced decl', n)
            if rk == 'ParmVarDecl' or self._is_local(d):
                nm = d.get('_cname') or d.get('name')
                if rid in fctx.skip_vars:
                    return self.const_value(d, fctx, n)
                if rk == 'VarDecl' and d.get('constexpr') and fctx.captures is not None:
                    # constexpr local of an ENCLOSING function used inside a lambda body without capture (no odr-use): fold it
                    owner = self.enclosing_fn(d)
                    if owner is not None and owner.get('id') != fctx.decl.get('id'):
                        return self.const_value(d, fctx, n)
                if rk == 'ParmVarDecl' and self.enclosing_fn_of_parm(d) is not fctx.decl and fctx.captures is None:
                    pass
                if self.is_ref_type(d.get('type')) or d.get('_isref'):
                    return '(*%s)' % nm
                return nm
            gv = self.mutable_global(d, fctx, n)
            if gv is not None: return gv
            return self.const_value(d, fctx, n)
        if rk in DECL_FN:
            d = self.ast.byid.get(rid)
            return self.request(d, fctx)
        if rk == 'EnumConstantDecl':
            d = self.ast.byid.get(rid)
            return self.enum_const(d, fctx, n)
        if rk == 'BindingDecl':
            if fctx.captures is not None and rid in fctx.captures:
                return fctx.captures[rid]
            b = self.ast.byid.get(rid)
            if b.get('_binding_var') is not None:
                hv = b['_binding_var']
                nm = hv.get('name')
                return '(*%s)' % nm if self.is_ref_type(hv.get('type')) else nm
            if b.get('_binding_cexpr') is not None:
                return b['_binding_cexpr']
            if b.get('_binding_expr') is not None:
                return self.ex(b['_binding_expr'], fctx)
            fail('binding not yet declared', n)
        fail('unsupported DeclRefExpr to %s' % rk, n)

    def mutable_global(self, d, fctx, n):
        """namespace-scope variable of the instantiation TU (main file) that is neither const nor constexpr and has a builtin
        scalar type (e.g. the live-object counter of a tracking element type): emitted as a C global of the same name with its
        constant initializer (0 if none). Returns the C name, or None if d is not such a variable (-> constant folding)."""
        if d.get('kind') != 'VarDecl' or d.get('constexpr'): return None
        p = self.ast.par(d)
        if p is None or p.get('kind') not in ('TranslationUnitDecl', 'NamespaceDecl', 'LinkageSpecDecl'): return None
        qt = (d.get('type', {}).get('desugaredQualType') or d.get('type', {}).get('qualType') or '').strip()
        if re.match(r'^(const|volatile)\b', qt) or qt.endswith('&') or qt.endswith(' const'): return None
        if d.get('_file') != self.main_file: return None
        ct = self.ctype(d.get('type'), fctx, d)
        if ct.kind != 'builtin': return None
        if not hasattr(self, 'global_defs'): self.global_defs = {}
        nm = d.get('name')
        if nm not in self.global_defs:
            init = None
            for c in d.get('inner', []) or []:
                if c.get('kind') in ('TemplateArgument', 'FullComment') or c.get('kind', '').endswith('Attr'): continue
                init = c
            v = self.lit(self.const_eval(init, fctx), ct) if init is not None else self.lit(0, ct)
            self.global_defs[nm] = '%s = %s;' % (ct.decl(nm), v)
        return nm

    def enclosing_fn_of_parm(self, d):
        return self.ast.par(d)

    def _is_local(self, d):
        p = self.ast.par(d)
        while p is not None and p.get('kind') in ('DeclStmt', 'BindingDecl', 'DecompositionDecl'):
            if p.get('kind') == 'DeclStmt': return True
            p = self.ast.par(p)
        if p is not None and p.get('kind') in ('ForStmt', 'IfStmt', 'WhileStmt', 'CXXForRangeStmt', 'SwitchStmt', 'LambdaExpr'):
            return True
        return False

    def enum_const(self, d, fctx, n):
        def find_val(x):
            if 'value' in x and x.get('kind') in ('ConstantExpr', 'IntegerLiteral'): return x['value']
            for c in x.get('inner', []) or []:
                v = find_val(c)
                if v is not None: return v
            return None
        v = find_val(d)
        if v is None:
            # implicit enumerator value: position-based
            p = self.ast.par(d)
            val = -1
            for c in p.get('inner', []):
                if c.get('kind') != 'EnumConstantDecl': continue
                vv = find_val(c)
                val = int(vv) if vv is not None else val + 1
                if c is d or c.get('id') == d.get('id'): break
            v = val
        return '(%s)' % v

    def const_value(self, d, fctx, n, depth=0):
        """fold a namespace-scope / static-member / skipped-local constexpr variable to a C constant"""
        if depth > 20: fail('constant folding too deep', n)
        ct = self.ctype(d.get('type'), fctx, d)
        if ct.kind == 'struct':
            if self.record_is_empty(ct) or self.ct_stateless(ct):
                return '((%s){0})' % ct.c
            if d.get('name') == 'to_value_v' and ct.model == 'array':
                # meta::to_value_v<tuple<integral_constant<T,v0>, integral_constant<T,v1>, ...>>: the value is spelled in the type
                ta = [c for c in d.get('inner', []) or [] if c.get('kind') == 'TemplateArgument']
                ts = norm_type_string(((ta[0].get('type') or {}).get('desugaredQualType') or (ta[0].get('type') or {}).get('qualType') or '')) if ta else ''
                b0, a0 = split_template(strip_cv(ts))
                if a0 is not None and b0.split('::')[-1] in ('tuple', 'tuplev2'):
                    vals = []
                    for x in a0:
                        bx, ax = split_template(strip_cv(x))
                        if ax is None or bx.split('::')[-1] != 'integral_constant' or len(ax) != 2 or not re.match(r'^-?\d+[uUlL]*$', ax[1]): vals = None; break
                        vals.append(re.sub(r'[uUlL]+$', '', ax[1]))
                    if vals is not None and len(vals) == int(ct.margs[1]):
                        return '((%s){{%s}})' % (ct.c, ', '.join(self.lit(int(v), ct.margs[0]) for v in vals))
            if d.get('name') == 'fixed_shape_v' and ct.model == 'array':
                # meta::fixed_shape_v<std::array<T,N>> (possibly nested arrays / raw arrays): the extents are spelled in the type
                ta = [c for c in d.get('inner', []) or [] if c.get('kind') == 'TemplateArgument']
                ts = norm_type_string(strip_cv(((ta[0].get('type') or {}).get('desugaredQualType') or (ta[0].get('type') or {}).get('qualType') or ''))) if ta else ''
                dims = []
                while True:
                    b0, a0 = split_template(strip_cv(ts))
                    if a0 is not None and b0 in ('std::array', 'nmtools::utl::array') and len(a0) == 2 and re.match(r'^\d+[uUlL]*$', a0[1]):
                        dims.append(int(re.sub(r'[uUlL]+$', '', a0[1]))); ts = a0[0]; continue
                    break
                if dims and strip_cv(ts) in BUILTIN and len(dims) == int(ct.margs[1]):
                    return '((%s){{%s}})' % (ct.c, ', '.join(self.lit(v, ct.margs[0]) for v in dims))
            fail('non-empty record constant %s' % d.get('name'), n)
        init = None
        for c in d.get('inner', []) or []:
            if c.get('kind') in ('TemplateArgument', 'FullComment') or c.get('kind', '').endswith('Attr'): continue
            init = c
        if init is None:
            # maybe a declaration; look for a definition with the same mangled name
            mn = d.get('mangledName')
            for x in self.ast.byid.values():
                if x is not d and x.get('mangledName') == mn and x.get('kind') in ('VarDecl', 'VarTemplateSpecializationDecl') and any(
                        c.get('kind') not in ('TemplateArgument',) for c in x.get('inner', []) or []):
                    return self.const_value(x, fctx, n, depth + 1)
            fail('constant %s has no initializer' % d.get('name'), n)
        v = self.const_eval(init, fctx, depth)
        return self.lit(v, ct)

    def const_eval(self, e, fctx, depth=0):
        k = e.get('kind')
        if k in ('ConstantExpr',) and 'value' in e: return self._pyval(e['value'])
        if k in ('IntegerLiteral', 'CharacterLiteral'): return int(e['value'])
        if k == 'CXXBoolLiteralExpr': return 1 if e.get('value') in (True, 'true') else 0
        if k == 'FloatingLiteral': return float(e['value'])
        if k in ('ImplicitCastExpr', 'ExprWithCleanups', 'ParenExpr', 'CStyleCastExpr', 'CXXStaticCastExpr', 'CXXFunctionalCastExpr',
                 'ConstantExpr', 'MaterializeTemporaryExpr', 'CXXBindTemporaryExpr'):
            v = self.const_eval(e['inner'][-1], fctx, depth)
            if e.get('castKind') in ('IntegralToBoolean',): v = 1 if v else 0
            return v
        if k == 'SubstNonTypeTemplateParmExpr': return self.const_eval(e['inner'][-1], fctx, depth)
        if k == 'TypeTraitExpr' and 'value' in e: return 1 if e['value'] in (True, 'true') else 0
        if k == 'SizeOfPackExpr':
            return int(re.match(r'\(*\s*(\d+)', self.ex_SizeOfPackExpr(e, fctx).replace('(unsigned long)', '')).group(1))
        if k == 'DeclRefExpr':
            r = e.get('referencedDecl', {})
            d = self.ast.byid.get(r.get('id'))
            if r.get('kind') == 'EnumConstantDecl': return int(self.enum_const(d, fctx, e).strip('()'))
            if d is None: fail('const eval: unknown decl', e)
            init = None
            for c in d.get('inner', []) or []:
                if c.get('kind') in ('TemplateArgument', 'FullComment') or c.get('kind', '').endswith('Attr'): continue
                init = c
            if init is None: fail('const eval: no init for %s' % d.get('name'), e)
            return self.const_eval(init, fctx, depth + 1)
        if k == 'UnaryOperator':
            v = self.const_eval(e['inner'][0], fctx, depth); op = e.get('opcode')
            if op == '-': return -v
            if op == '!': return 0 if v else 1
            if op == '+': return v
            if op == '~': return ~v
        if k == 'BinaryOperator':
            a = self.const_eval(e['inner'][0], fctx, depth); b = self.const_eval(e['inner'][1], fctx, depth); op = e.get('opcode')
            import operator as O
            tbl = {'+': O.add, '-': O.sub, '*': O.mul, '<': O.lt, '>': O.gt, '<=': O.le, '>=': O.ge, '==': O.eq, '!=': O.ne,
                   '&&': lambda x, y: 1 if (x and y) else 0, '||': lambda x, y: 1 if (x or y) else 0}
            if op in tbl: return int(tbl[op](a, b))
            if op == '/': return int(a / b) if isinstance(a, float) or isinstance(b, float) else (abs(a) // abs(b)) * (1 if (a >= 0) == (b >= 0) else -1)
            if op == '%': return a - b * ((abs(a) // abs(b)) * (1 if (a >= 0) == (b >= 0) else -1))
        if k == 'ConditionalOperator':
            c = self.const_eval(e['inner'][0], fctx, depth)
            return self.const_eval(e['inner'][1 if c else 2], fctx, depth)
        if k == 'CXXOperatorCallExpr' or k == 'CallExpr':
            # immediately-invoked lambda whose (constexpr-folded) body is `return <const>;`
            lam = self._find_kind(e, 'LambdaExpr')
            if lam is not None and lam.get('inner'):
                body = lam['inner'][-1]
                r = self._first_return(body)
                if r is not None and r.get('inner'):
                    return self.const_eval(r['inner'][0], fctx, depth + 1)
        fail('cannot constant-fold', e)

    def _pyval(self, v):
        if v in ('true', True): return 1
        if v in ('false', False): return 0
        try: return int(v)
        except ValueError: return float(v)

    def _find_kind(self, e, kind):
        stack = [e]
        while stack:
            n = stack.pop(0)
            if n.get('kind') == kind: return n
            stack.extend(n.get('inner', []) or [])
        return None

    def ex_UnaryOperator(self, n, fctx):
        op = n.get('opcode'); sub = n['inner'][0]
        e = self.ex(sub, fctx)
        if op == '&': return self.addr_of_text(e)
        if op == '*': return '(*%s)' % self.paren(e)
        if n.get('isPostfix'): return '(%s%s)' % (self.paren(e), op)
        if op in ('__extension__',): return e
        return '(%s%s)' % (op, self.paren(e))

    def _is_ul(self, n, fctx):
        t = n.get('type', {})
        s = strip_cv(t.get('desugaredQualType') or t.get('qualType') or '')
        return s == 'unsigned long'

    def ex_BinaryOperator(self, n, fctx):
        op = n.get('opcode'); a, b = n['inner'][0], n['inner'][1]
        ea = self.ex(a, fctx); eb = self.ex(b, fctx)
        if op in ARITH_MACRO and self._is_ul(n, fctx) and self._is_ul(a, fctx) and self._is_ul(b, fctx):
            return '%s_ul(%s, %s)' % (ARITH_MACRO[op], ea, eb)
        if op in ('/', '%') and all(strip_cv((x.get('type', {}).get('desugaredQualType') or x.get('type', {}).get('qualType') or '')) == 'int' for x in (n, a, b)):
            # int / int, int % int: macro (models/prelude.h: the C operator; a spec header may override it with an uninterpreted function + axioms)
            return '%s_i(%s, %s)' % (ARITH_MACRO[op], ea, eb)
        if op == ',': return '(%s, %s)' % (ea, eb)
        if op == '=':
            return '(%s = %s)' % (ea, eb)
        if op in FLOAT_MACRO:
            ts = [strip_cv((x.get('type', {}).get('desugaredQualType') or x.get('type', {}).get('qualType') or '')) for x in (n, a, b)]
            if ts[0] in ('float', 'double') and ts[1] == ts[0] and ts[2] == ts[0]:
                # float arithmetic through a macro (spec/mathuf.h): the C operator, or an uninterpreted function in unit mode 'fuf'
                return 'FOP_%s_%s(%s, %s)' % (FLOAT_MACRO[op], 'f' if ts[0] == 'float' else 'd', ea, eb)
        return '(%s %s %s)' % (self.paren(ea), op, self.paren(eb))

    def ex_CompoundAssignOperator(self, n, fctx):
        op = n.get('opcode'); a, b = n['inner'][0], n['inner'][1]
        ea = self.ex(a, fctx); eb = self.ex(b, fctx)
        bop = op[:-1]
        cl = strip_cv(n.get('computeLHSType', {}).get('desugaredQualType') or n.get('computeLHSType', {}).get('qualType') or '')
        cr = strip_cv(n.get('computeResultType', {}).get('desugaredQualType') or n.get('computeResultType', {}).get('qualType') or '')
        if bop in ARITH_MACRO and self._is_ul(a, fctx) and self._is_ul(b, fctx) and cl == 'unsigned long' and cr == 'unsigned long' \
                and not re.search(r'\+\+|--|=', ea):
            return '(%s = %s_ul(%s, %s))' % (ea, ARITH_MACRO[bop], ea, eb)
        return '(%s %s %s)' % (ea, op, self.paren(eb))

    def ex_ConditionalOperator(self, n, fctx):
        c, a, b = n['inner']
        if n.get('valueCategory') == 'lvalue':
            return '(*(%s ? %s : %s))' % (self.paren(self.ex(c, fctx)), self.addr(a, fctx), self.addr(b, fctx))
        return '(%s ? %s : %s)' % (self.paren(self.ex(c, fctx)), self.paren(self.ex(a, fctx)), self.paren(self.ex(b, fctx)))

    def ex_ArraySubscriptExpr(self, n, fctx):
        a, i = n['inner']
        # element-level bounds obligation for fixed-size arrays (CBMC's pointer check is only object-granular)
        base = a
        while base.get('kind') in ('ImplicitCastExpr', 'ParenExpr') and base.get('castKind') in (None, 'ArrayToPointerDecay', 'NoOp'):
            base = base['inner'][0]
        bt = base.get('type', {})
        bs = bt.get('desugaredQualType') or bt.get('qualType') or ''
        idx = self.ex(i, fctx)
        try:
            pt = parse_type(bs)
            if pt.kind == 'array' and re.match(r'^\d+$', str(pt.size)):
                idx = 'VERIF_IDX(%s, %sUL)' % (idx, pt.size)
        except Unsupported:
            pass
        return '%s[%s]' % (self.paren(self.ex(a, fctx)), idx)

    def ex_MemberExpr(self, n, fctx):
        base = n['inner'][0]
        mid = n.get('referencedMemberDecl')
        md = self.ast.byid.get(mid)
        if md is None: fail('unknown member', n)
        mk = md.get('kind')
        if mk == 'VarDecl':
            return self.const_value(md, fctx, n)
        if mk == 'EnumConstantDecl':
            return self.enum_const(md, fctx, n)
        if mk != 'FieldDecl':
            fail('MemberExpr to %s outside call' % mk, n)
        rec = self.ast.par(md)
        rct = self.record_ct(rec, fctx)
        fname = self.field_names.get(mid, md.get('name'))
        be = self.ex(base, fctx)
        if rct.model: fail('field access into modelled std type', n)
        if n.get('isArrow'):
            e = '%s->%s' % (self.paren(be), fname)
        else:
            e = '%s.%s' % (self.paren(be), fname)
        if self.is_ref_type(md.get('type')):
            return '(*%s)' % e
        return e

    def ex_MaterializeTemporaryExpr(self, n, fctx):
        sub = n['inner'][0]
        ct = self.ctype(n.get('type'), fctx, n)
        core = self.strip_wrappers(sub)
        if core.get('kind') in ('CXXConstructExpr', 'CXXTemporaryObjectExpr') and ct.kind == 'struct':
            t = self.new_temp(ct, fctx)
            r = self.construct_into(core, t, fctx)
            if r is not None:
                return '(*(%s, &%s))' % (', '.join(r), t)
            return '(*(%s = %s, &%s))' % (t, self.ex(sub, fctx), t)
        t = self.new_temp(ct, fctx)
        return '(*(%s = %s, &%s))' % (t, self.ex(sub, fctx), t)

    # ---- construction
    def find_ctor(self, n, rct, fctx):
        """constructor decl for a CXXConstructExpr (by ctorType string within the record)"""
        want = n.get('ctorType', {}).get('qualType')
        rec = rct.rec
        cands = []
        def ctors(r):
            for c in r.get('inner', []) or []:
                if c.get('kind') == 'CXXConstructorDecl': yield c
                elif c.get('kind') == 'FunctionTemplateDecl':
                    for s in c.get('inner', []) or []:
                        if s.get('kind') == 'CXXConstructorDecl' and any(x.get('kind') == 'TemplateArgument' for x in s.get('inner', []) or []):
                            yield s
        for c in ctors(rec):
            if c.get('type', {}).get('qualType') == want: cands.append(c)
        if not cands:
            nw = norm_type_string(want or '')
            for c in ctors(rec):
                if norm_type_string(c.get('type', {}).get('qualType', '')) == nw: cands.append(c)
        if not cands:
            fail('constructor %r not found in %s' % (want, rct.c), n)
        # prefer one with a body / used
        withbody = [c for c in cands if self.body_of(c) is not None]
        return (withbody or cands)[0]

    def ctor_user_defined(self, c):
        if c.get('isImplicit') or c.get('explicitlyDefaulted'): return False
        return self.body_of(c) is not None

    def ctor_is_trivial_copy(self, c):
        ps = [p for p in c.get('inner', []) or [] if p.get('kind') == 'ParmVarDecl']
        return len(ps) == 1 and (c.get('isImplicit') or c.get('explicitlyDefaulted') == 'default')

    def args_for(self, callee, args, fctx):
        """translate call arguments according to callee parameter reference-ness"""
        ps = [p for p in callee.get('inner', []) or [] if p.get('kind') == 'ParmVarDecl']
        out = []
        for i, a in enumerate(args):
            if a.get('kind') == 'CXXDefaultArgExpr':
                if i >= len(ps): fail('default argument without parameter', a)
                dflt = [x for x in ps[i].get('inner', []) or [] if not x.get('kind', '').endswith('Attr')]
                if not dflt: fail('default argument expression not found', a)
                a = dflt[-1]
            if i < len(ps) and self.is_ref_type(ps[i].get('type')):
                out.append(self.addr(a, fctx))
            else:
                out.append(self.ex(a, fctx))
        return out

    def construct_into(self, n, target, fctx):
        """statements (as comma-able expressions) constructing record `target` from CXXConstructExpr n,
        or None if the construction is a plain value (use ex())"""
        rct = self.ctype(n.get('type'), fctx, n)
        if rct.model: return None
        ctor = self.find_ctor(n, rct, fctx)
        if not self.ctor_user_defined(ctor):
            return None
        args = n.get('inner', []) or []
        fn = self.request(ctor, fctx)
        return ['%s(%s)' % (fn, ', '.join(['&' + target] + self.args_for(ctor, args, fctx)))]

    def ex_CXXConstructExpr(self, n, fctx):
        rct = self.ctype(n.get('type'), fctx, n)
        args = n.get('inner', []) or []
        if rct.kind != 'struct':
            if rct.kind == 'array': fail('array construct expr', n)
            if len(args) == 1: return self.ex(args[0], fctx)
            fail('scalar construct with %d args' % len(args), n)
        if rct.model:
            return self.model_construct(n, rct, args, fctx)
        ctor = self.find_ctor(n, rct, fctx)
        has_def = self.ctor_user_defined(ctor)
        if not has_def:
            if len(args) == 1 and self.ctor_is_trivial_copy(ctor):
                return self.ex(args[0], fctx)
            if len(args) == 0:
                return self.default_value(rct, n, fctx)
            fail('constructor without definition', n)
        t = self.new_temp(rct, fctx)
        r = self.construct_into(n, t, fctx)
        return '(%s, %s)' % (', '.join(r), t)
    ex_CXXTemporaryObjectExpr = ex_CXXConstructExpr

    def default_value(self, rct, n, fctx):
        """implicit default construction: apply default member initializers, zero otherwise when value-initialised"""
        rec = rct.rec
        inits = []
        any_nsdmi = False
        for c in rec.get('inner', []) or []:
            if c.get('kind') == 'FieldDecl':
                fin = [x for x in c.get('inner', []) or [] if not x.get('kind', '').endswith('Attr')]
                if c.get('hasInClassInitializer') and fin:
                    any_nsdmi = True
                    inits.append('.%s = %s' % (self.field_names.get(c['id'], c.get('name')), self.initializer(fin[0], fctx)))
        if rec.get('bases'):
            for i, b in enumerate(rec['bases']):
                bt = self.ctype(b.get('type'), fctx, n)
                if not self.record_is_empty(bt):
                    inits.append('._base%d = %s' % (i, self.initializer_of_default(bt, n, fctx)))
        if not inits:
            return '((%s){0})' % rct.c
        return '((%s){%s})' % (rct.c, ', '.join(inits))

    def initializer_of_default(self, bt, n, fctx):
        v = self.default_value(bt, n, fctx)
        # strip the compound literal cast to get a brace initializer
        m = re.match(r'^\(\((?:struct|union) [A-Za-z0-9_]+\)(\{.*\})\)$', v, re.S)
        return m.group(1) if m else v

    def initializer(self, n, fctx):
        """C initializer (may be a brace list) for expression n"""
        core = self.strip_wrappers(n)
        k = core.get('kind')
        if k == 'InitListExpr':
            ct = self.ctype(core.get('type'), fctx, core)
            items = [c for c in core.get('inner', []) or []]
            if ct.kind == 'struct' and ct.model == 'array':
                if len(items) == 1:
                    # semantic form std::array<T,N>{a, b}: one inner InitListExpr of type T[N] (already one brace level)
                    ic = self.strip_wrappers(items[0])
                    if ic.get('kind') == 'InitListExpr' and any(re.search(r'\[\d+\]$', (ic.get('type', {}).get(tk) or '').strip()) for tk in ('qualType', 'desugaredQualType')):
                        return '{%s}' % self.initializer(items[0], fctx)
                return '{{%s}}' % ', '.join(self.initializer(c, fctx) for c in items) if items else '{0}'
            if ct.kind == 'struct' and ct.model:
                return self.ex(core, fctx)
            if ct.kind == 'struct' and core.get('field'):
                # union initialisation
                f = core['field']
                return '{.%s = %s}' % (self.field_names.get(f.get('id'), f.get('name')), self.initializer(items[0], fctx))
            if not items: return '{0}'
            if ct.kind == 'struct' and ct.rec is not None:
                # aggregate initialisation: bases first, then fields; reference members bind by address
                slots = []
                for b in ct.rec.get('bases', []) or []: slots.append(False)
                for c in ct.rec.get('inner', []) or []:
                    if c.get('kind') == 'FieldDecl': slots.append(self.is_ref_type(c.get('type'), fctx, ct.rec))
                parts = []
                for i, c in enumerate(items):
                    if i < len(slots) and slots[i]: parts.append(self.addr(c, fctx))
                    else: parts.append(self.initializer(c, fctx))
                return '{%s}' % ', '.join(parts)
            if ct.kind in ('struct', 'array'):
                return '{%s}' % ', '.join(self.initializer(c, fctx) for c in items)
            return self.ex(items[0], fctx)
        if k in ('ImplicitValueInitExpr', 'CXXScalarValueInitExpr'):
            ct = self.ctype(core.get('type'), fctx, core)
            return '{0}' if ct.kind in ('struct', 'array') else self.lit(0, ct)
        if k == 'CXXDefaultInitExpr':
            fail('CXXDefaultInitExpr outside constructor', n)
        return self.ex(n, fctx)

    def ex_InitListExpr(self, n, fctx):
        ct = self.ctype(n.get('type'), fctx, n)
        if ct.kind == 'struct':
            if ct.model in ('tuple', 'optional'):
                return self.model_construct(n, ct, n.get('inner', []) or [], fctx)
            return '((%s)%s)' % (ct.c, self.initializer(n, fctx))
        if ct.kind == 'array': fail('array init list as expression', n)
        items = n.get('inner', []) or []
        return self.ex(items[0], fctx) if items else self.lit(0, ct)

    def ex_ImplicitValueInitExpr(self, n, fctx):
        ct = self.ctype(n.get('type'), fctx, n)
        if ct.kind == 'struct': return '((%s){0})' % ct.c
        if ct.kind == 'array': fail('array value-init as expression', n)
        return self.lit(0, ct)
    ex_CXXScalarValueInitExpr = ex_ImplicitValueInitExpr

    def ctor_init(self, c, fctx):
        """CXXCtorInitializer -> statements"""
        out = []
        e = c['inner'][0] if c.get('inner') else None
        if 'anyInit' in c:
            f = c['anyInit']
            fd = self.ast.byid.get(f['id'])
            self.record_ct(self.ast.par(fd), fctx)
            fname = self.field_path(fd, fctx)
            target = 'self->%s' % fname
            fct = self.ctype(fd.get('type'), fctx, fd)
            if e.get('kind') == 'CXXDefaultInitExpr':
                fin = [x for x in fd.get('inner', []) or [] if not x.get('kind', '').endswith('Attr')]
                if not fin: fail('default member init not found', fd)
                e = fin[0]
            if self.is_ref_type(fd.get('type')):
                out.append('  %s = %s;' % (target, self.addr(e, fctx)))
                return out
            core = self.strip_wrappers(e)
            if core.get('kind') in ('CXXConstructExpr', 'CXXTemporaryObjectExpr') and fct.kind == 'struct' and not fct.model:
                r = self.construct_into(core, '(%s)' % target, fctx)
                if r is not None:
                    return ['  ' + x.replace('&(%s)' % target, '&%s' % target) + ';' for x in r]
            if fct.kind == 'array':
                if core.get('kind') in ('ImplicitValueInitExpr',) or (core.get('kind') == 'InitListExpr' and not core.get('inner')):
                    out.append('  __builtin_memset(%s, 0, sizeof(%s));' % (target, target))
                    return out
                if core.get('kind') == 'InitListExpr':
                    items = core.get('inner', []) or []
                    for i, it in enumerate(items):
                        out.append('  %s[%d] = %s;' % (target, i, self.ex(it, fctx)))
                    n = int(fct.size)
                    for i in range(len(items), n):
                        out.append('  %s[%d] = 0;' % (target, i))
                    return out
                fail('array member initializer', c)
            if core.get('kind') in ('InitListExpr', 'ImplicitValueInitExpr') and fct.kind == 'struct':
                out.append('  %s = (%s)%s;' % (target, fct.c, self.initializer(core, fctx)))
                return out
            out.append('  %s = %s;' % (target, self.ex(e, fctx)))
            return out
        if 'baseInit' in c:
            bt = self.ctype(c['baseInit'], fctx, c)
            rec = fctx.record
            idx = None
            for i, b in enumerate(rec.get('bases', []) or []):
                if self.ctype(b.get('type'), fctx, c) is bt: idx = i
            if idx is None: fail('base initializer not matched', c)
            core = self.strip_wrappers(e)
            target = 'self->_base%d' % idx
            if core.get('kind') in ('CXXConstructExpr', 'CXXTemporaryObjectExpr'):
                r = self.construct_into(core, '(%s)' % target, fctx)
                if r is not None: return ['  ' + x + ';' for x in r]
            out.append('  %s = %s;' % (target, self.ex(e, fctx)))
            return out
        fail('unsupported ctor initializer', c)

    # ---- lambdas
    def ex_LambdaExpr(self, n, fctx):
        inner = n.get('inner', [])
        rec = inner[0]
        fctx.lambdas.setdefault(self._lambda_loc(n), rec)
        rct = self.record_ct(rec, fctx)
        fields = [c for c in rec.get('inner', []) or [] if c.get('kind') == 'FieldDecl']
        inits = inner[1:-1]
        if len(fields) != len(inits): fail('lambda capture mismatch', n)
        if not fields: return '((%s){0})' % rct.c
        parts = []
        for f, e in zip(fields, inits):
            fname = self.field_names[f['id']]
            if self.is_ref_type(f.get('type')):
                parts.append('.%s = %s' % (fname, self.addr(e, fctx)))
            else:
                parts.append('.%s = %s' % (fname, self.ex(e, fctx)))
        return '((%s){%s})' % (rct.c, ', '.join(parts))

    # ---- calls
    def callee_decl(self, n):
        x = n
        while x.get('kind') in ('ImplicitCastExpr', 'ParenExpr'):
            x = x['inner'][0]
        if x.get('kind') == 'DeclRefExpr':
            return self.ast.byid.get(x['referencedDecl']['id']), x
        if x.get('kind') == 'MemberExpr':
            return self.ast.byid.get(x.get('referencedMemberDecl')), x
        return None, x

    def returns_ref(self, callee, n):
        did = callee['id']
        vc = n.get('valueCategory')
        if vc is not None and did not in self._ret_cache:
            self._ret_hint.setdefault(did, vc in ('lvalue', 'xvalue'))
        return self.ret_info(callee)[1]

    def ret_info(self, decl, fctx=None):
        did = decl['id']
        if did in self._ret_cache: return self._ret_cache[did]
        if fctx is None:
            fctx = FCtx(decl, '?')
            if did in self.lambda_ctx: fctx.lambdas.update(self.lambda_ctx[did])
            self._collect_aliases(decl, fctx)
        kind = decl.get('kind')
        ref = False
        if kind in ('CXXConstructorDecl', 'CXXDestructorDecl'):
            ret = CT('builtin', c='void', short='v')
        else:
            rs = self.ret_type_string(decl)
            ret = None
            if rs and re.match(r'^\w+$', rs) and rs not in BUILTIN and rs not in getattr(fctx, 'aliases', {}):
                # a deduced return type printed with the sugar of ANOTHER function's local alias (`view_t` of the callee whose result
                # is returned): the name means nothing in this scope -- use the type of the returned expression (desugared by clang)
                r0 = self._first_return(self.body_of(decl))
                if r0 is not None and r0.get('inner') and (r0['inner'][0].get('type') or {}).get('desugaredQualType'):
                    rs = None
            if rs and rs not in ('auto', 'decltype(auto)'):
                try:
                    ret = self.ctype_str(rs, fctx, decl, scope=self.ast.par(decl))
                    ref = ret.ref
                except Unsupported:
                    ret = None
            if ret is None:
                r = self._first_return(self.body_of(decl))
                if r is None or not r.get('inner'):
                    ret = CT('builtin', c='void', short='v')
                else:
                    e = r['inner'][0]
                    ret = self.ctype(e.get('type'), fctx, e)
                    if e.get('valueCategory') in ('lvalue', 'xvalue') and rs == 'decltype(auto)':
                        ref = True
                        ret = CT('ptr', elem=ret, short='r' + ret.short, ref=True)
        hint = self._ret_hint.get(did)
        if hint is not None and hint != ref and kind not in ('CXXConstructorDecl', 'CXXDestructorDecl'):
            # the call expression's value category is authoritative (lvalue <=> returns a reference)
            if hint:
                r = self._first_return(self.body_of(decl))
                e = r['inner'][0]
                vt = self.ctype(e.get('type'), fctx, e)
                ret = CT('ptr', elem=vt, short='r' + vt.short, ref=True); ref = True
            else:
                if ret.kind == 'ptr' and ret.ref: ret = ret.elem
                ref = False
        self._ret_cache[did] = (ret, ref)
        return ret, ref

    def ex_CallExpr(self, n, fctx):
        inner = n['inner']
        callee, ref = self.callee_decl(inner[0])
        if callee is None: fail('indirect call', n)
        args = inner[1:]
        if self.is_std(callee):
            return self.std_call(n, callee, None, args, fctx)
        if callee.get('name') in LIBC_PROTOS and callee.get('kind') == 'FunctionDecl' and self.find_definition(callee) is None \
                and (self.ast.par(callee) or {}).get('kind') in ('TranslationUnitDecl', 'LinkageSpecDecl'):
            # C library allocation primitives: left to the verifier's own model of malloc/free/memcpy
            if not hasattr(self, 'libc_used'): self.libc_used = []
            if callee['name'] not in self.libc_used: self.libc_used.append(callee['name'])
            # sizeof(<scalar>) is rendered as its LP64 value inside these arguments: CBMC pattern-matches `malloc(sizeof(T) * n)`
            # into a typed symbolic-size array T[n], which makes byte-wise memcpy over it blow up; `8UL * n` is a byte block.
            def _szlit(m):
                t = m.group(1).strip()
                if t.endswith('*'): return '8UL'
                return ('%dUL' % LP64_SIZEOF[t]) if t in LP64_SIZEOF else m.group(0)
            return '%s(%s)' % (callee['name'], ', '.join(re.sub(r'sizeof\(([A-Za-z_ \*]+)\)', _szlit, self.ex(a, fctx)) for a in args))
        if (callee.get('name') or '').startswith('verif_abs_') and callee.get('kind') == 'FunctionDecl' and self.find_definition(callee) is None \
                and (self.ast.par(callee) or {}).get('kind') in ('TranslationUnitDecl', 'LinkageSpecDecl'):
            # abstract operation of the instantiation TU (DESIGN 4.6): an `extern "C"` scalar function `verif_abs_*` without a body.
            # The call is emitted as is and its prototype declared; its meaning (an uninterpreted function) comes from the spec prelude.
            if not hasattr(self, 'abs_protos'): self.abs_protos = {}
            if callee['name'] not in self.abs_protos:
                ps = [c for c in callee.get('inner', []) or [] if c.get('kind') == 'ParmVarDecl']
                rt = callee['type']['qualType'].split('(')[0].strip()
                cts = [self.ctype(p.get('type'), fctx, p) for p in ps] + [self.ctype_str(rt, fctx, callee)]
                if any(c.kind != 'builtin' for c in cts): fail('abstract extern with a non-scalar signature', callee)
                self.abs_protos[callee['name']] = 'extern %s %s(%s);' % (cts[-1].c, callee['name'], ', '.join(c.c for c in cts[:-1]) or 'void')
            return '%s(%s)' % (callee['name'], ', '.join(self.ex(a, fctx) for a in args))
        fn = self.request(callee, fctx)
        d = self.find_definition(callee)
        call = '%s(%s)' % (fn, ', '.join(self.args_for(d, args, fctx)))
        if self.returns_ref(d, n): return '(*%s)' % call
        return call

    def ex_UserDefinedLiteral(self, n, fctx):
        # `0_ct` etc.: a call of the literal operator (template form: no arguments; cooked form: the literal as argument)
        return self.ex_CallExpr(n, fctx)

    def ex_CXXMemberCallExpr(self, n, fctx):
        inner = n['inner']
        me = inner[0]
        while me.get('kind') in ('ParenExpr', 'ImplicitCastExpr'): me = me['inner'][0]
        if me.get('kind') != 'MemberExpr': fail('member call through non-MemberExpr', n)
        callee = self.ast.byid.get(me.get('referencedMemberDecl'))
        if callee is None: fail('unknown method', n)
        obj = me['inner'][0]
        args = inner[1:]
        if self.is_std(callee):
            return self.std_call(n, callee, (obj, me.get('isArrow')), args, fctx)
        d = self.find_definition(callee)
        if d is None:
            return self.implicit_member(n, callee, obj, me.get('isArrow'), args, fctx)
        fn = self.request(callee, fctx)
        this = self.ex(obj, fctx) if me.get('isArrow') else self.addr(obj, fctx)
        if d.get('storageClass') == 'static':
            call = '%s(%s)' % (fn, ', '.join(self.args_for(d, args, fctx)))
        else:
            call = '%s(%s)' % (fn, ', '.join([this] + self.args_for(d, args, fctx)))
        if self.returns_ref(d, n): return '(*%s)' % call
        return call

    def implicit_member(self, n, callee, obj, is_arrow, args, fctx):
        nm = callee.get('name')
        if nm == 'operator=' and len(args) == 1:
            lhs = ('(*%s)' % self.ex(obj, fctx)) if is_arrow else self.ex(obj, fctx)
            return '(%s = %s)' % (lhs, self.ex(args[0], fctx))
        fail('member function without definition: %s' % nm, n)

    def ex_CXXOperatorCallExpr(self, n, fctx):
        inner = n['inner']
        callee, ref = self.callee_decl(inner[0])
        if callee is None: fail('operator call through non-decl', n)
        if callee.get('kind') in ('CXXMethodDecl', 'CXXConversionDecl') and callee.get('storageClass') != 'static':
            obj = inner[1]; args = inner[2:]
            if self.is_std(callee):
                return self.std_call(n, callee, (obj, False), args, fctx)
            d = self.find_definition(callee)
            if d is None:
                return self.implicit_member(n, callee, obj, False, args, fctx)
            fn = self.request(callee, fctx)
            call = '%s(%s)' % (fn, ', '.join([self.addr(obj, fctx)] + self.args_for(d, args, fctx)))
            if self.returns_ref(d, n): return '(*%s)' % call
            return call
        args = inner[1:]
        if self.is_std(callee):
            return self.std_call(n, callee, None, args, fctx)
        d = self.find_definition(callee)
        fn = self.request(callee, fctx)
        call = '%s(%s)' % (fn, ', '.join(self.args_for(d, args, fctx)))
        if self.returns_ref(d, n): return '(*%s)' % call
        return call

    # ---- std models
    def _ct_of_expr(self, a, fctx):
        try: return self.ctype(a.get('type'), fctx, a)
        except Unsupported: return None

    def variant_index(self, rct, act):
        hits = [i for i, e in enumerate(rct.margs) if self._ct_equal(e, act)]
        return hits[0] if len(hits) == 1 else None

    def model_construct(self, n, rct, args, fctx):
        if rct.model == 'vector':
            if not args: return '((%s){._M_size = 0UL})' % rct.c
            a = args[0]
            if self._same_ct(a, rct, fctx) or (self._ct_of_expr(a, fctx) is not None and self._ct_of_expr(a, fctx).kind == 'ptr' and self._ct_of_expr(a, fctx).elem is rct):
                return self.ex(a, fctx)
            act = self._ct_of_expr(a, fctx)
            if act is not None and act.is_scalar() and len(args) <= 2:
                t = self.new_temp(rct, fctx)
                r = '(%s = (%s){._M_size = 0UL}, %s_resize(&%s, %s)' % (t, rct.c, rct.short, t, self.ex(a, fctx))
                if len(args) == 2:
                    fail('std::vector(n, value) constructor not modelled', n)
                return r + ', %s)' % t
            fail('unsupported std::vector construction', n)
        if rct.model == 'variant':
            if not args:
                return '((%s){.idx = 0UL})' % rct.c
            a = args[0]
            try: act = self.ctype(a.get('type'), fctx, a)
            except Unsupported: act = None
            if act is not None and act.kind == 'ptr' and act.ref: act = act.elem
            if act is not None and act is rct: return self.ex(a, fctx)
            k = self.variant_index(rct, act) if act is not None else None
            if k is None: fail('std::variant construction from a non-alternative type', n)
            return '((%s){.idx = %dUL, .u = {.a%d = %s}})' % (rct.c, k, k, self.ex(a, fctx))
        if rct.model == 'optional':
            e = rct.margs[0]
            if not args:
                return '((%s){.has = 0})' % rct.c
            a = args[0]
            at = a.get('type', {})
            s = norm_type_string(strip_cv((at.get('desugaredQualType') or at.get('qualType') or '').rstrip('& ')))
            if s in ('std::nullopt_t',):
                return '((%s){.has = 0})' % rct.c
            act = None
            try: act = self.ctype(at, fctx, a)
            except Unsupported: pass
            if act is not None and act.kind == 'struct' and act.model == 'optional':
                if act is rct: return self.ex(a, fctx)
                # converting constructor optional<U> -> optional<T>
                t = self.new_temp(act, fctx)
                return '((%s = %s), (%s){.has = %s.has, .val = (%s)%s.val})' % (t, self.ex(a, fctx), rct.c, t, e.decl(), t) if e.is_scalar() else \
                    fail('optional converting ctor for records', n)
            if s == 'std::in_place_t':
                if len(args) == 2: return '((%s){.has = 1, .val = %s})' % (rct.c, self.ex(args[1], fctx))
                fail('in_place optional ctor', n)
            v = self.ex(a, fctx)
            if e.is_scalar() and act is not None and act.is_scalar() and act.decl() != e.decl():
                v = '((%s)%s)' % (e.decl(), v)
            return '((%s){.has = 1, .val = %s})' % (rct.c, v)
        if rct.model == 'tuple':
            es = rct.margs
            if not args: return '((%s){0})' % rct.c
            if len(args) == 1 and len(es) != 1 or (len(args) == 1 and len(es) == 1 and self._same_ct(args[0], rct, fctx)):
                return self.ex(args[0], fctx)
            if len(args) != len(es): fail('tuple ctor arity', n)
            return '((%s){%s})' % (rct.c, ', '.join((self.addr(a, fctx) if e.ref else self.ex(a, fctx)) for a, e in zip(args, es)))
        if rct.model == 'array':
            if not args: return '((%s){0})' % rct.c
            if len(args) == 1: return self.ex(args[0], fctx)
        fail('unsupported construction of modelled %s' % rct.c, n)

    def _same_ct(self, a, rct, fctx):
        try: return self.ctype(a.get('type'), fctx, a) is rct
        except Unsupported: return False

    def std_call(self, n, callee, objinfo, args, fctx):
        q = norm_type_string(self.ast.qualname(callee))
        nm = callee.get('name', '')
        rec = self.enclosing_record(callee)
        if rec is not None and objinfo is not None:
            obj, is_arrow = objinfo
            oct = self.record_ct(rec, fctx)
            o = ('(*%s)' % self.ex(obj, fctx)) if is_arrow else self.ex(obj, fctx)
            if oct.model == 'optional':
                if nm in ('operator bool', 'has_value'): return '%s.has' % self.paren(o)
                if nm in ('operator*', 'value'): return '(*%s_deref(%s))' % (oct.short, self.addr_of_text(o))
                if nm == 'operator->': return '%s_deref(%s)' % (oct.short, self.addr_of_text(o))
                if nm == 'operator=' and len(args) == 1:
                    a = args[0]
                    if self._same_ct(a, oct, fctx): return '(%s = %s)' % (o, self.ex(a, fctx))
                    s = norm_type_string(strip_cv((a.get('type', {}).get('desugaredQualType') or a.get('type', {}).get('qualType') or '').rstrip('& ')))
                    if s == 'std::nullopt_t': return '(%s.has = 0)' % self.paren(o)
                    return '(%s = (%s){.has = 1, .val = %s})' % (o, oct.c, self.ex(a, fctx))
            if oct.model == 'array':
                if nm == 'operator[]' : return '%s._M_elems[%s]' % (self.paren(o), self.ex(args[0], fctx))
                if nm == 'at': return '(*%s_at(%s, %s))' % (oct.short, self.addr_of_text(o), self.ex(args[0], fctx))
                if nm in ('size', 'max_size'): return '%dUL' % oct.margs[1]
                if nm == 'data': return '%s._M_elems' % self.paren(o)
                if nm == 'operator=' and len(args) == 1: return '(%s = %s)' % (o, self.ex(args[0], fctx))
            if oct.model == 'tuple':
                if nm == 'operator=' and len(args) == 1: return '(%s = %s)' % (o, self.ex(args[0], fctx))
        if rec is not None and objinfo is not None:
            obj, is_arrow = objinfo
            octv = self.record_ct(rec, fctx)
            if octv.model == 'vector':
                ov = ('(*%s)' % self.ex(obj, fctx)) if is_arrow else self.ex(obj, fctx)
                pv = self.addr_of_text(ov)
                if nm == 'size': return '%s._M_size' % self.paren(ov)
                if nm == 'empty': return '(%s._M_size == 0UL)' % self.paren(ov)
                if nm == 'resize' and len(args) == 1: return '%s_resize(%s, %s)' % (octv.short, pv, self.ex(args[0], fctx))
                if nm == 'clear': return '(%s._M_size = 0UL)' % self.paren(ov)
                if nm == 'operator[]': return '%s._M_elems[%s]' % (self.paren(ov), self.ex(args[0], fctx))
                if nm == 'at': return '(*%s_at(%s, %s))' % (octv.short, pv, self.ex(args[0], fctx))
                if nm == 'push_back': return '%s_push_back(%s, %s)' % (octv.short, pv, self.ex(args[0], fctx))
                if nm == 'data' or nm == 'begin' or nm == 'cbegin': return '%s._M_elems' % self.paren(ov)
                if nm == 'end' or nm == 'cend': return '(%s._M_elems + %s._M_size)' % (self.paren(ov), self.paren(ov))
                if nm == 'back': return '%s._M_elems[%s._M_size - 1UL]' % (self.paren(ov), self.paren(ov))
                if nm == 'front': return '%s._M_elems[0]' % self.paren(ov)
                if nm == 'operator=' and len(args) == 1: return '(%s = %s)' % (ov, self.ex(args[0], fctx))
                fail('std::vector member %s not modelled' % nm, n)
        if rec is not None and objinfo is not None:
            obj, is_arrow = objinfo
            oct2 = self.record_ct(rec, fctx)
            if oct2.model == 'variant':
                o2 = ('(*%s)' % self.ex(obj, fctx)) if is_arrow else self.ex(obj, fctx)
                if nm == 'index': return '%s.idx' % self.paren(o2)
                if nm == 'operator=' and len(args) == 1:
                    a = args[0]
                    if self._same_ct(a, oct2, fctx): return '(%s = %s)' % (o2, self.ex(a, fctx))
                    act = self.ctype(a.get('type'), fctx, a)
                    if act.kind == 'ptr' and act.ref: act = act.elem
                    k = self.variant_index(oct2, act)
                    if k is None: fail('std::variant assignment from a non-alternative type', n)
                    return '(%s = (%s){.idx = %dUL, .u = {.a%d = %s}})' % (o2, oct2.c, k, k, self.ex(a, fctx))
        if nm in ('get_if', 'get', 'holds_alternative') and (q.startswith('std::get_if') or q.startswith('std::holds_alternative') or q.startswith('std::get')) and len(args) == 1:
            a = args[0]
            act = self.ctype(a.get('type'), fctx, a)
            vct = act.elem if (act.kind == 'ptr' and act.elem.kind == 'struct') else act
            if vct.kind == 'struct' and vct.model == 'variant':
                ta = self.ast.targs(callee)
                if re.match(r'^\d+$', ta[0]): k = int(ta[0])
                else:
                    k = self.variant_index(vct, self.ctype_str(ta[0], fctx, n))
                if k is None: fail('std::variant: cannot determine the alternative for %s' % ta[0], n)
                v = self.ex(a, fctx)
                if nm == 'get_if':     # argument is a pointer to the variant
                    return '(%s->idx == %dUL ? &%s->u.a%d : (%s)0)' % (self.paren(v), k, self.paren(v), k, CT('ptr', elem=vct.margs[k]).decl())
                if nm == 'holds_alternative':
                    return '(%s.idx == %dUL)' % (self.paren(v), k)
                t = self.new_temp(CT('ptr', elem=vct), fctx)
                return '(*(%s = %s, __CPROVER_assert(%s->idx == %dUL, "std::get on a variant holding another alternative"), &%s->u.a%d))' % (t, self.addr_of_text(v), t, k, t, k)
        if nm == 'get' and q.startswith('std::get') and len(args) == 1:
            ta = self.ast.targs(callee)
            a = args[0]
            act = self.ctype(a.get('type'), fctx, a)
            if act.kind == 'ptr' and act.elem.kind == 'struct': act = act.elem
            if act.model == 'tuple' and re.match(r'^\d+$', ta[0]):
                r = '%s.e%s' % (self.paren(self.ex(a, fctx)), ta[0])
                return ('(*%s)' % r) if act.margs[int(ta[0])].ref else r
            if act.model == 'array' and re.match(r'^\d+$', ta[0]): return '%s._M_elems[%s]' % (self.paren(self.ex(a, fctx)), ta[0])
        if q.startswith('std::forward') or q.startswith('std::move'):
            return self.ex(args[0], fctx)
        qb = q.split('<')[0]
        if rec is None and qb.startswith('std::') and qb[5:] in MATH_UF and len(args) == MATH_UF[qb[5:]]:
            # <cmath>: uninterpreted for the verifier, libm natively (spec/mathuf.h); the overload is the call's result type
            rt = strip_cv(((n.get('type') or {}).get('desugaredQualType') or (n.get('type') or {}).get('qualType') or ''))
            if rt not in ('float', 'double'): fail('math call %s with result type %s' % (q, rt), n)
            self.uses_mathuf = True
            return 'VERIF_M_%s%s(%s)' % (qb[5:], 'f' if rt == 'float' else '', ', '.join('(%s)%s' % (rt, self.paren(self.ex(a, fctx))) for a in args))
        if rec is None and qb in ('std::max', 'std::min') and len(args) == 2:
            a0 = self.paren(self.ex(args[0], fctx)); a1 = self.paren(self.ex(args[1], fctx))
            return ('(%s < %s ? %s : %s)' % (a0, a1, a1, a0)) if qb == 'std::max' else ('(%s < %s ? %s : %s)' % (a1, a0, a1, a0))
        if rec is not None and objinfo is not None and norm_type_string(self.ast.qualname(rec)).startswith('__gnu_cxx::__normal_iterator'):
            obj, is_arrow = objinfo
            oi = ('(*%s)' % self.ex(obj, fctx)) if is_arrow else self.ex(obj, fctx)
            if nm == 'operator*' and not args: return '(*%s)' % self.paren(oi)
            if nm == 'operator++': return ('(++%s)' % self.paren(oi)) if not args else ('(%s++)' % self.paren(oi))
            if nm == 'operator--': return ('(--%s)' % self.paren(oi)) if not args else ('(%s--)' % self.paren(oi))
            if nm == 'operator[]' and len(args) == 1: return '%s[%s]' % (self.paren(oi), self.ex(args[0], fctx))
            if nm == 'base' and not args: return oi
        if q.startswith('__gnu_cxx::operator') and len(args) == 2 and nm in ('operator==', 'operator!=', 'operator<', 'operator<=', 'operator>', 'operator>=', 'operator-'):
            return '(%s %s %s)' % (self.ex(args[0], fctx), nm[len('operator'):], self.ex(args[1], fctx))
        fail('no model for std call %s' % q, n)

    # ---------------------------------------------------------------- output
    def ordered_struct_defs(self):
        """struct_defs in an order in which every struct used BY VALUE is complete before its user.  Completion order already is such an
        order except when a record was met by value while it was still being built (a type string naming it was resolved during its own
        construction); a stable topological sort repairs exactly those cases and leaves every other text where it was."""
        defs = list(self.struct_defs)
        name_of = {}
        for k, t in enumerate(defs):
            m = re.search(r'^(?:struct|union) (\w+) \{', t, re.M)
            if m and not t.startswith('static inline'): name_of.setdefault(m.group(1), k)
        deps = {}
        for k, t in enumerate(defs):
            m = re.search(r'^(?:struct|union) (\w+) \{', t, re.M)
            if not m or t.startswith('static inline'): continue
            body = t[m.end():]
            ds = set()
            for fm in re.finditer(r'^\s*(?:struct|union) (\w+) ([^;*]*);', body, re.M):      # by-value members only (no '*')
                j = name_of.get(fm.group(1))
                if j is not None and j != k: ds.add(j)
            deps[k] = ds
        out = []; done = set(); onstack = set()
        def emit(k):
            if k in done or k in onstack: return
            onstack.add(k)
            for j in sorted(deps.get(k, ())): emit(j)
            onstack.discard(k); done.add(k); out.append(defs[k])
        for k in range(len(defs)): emit(k)
        return out

    def structs_only(self):
        out = ['/* struct layouts of the generated C (for native replay); generated by cxx2c */']
        for t in self.ordered_struct_defs():
            if t.startswith('static inline'): continue
            out.append(t)
        return '\n'.join(out)

    def output(self, prelude_text='', spec_prelude=''):
        out = []
        out.append('/* generated by cxx2c from clang\'s AST of the instantiated nmtools code -- do not edit */')
        out.append(prelude_text)
        for nm in getattr(self, 'libc_used', []):
            out.append('extern %s;' % LIBC_PROTOS[nm])
        for proto in getattr(self, 'abs_protos', {}).values():
            out.append(proto)
        out.extend(self.ordered_struct_defs())
        for nm, tyd in self.top_typedefs:
            try:
                ct = self.ctype(tyd)
                out.append('typedef %s;' % ct.decl(nm))
            except Unsupported:
                pass
        for gd in getattr(self, 'global_defs', {}).values():
            out.append(gd)          # mutable namespace-scope scalars of the instantiation TU (see mutable_global)
        out.append(spec_prelude)
        for did in self.fn_order:
            out.append(self.fn_proto[did] + ';')
        out.append('')
        for did in self.fn_order:
            out.append(self.fn_text[did])
            out.append('')
        return '\n'.join(out)


def main():
    import argparse, gc
    gc.disable()
    ap = argparse.ArgumentParser()
    ap.add_argument('ast'); ap.add_argument('--main-file', required=True)
    ap.add_argument('--spec', action='append', default=[])
    ap.add_argument('--prelude', default=None)
    ap.add_argument('--entry', action='append', default=None)
    ap.add_argument('--no-line', action='store_true')
    ap.add_argument('-o', default='-')
    ap.add_argument('--meta', default=None)
    ap.add_argument('--structs-out', default=None)
    a = ap.parse_args()
    try:
        ast = AST(a.ast)
        tr = Translator(ast, a.main_file, line_directives=not a.no_line)
        sp_pre = ''
        for s in a.spec:
            specs, pre = parse_spec_text(open(s).read(), s)
            tr.add_specs(specs); sp_pre += pre + '\n'
        tr.run(a.entry)
        for s in tr.specs:
            if not s.used and not s.optional:
                raise Unsupported('must-fire: spec for %s [%s] in %s matched no translated function' % (s.name, s.sig, s.src))
        text = tr.output(open(a.prelude).read() if a.prelude else '', sp_pre)
    except Unsupported as e:
        sys.stderr.write('cxx2c: UNSUPPORTED: %s\n' % e)
        sys.exit(2)
    if a.o == '-': sys.stdout.write(text)
    else: open(a.o, 'w').write(text)
    if a.meta:
        json.dump({'functions': tr.fn_meta, 'entries': [e['name'] for e in tr.entries],
                   'has_havoc_ghosts': 'verif_havoc_ghosts' in sp_pre,
                   'specs': [{'name': s.name, 'sig': s.sig, 'loops': sorted(s.loops.keys())} for s in tr.specs]}, open(a.meta, 'w'), indent=1)
    if a.structs_out:
        open(a.structs_out, 'w').write(tr.structs_only())

if __name__ == '__main__':
    main()
