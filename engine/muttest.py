#!/usr/bin/env python3
"""mutation self-test: apply each catalogued single edit to a scratch copy of /repo/include and expect the check to go red.
usage: muttest.py <ID> [name ...]     catalogue: mutations/<ID>.json = [{name,file,old,new,units:[...],expect:'violation'}]"""
import json, os, shutil, subprocess, sys, tempfile, time
VERIF = os.path.dirname(os.path.dirname(os.path.abspath(__file__)))
pid = sys.argv[1]; only = set(sys.argv[2:])
cat = json.load(open(os.path.join(VERIF, 'mutations', pid + '.json')))
res = []
for m in cat:
    if only and m['name'] not in only: continue
    d = tempfile.mkdtemp(prefix='mut_%s_' % pid, dir=os.environ.get('TMPDIR', '/tmp'))
    try:
        shutil.copytree('/repo/include', os.path.join(d, 'include'))
        p = os.path.join(d, 'include', m['file'])
        s = open(p).read()
        if s.count(m['old']) != 1:
            res.append((m['name'], 'CATALOGUE-ERROR old text occurs %d times' % s.count(m['old']))); continue
        open(p, 'w').write(s.replace(m['old'], m['new']))
        t0 = time.time()
        cmd = [os.path.join(VERIF, 'check'), pid] + (['--only', ','.join(m['units'])] if m.get('units') else [])
        r = subprocess.run(cmd, env=dict(os.environ, VERIF_REPO=d, VERIF_OUT=os.path.join(d, 'out'), VERIF_NO_TV='1'), stdout=subprocess.PIPE, stderr=subprocess.STDOUT)
        out = r.stdout.decode()
        confirmed = 'no-failing-input-found' not in ''.join(l for l in out.split('\n') if l.startswith('VIOLATION'))
        verdict = {0: 'MISSED (check stayed green)', 1: 'caught' + (' (replay confirmed)' if confirmed else ' (no-failing-input-found)'), 2: 'undecided (exit 2)'}.get(r.returncode, 'rc=%d' % r.returncode)
        res.append((m['name'], verdict + ' %.0fs' % (time.time() - t0)))
        if r.returncode != 1: print(out[-1500:])
    finally:
        shutil.rmtree(d, ignore_errors=True)
for n, v in res: print('%-40s %s' % (n, v))
sys.exit(0 if all(v.startswith('caught') for _, v in res) else 1)
