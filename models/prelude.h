/* prelude for generated C: arithmetic macros (bit-precise or uninterpreted) */
#include <stddef.h>
#include "spec/mathuf.h"   /* <cmath> functions: uninterpreted for the verifier, libm natively */
#ifdef VERIF_NATIVE_C
/* native compilation of the generated C (translation validation): verifier primitives vanish */
#define __CPROVER_assert(c, m) ((void)0)
#define __CPROVER_assume(c) ((void)0)
#define __CPROVER_requires(...)
#define __CPROVER_ensures(...)
#define __CPROVER_assigns(...)
#define __CPROVER_frees(...)
#define __CPROVER_loop_invariant(...)
#define __CPROVER_decreases(...)
#define __CPROVER_havoc_object(x) ((void)0)
#endif
/* element-level bounds obligation for fixed-size arrays inside structs */
#define VERIF_IDX(i, n) ({ __typeof__(i) _vi = (i); __CPROVER_assert(_vi >= 0 && (unsigned long)_vi < (n), "array index within bounds of fixed-size array"); _vi; })
#ifdef VERIF_UF
unsigned long __CPROVER_uninterpreted_mul(unsigned long, unsigned long);
unsigned long __CPROVER_uninterpreted_div(unsigned long, unsigned long);
unsigned long __CPROVER_uninterpreted_mod(unsigned long, unsigned long);
/* axioms: each is a theorem of Z/2^64 arithmetic for the machine operators */
static inline unsigned long MUL_ul(unsigned long a, unsigned long b)
{
  unsigned long r = __CPROVER_uninterpreted_mul(a, b);
  __CPROVER_assume(a != 1UL || r == b);
  __CPROVER_assume(b != 1UL || r == a);
  __CPROVER_assume((a != 0UL && b != 0UL) || r == 0UL);
  __CPROVER_assume(r == __CPROVER_uninterpreted_mul(b, a));
  return r;
}
static inline unsigned long DIV_ul(unsigned long a, unsigned long b)
{
  __CPROVER_assert(b != 0UL, "division by zero (UF mode)");
  unsigned long q = __CPROVER_uninterpreted_div(a, b);
  unsigned long m = __CPROVER_uninterpreted_mod(a, b);
  __CPROVER_assume(q <= a);
  __CPROVER_assume(b != 1UL || q == a);
  __CPROVER_assume(m < b);
  __CPROVER_assume(a >= b || (q == 0UL && m == a));
  return q;
}
static inline unsigned long MOD_ul(unsigned long a, unsigned long b)
{
  __CPROVER_assert(b != 0UL, "division by zero (UF mode)");
  unsigned long m = __CPROVER_uninterpreted_mod(a, b);
  __CPROVER_assume(m < b);
  __CPROVER_assume(m <= a);
  __CPROVER_assume(a >= b || m == a);
  return m;
}
#else
#define MUL_ul(a, b) ((a) * (b))
#define DIV_ul(a, b) ((a) / (b))
#define MOD_ul(a, b) ((a) % (b))
#endif
/* int / int and int % int of the code: the C operators in every mode; a spec header that needs an uninterpreted
 * truncating remainder (C04 roll) #undef's MOD_i under VERIF_UF and supplies its own function + axioms */
#define DIV_i(a, b) ((a) / (b))
#define MOD_i(a, b) ((a) % (b))
