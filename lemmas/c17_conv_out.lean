/-
C17 / convolution output extent.  view::convnd has no single function computing the output shape: it is the composition
  pad (n + 2p)  ->  expand the kernel by dilation (ke = k + (k-1)*(d-1))  ->  sliding_window (m = n + 2p - (ke - 1))  ->  slice `::s` (ceil(m/s)).
The per-stage contracts (C04 pad / expand, C17 shape_sliding_window, C05 slice length) give these stage formulas; this lemma composes
them into PyTorch's   floor((n + 2p - d*(k-1) - 1) / s) + 1 .   Core Lean only (no Mathlib).
-/

/-- extent of the dilated kernel: k taps with d-1 zeros between neighbours -/
def dilatedKernel (k d : Nat) : Nat := k + (k - 1) * (d - 1)

theorem dilatedKernel_eq (k d : Nat) (hk : 1 ≤ k) (hd : 1 ≤ d) : dilatedKernel k d = d * (k - 1) + 1 := by
  unfold dilatedKernel
  have h : (k - 1) * (d - 1) + (k - 1) = d * (k - 1) := by
    have : (k - 1) * (d - 1) + (k - 1) = (k - 1) * (d - 1 + 1) := by rw [Nat.mul_add, Nat.mul_one]
    rw [this, Nat.sub_add_cancel hd, Nat.mul_comm]
  omega

/-- number of positions of `::s` over m >= 1 elements: ceil(m / s) = (m - 1) / s + 1 -/
theorem strided_len (m s : Nat) (hm : 1 ≤ m) (hs : 0 < s) : (m + s - 1) / s = (m - 1) / s + 1 := by
  have : m + s - 1 = (m - 1) + s := by omega
  rw [this, Nat.add_div_right _ hs]

/-- the composed stages give the PyTorch formula (for arguments with a positive output size) -/
theorem conv_out_extent (n p k d s : Nat) (hk : 1 ≤ k) (hd : 1 ≤ d) (hs : 0 < s)
    (hfit : d * (k - 1) + 1 ≤ n + 2 * p) :
    ((n + 2 * p - (dilatedKernel k d - 1)) + s - 1) / s = (n + 2 * p - d * (k - 1) - 1) / s + 1 := by
  rw [dilatedKernel_eq k d hk hd]
  have hm : 1 ≤ n + 2 * p - (d * (k - 1) + 1 - 1) := by omega
  rw [strided_len _ s hm hs]
  have : n + 2 * p - (d * (k - 1) + 1 - 1) - 1 = n + 2 * p - d * (k - 1) - 1 := by omega
  rw [this]
