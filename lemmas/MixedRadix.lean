/-
  L1 / L2 of DESIGN.md: the arithmetic law behind C01, over the same three recursions as
  spec_prod / spec_offset / (offset / stride) % extent in /verif/spec/c01.h.

    prod d            = product of the extents
    offset idx d      = Σ idx_k * (product of the extents after k)          (row-major)
    indices o d       = [ (o / stride_k) % d_k ]_k   with the SAME o for every axis (as compute_indices does)
    offsetC idx d     = Σ idx_k * (product of the extents before k)         (column-major)

  Core Lean 4 only (no Mathlib): checked with `lean MixedRadix.lean`.
-/

def prod : List Nat → Nat
  | [] => 1
  | n :: r => n * prod r

def offset : List Nat → List Nat → Nat
  | i :: is, _ :: r => i * prod r + offset is r
  | _, _ => 0

def indices (o : Nat) : List Nat → List Nat
  | [] => []
  | n :: r => (o / prod r) % n :: indices o r

/-- idx is a valid multi-index of shape d: same length, pointwise below the extent -/
def InBounds : List Nat → List Nat → Prop
  | [], [] => True
  | i :: is, n :: r => i < n ∧ InBounds is r
  | _, _ => False

def AllPos : List Nat → Prop
  | [] => True
  | n :: r => 0 < n ∧ AllPos r

/-- lexicographic order on multi-indices (row-major enumeration order) -/
def LexLt : List Nat → List Nat → Prop
  | i :: is, j :: js => i < j ∨ (i = j ∧ LexLt is js)
  | _, _ => False

theorem prod_pos : ∀ d, AllPos d → 0 < prod d
  | [], _ => by simp [prod]
  | n :: r, h => by
      have hr := prod_pos r h.2
      exact Nat.mul_pos h.1 hr

/-- every multi-index produced lies inside the shape -/
theorem indices_inBounds (o : Nat) : ∀ d, AllPos d → InBounds (indices o d) d
  | [], _ => by simp [indices, InBounds]
  | n :: r, h => by
      simp [indices, InBounds]
      exact ⟨Nat.mod_lt _ h.1, indices_inBounds o r h.2⟩

/-- offset ∘ indices is reduction modulo the element count -/
theorem offset_indices (o : Nat) : ∀ d, AllPos d → offset (indices o d) d = o % prod d
  | [], _ => by simp [indices, offset, prod, Nat.mod_one]
  | n :: r, h => by
      have ih := offset_indices o r h.2
      simp [indices, offset, prod, ih]
      rw [Nat.mul_comm n (prod r), Nat.mod_mul]
      rw [Nat.mul_comm (o / prod r % n) (prod r)]
      omega

/-- flat position → multi-index → flat position is the identity -/
theorem offset_indices_id (o : Nat) (d : List Nat) (h : AllPos d) (ho : o < prod d) :
    offset (indices o d) d = o := by
  rw [offset_indices o d h, Nat.mod_eq_of_lt ho]

/-- adding a multiple of the trailing element count does not change the trailing indices -/
theorem indices_add_mul (o m : Nat) : ∀ r, AllPos r → indices (o + m * prod r) r = indices o r
  | [], _ => by simp [indices]
  | n :: r, h => by
      have hp := prod_pos r h.2
      have ih := indices_add_mul o (m * n) r h.2
      simp only [indices, prod]
      have e : o + m * (n * prod r) = o + (m * n) * prod r := by rw [Nat.mul_assoc]
      rw [e, ih]
      congr 1
      rw [Nat.add_mul_div_right _ _ hp, Nat.add_mul_mod_self_right]

/-- a valid multi-index has an offset below the element count -/
theorem offset_lt : ∀ idx d, InBounds idx d → offset idx d < prod d
  | [], [], _ => by simp [offset, prod]
  | [], _ :: _, h => by simp [InBounds] at h
  | _ :: _, [], h => by simp [InBounds] at h
  | i :: is, n :: r, h => by
      have ih := offset_lt is r h.2
      simp only [offset, prod]
      have h1 : i + 1 ≤ n := h.1
      have h2 : (i + 1) * prod r ≤ n * prod r := Nat.mul_le_mul_right _ h1
      have h3 : (i + 1) * prod r = i * prod r + prod r := by rw [Nat.add_mul, Nat.one_mul]
      omega

theorem inBounds_allPos : ∀ idx d, InBounds idx d → AllPos d
  | [], [], _ => by simp [AllPos]
  | [], _ :: _, h => by simp [InBounds] at h
  | _ :: _, [], h => by simp [InBounds] at h
  | i :: is, n :: r, h => by
      simp [AllPos]
      exact ⟨by have := h.1; omega, inBounds_allPos is r h.2⟩

/-- multi-index → flat position → multi-index is the identity -/
theorem indices_offset_id : ∀ idx d, InBounds idx d → indices (offset idx d) d = idx
  | [], [], _ => by simp [indices]
  | [], _ :: _, h => by simp [InBounds] at h
  | _ :: _, [], h => by simp [InBounds] at h
  | i :: is, n :: r, h => by
      have hr := inBounds_allPos is r h.2
      have hp := prod_pos r hr
      have hlt := offset_lt is r h.2
      have ih := indices_offset_id is r h.2
      simp only [offset, indices]
      have e1 : (i * prod r + offset is r) / prod r = i := by
        rw [Nat.add_comm, Nat.add_mul_div_right _ _ hp, Nat.div_eq_of_lt hlt]; omega
      have e2 : indices (i * prod r + offset is r) r = indices (offset is r) r := by
        rw [Nat.add_comm]; exact indices_add_mul _ i r hr
      rw [e1, e2, ih, Nat.mod_eq_of_lt h.1]

/-- row-major order: the offset is strictly monotone w.r.t. the lexicographic order on valid multi-indices -/
theorem offset_strictMono : ∀ idx idx' d, InBounds idx d → InBounds idx' d → LexLt idx idx' →
    offset idx d < offset idx' d
  | [], _, _, _, _, h => by simp [LexLt] at h
  | _ :: _, [], _, _, _, h => by simp [LexLt] at h
  | _ :: _, _ :: _, [], h, _, _ => by simp [InBounds] at h
  | i :: is, j :: js, n :: r, h, h', hl => by
      simp only [offset]
      have t := offset_lt is r h.2
      cases hl with
      | inl hij =>
          have h1 : i + 1 ≤ j := hij
          have h2 : (i + 1) * prod r ≤ j * prod r := Nat.mul_le_mul_right _ h1
          have h3 : (i + 1) * prod r = i * prod r + prod r := by rw [Nat.add_mul, Nat.one_mul]
          omega
      | inr hij =>
          have ih := offset_strictMono is js r h.2 h'.2 hij.2
          rw [hij.1]; omega

/-- consequently enumeration o = 0,1,…,prod d − 1 ↦ indices o d visits every valid multi-index exactly once
    (injective by offset_indices_id, surjective by indices_offset_id/offset_lt) in increasing lexicographic order -/
theorem indices_injective (d : List Nat) (h : AllPos d) (o o' : Nat) (ho : o < prod d) (ho' : o' < prod d)
    (e : indices o d = indices o' d) : o = o' := by
  have a := offset_indices_id o d h ho
  have b := offset_indices_id o' d h ho'
  rw [e] at a; omega

theorem indices_surjective (idx d : List Nat) (h : InBounds idx d) :
    ∃ o, o < prod d ∧ indices o d = idx :=
  ⟨offset idx d, offset_lt idx d h, indices_offset_id idx d h⟩

/- ---------------- L2: column-major addressing = row-major addressing of the reversed index/shape -/

def offsetC : List Nat → List Nat → Nat
  | i :: is, n :: r => i + n * offsetC is r
  | _, _ => 0

theorem prod_append_single (r : List Nat) (n : Nat) : prod (r ++ [n]) = prod r * n := by
  induction r with
  | nil => simp [prod]
  | cons m r ih => simp [prod, ih, Nat.mul_assoc]

theorem offset_append_single : ∀ (is r : List Nat) (i n : Nat), is.length = r.length →
    offset (is ++ [i]) (r ++ [n]) = offset is r * n + i
  | [], [], i, n, _ => by simp [offset, prod]
  | [], _ :: _, _, _, h => by simp at h
  | _ :: _, [], _, _, h => by simp at h
  | j :: is, m :: r, i, n, h => by
      have hl : is.length = r.length := by simpa using h
      have ih := offset_append_single is r i n hl
      simp only [List.cons_append, offset, ih, prod_append_single]
      rw [Nat.add_mul, Nat.mul_assoc]; omega

theorem offsetC_eq_offset_reverse : ∀ (idx d : List Nat), idx.length = d.length →
    offsetC idx d = offset idx.reverse d.reverse
  | [], [], _ => by simp [offsetC, offset]
  | [], _ :: _, h => by simp at h
  | _ :: _, [], h => by simp at h
  | i :: is, n :: r, h => by
      have hl : is.length = r.length := by simpa using h
      have ih := offsetC_eq_offset_reverse is r hl
      simp only [offsetC, List.reverse_cons]
      rw [offset_append_single _ _ _ _ (by simpa using hl), ← ih, Nat.mul_comm]; omega
