/-
C13 / launch geometry (L3 of DESIGN.md 4.5).  Core Lean only (no Mathlib), natural numbers.
The CBMC unit `compute_offset.uf` proves: array::compute_offset(thread, block, block_size) = block * block_size + thread, and
`compute_offset.nowrap.bp` proves that nothing wraps for 32-bit launch extents.  Over the naturals:
 * grid_injective : distinct (block, thread) pairs with thread < block_size have distinct global ids;
 * grid_recover   : the pair is recovered from the id by division / remainder;
 * grid_cover     : every idx below grid * block_size is the id of exactly the thread (idx / block_size, idx % block_size),
                    which is a legal thread of a launch of `grid` blocks (so a launch with grid * block_size >= size runs a
                    thread for every output element);
 * grid_guard     : threads of a grid whose id is >= size are exactly those beyond the output (nothing to state: it is the guard).
-/

theorem grid_recover (bs b t : Nat) (ht : t < bs) : (b * bs + t) / bs = b ∧ (b * bs + t) % bs = t := by
  have hbs : 0 < bs := by omega
  constructor
  · rw [Nat.add_comm, Nat.add_mul_div_right _ _ hbs, Nat.div_eq_of_lt ht, Nat.zero_add]
  · rw [Nat.add_comm, Nat.add_mul_mod_self_right, Nat.mod_eq_of_lt ht]

theorem grid_injective (bs b1 t1 b2 t2 : Nat) (h1 : t1 < bs) (h2 : t2 < bs)
    (h : b1 * bs + t1 = b2 * bs + t2) : b1 = b2 ∧ t1 = t2 := by
  have r1 := grid_recover bs b1 t1 h1
  have r2 := grid_recover bs b2 t2 h2
  rw [h] at r1
  exact ⟨r1.1.symm.trans r2.1, r1.2.symm.trans r2.2⟩

theorem grid_cover (bs grid idx : Nat) (hbs : 0 < bs) (h : idx < grid * bs) :
    idx / bs < grid ∧ idx % bs < bs ∧ (idx / bs) * bs + idx % bs = idx := by
  refine ⟨?_, Nat.mod_lt _ hbs, ?_⟩
  · exact (Nat.div_lt_iff_lt_mul hbs).mpr h
  · rw [Nat.mul_comm]; exact Nat.div_add_mod idx bs

/-- ids of one block form the contiguous range [b*bs, (b+1)*bs) -/
theorem grid_block_range (bs b t : Nat) (ht : t < bs) : b * bs ≤ b * bs + t ∧ b * bs + t < (b + 1) * bs := by
  constructor
  · omega
  · rw [Nat.add_mul, Nat.one_mul]; omega
