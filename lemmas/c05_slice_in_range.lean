/-
C05 / slicing: the index formula of the contract of index::slice (spec/c05.h: c05_post_index1,
`ret == start' + k*step` with start', stop', step, len from `py_slice_adjust`) never leaves the source
extent:  for every extent n >= 1, every (start, stop, step) with optional parts, step != 0, and every
k with 0 <= k < len:   0 <= start' + k*step < n   (over the integers, so there is no wrap-around either).

`pyAdjust` / `pyLen` mirror `py_slice_adjust` of spec/c05.h line by line (a port of CPython's
PySlice_AdjustIndices).  The divisions below have a non-negative numerator and a positive divisor, where
Lean's `/` on Int and C's truncating `/` agree.  Core Lean only (no Mathlib).
-/

/-- clamp one slice part (start or stop) exactly as py_slice_adjust does; `dflt` is used when the part is None -/
def clampPart (n lower upper : Int) (has : Bool) (v dflt : Int) : Int :=
  if has = false then dflt
  else if v < 0 then (if v + n < lower then lower else v + n)
  else if v > upper then upper else v

def pyLen (start stop step : Int) : Int :=
  if step > 0 then (if stop > start then (stop - start - 1) / step + 1 else 0)
  else (if stop < start then (start - stop - 1) / (-step) + 1 else 0)

theorem clampPart_bounds (n lower upper : Int) (has : Bool) (v dflt : Int)
    (hd : lower ≤ dflt ∧ dflt ≤ upper) (hl0 : lower ≤ 0) (hun : n - 1 ≤ upper) :
    lower ≤ clampPart n lower upper has v dflt ∧ clampPart n lower upper has v dflt ≤ upper := by
  unfold clampPart
  split
  · exact hd
  · split
    · split <;> omega
    · split <;> omega

/-- walking k steps of size m inside a distance d: k <= (d-1)/m  ->  k*m <= d-1 -/
theorem walk_le (d m k : Int) (hm : 0 < m) (hk : k ≤ (d - 1) / m) : k * m ≤ d - 1 := by
  have h1 : k * m ≤ (d - 1) / m * m := Int.mul_le_mul_of_nonneg_right hk (Int.le_of_lt hm)
  have h2 : (d - 1) / m * m ≤ d - 1 := Int.ediv_mul_le (d - 1) (Int.ne_of_gt hm)
  exact Int.le_trans h1 h2

/-- the statement, with py_slice_adjust's locals `lower`, `upper`, start' = `s`, stop' = `e` introduced by their defining equations -/
theorem py_slice_in_range (n : Int) (hs : Bool) (start : Int) (hp : Bool) (stop : Int) (step k : Int)
    (lower upper s e : Int)
    (hn : 1 ≤ n) (hstep : step ≠ 0) (hk0 : 0 ≤ k)
    (hlower : lower = if step < 0 then -1 else 0)
    (hupper : upper = if step < 0 then n - 1 else n)
    (hsdef : s = clampPart n lower upper hs start (if step < 0 then upper else lower))
    (hedef : e = clampPart n lower upper hp stop (if step < 0 then lower else upper))
    (hk : k < pyLen s e step) :
    0 ≤ s + k * step ∧ s + k * step < n := by
  by_cases hneg : step < 0
  · -- negative step: lower = -1, upper = n-1
    have hl : lower = -1 := by rw [hlower]; simp [hneg]
    have hu : upper = n - 1 := by rw [hupper]; simp [hneg]
    have hsb := clampPart_bounds n lower upper hs start (if step < 0 then upper else lower)
      (by simp [hneg]; omega) (by omega) (by omega)
    have heb := clampPart_bounds n lower upper hp stop (if step < 0 then lower else upper)
      (by simp [hneg]; omega) (by omega) (by omega)
    rw [← hsdef] at hsb
    rw [← hedef] at heb
    unfold pyLen at hk
    have hnp : ¬ (step > 0) := by omega
    simp only [hnp, if_false] at hk
    by_cases hlt : e < s
    · simp only [hlt, if_true] at hk
      have hw := walk_le (s - e) (-step) k (by omega) (by omega)
      have hmul : k * (-step) = -(k * step) := by rw [Int.mul_neg]
      have hnn : 0 ≤ k * (-step) := Int.mul_nonneg hk0 (by omega)
      omega
    · simp only [hlt, if_false] at hk
      omega
  · -- positive step: lower = 0, upper = n
    have hpos : step > 0 := by omega
    have hl : lower = 0 := by rw [hlower]; simp [hneg]
    have hu : upper = n := by rw [hupper]; simp [hneg]
    have hsb := clampPart_bounds n lower upper hs start (if step < 0 then upper else lower)
      (by simp [hneg]; omega) (by omega) (by omega)
    have heb := clampPart_bounds n lower upper hp stop (if step < 0 then lower else upper)
      (by simp [hneg]; omega) (by omega) (by omega)
    rw [← hsdef] at hsb
    rw [← hedef] at heb
    unfold pyLen at hk
    simp only [hpos, if_true] at hk
    by_cases hgt : e > s
    · simp only [hgt, if_true] at hk
      have hw := walk_le (e - s) step k hpos (by omega)
      have hnn : 0 ≤ k * step := Int.mul_nonneg hk0 (by omega)
      omega
    · simp only [hgt, if_false] at hk
      omega
