/-
C04 / roll: the executable definition `c04_roll_src` used in the CBMC contract of index::roll
(spec/c04.h: reduce the shift with C's truncating remainder, subtract, wrap once) equals the
mathematical modulo (i - s) mod n  (Lean's `%` on Int is the Euclidean / floor modulo for n > 0;
`Int.tmod` is C's truncating `%`).  Core Lean only (no Mathlib).
-/

/-- wrap a value known to lie in (-n, 2n) once into [0, n) -/
def wrapOnce (d n : Int) : Int := if d < 0 then d + n else if d ≥ n then d - n else d

theorem wrapOnce_eq_emod (d n : Int) (_hn : 0 < n) (hlo : -n ≤ d) (hhi : d < 2 * n) :
    wrapOnce d n = d % n := by
  unfold wrapOnce
  by_cases h1 : d < 0
  · simp only [h1, if_true]
    have h : (d + n) % n = d % n := by simp
    rw [← h]
    exact (Int.emod_eq_of_lt (by omega) (by omega)).symm
  · simp only [h1, if_false]
    by_cases h2 : d ≥ n
    · simp only [h2, if_true]
      have h : (d - n) % n = d % n := by simp
      rw [← h]
      exact (Int.emod_eq_of_lt (by omega) (by omega)).symm
    · simp only [h2, if_false]
      exact (Int.emod_eq_of_lt (by omega) (by omega)).symm

/-- the contract's source coordinate equals the mathematical modulo, for every shift `s` -/
theorem c04_roll_src_eq_math_mod (i s n : Int) (hn : 0 < n) (hi0 : 0 ≤ i) (hin : i < n) :
    wrapOnce (i - Int.tmod s n) n = (i - s) % n := by
  have hr1 : Int.tmod s n < n := Int.tmod_lt_of_pos s hn
  have hr2 : -n < Int.tmod s n := Int.lt_tmod_of_pos s hn
  have hs : n * s.tdiv n + s.tmod n = s := Int.mul_tdiv_add_tmod s n
  rw [wrapOnce_eq_emod (i - Int.tmod s n) n hn (by omega) (by omega)]
  have : i - s = (i - s.tmod n) - n * s.tdiv n := by omega
  rw [this, Int.sub_mul_emod_self_left]
