/-
C12 / arithmetic side facts used to read the CBMC contracts of the SIMD index enumerators (spec/c12.h).  Core Lean, naturals.
The CBMC units prove, per enumerated item, facts of the form "offset = row * cols + col with row < rows and col + width <= cols"
with the product `row * cols` uninterpreted; the lemmas below turn them into flat statements.
 * item_lt_size_iff : i < rows * scols  <->  i / scols < rows      (precondition `i < size()` of enumerator[i])
 * item_roundtrip   : (i / scols) * scols + i % scols = i, i % scols < scols   (items <-> (row, column) is a bijection)
 * flat_in_bounds   : row < rows, col + w <= cols  ->  row * cols + col + w <= rows * cols   (PACKED/PAD/SCALAR accesses stay inside
                      the buffer of rows * cols elements)
 * vertical_out_row : r < ro * k, 0 < k -> r / k < ro              (VERTICAL reduction: input row r accumulates into output row r / k)
 * partition        : the packed loop `for (i = 0; i + N <= s; i += N)` covers exactly [0, (s / N) * N) in blocks of N and the scalar
                      tail `for (i = (s / N) * N; i < s; i++)` covers the rest: every k < s lies in exactly one of the two ranges,
                      and k is in a packed block iff the block start (k / N) * N satisfies the loop condition.
-/

theorem item_lt_size_iff (rows scols i : Nat) (h : 0 < scols) : i < rows * scols ↔ i / scols < rows :=
  (Nat.div_lt_iff_lt_mul h).symm

theorem item_roundtrip (scols i : Nat) (h : 0 < scols) : (i / scols) * scols + i % scols = i ∧ i % scols < scols := by
  refine ⟨?_, Nat.mod_lt _ h⟩
  rw [Nat.mul_comm]; exact Nat.div_add_mod i scols

theorem flat_in_bounds (rows cols row col w : Nat) (hr : row < rows) (hc : col + w ≤ cols) :
    row * cols + col + w ≤ rows * cols := by
  have h1 : (row + 1) * cols ≤ rows * cols := Nat.mul_le_mul_right cols hr
  rw [Nat.add_mul, Nat.one_mul] at h1
  omega

theorem vertical_out_row (ro k r : Nat) (hk : 0 < k) (h : r < ro * k) : r / k < ro :=
  (Nat.div_lt_iff_lt_mul hk).mpr h

theorem partition_tail_start (s N : Nat) (hN : 0 < N) : (s / N) * N ≤ s ∧ s < (s / N) * N + N := by
  have h := Nat.div_add_mod s N
  have hm := Nat.mod_lt s hN
  rw [Nat.mul_comm] at h
  constructor <;> omega

/-- k lies in a packed block (block start (k/N)*N passes the loop test) iff k is below the tail start -/
theorem partition (s N k : Nat) (hN : 0 < N) (_hk : k < s) :
    ((k / N) * N + N ≤ s ↔ k < (s / N) * N) ∧ ((k / N) * N ≤ k ∧ k < (k / N) * N + N) := by
  have hs := partition_tail_start s N hN
  have hkk := partition_tail_start k N hN
  refine ⟨⟨fun h => ?_, fun h => ?_⟩, hkk⟩
  · -- (k/N + 1) * N ≤ s  ->  k/N + 1 ≤ s/N  ->  k < (k/N + 1) * N ≤ (s/N) * N
    have h1 : (k / N + 1) * N ≤ s := by rw [Nat.add_mul, Nat.one_mul]; exact h
    have h2 : k / N + 1 ≤ s / N := (Nat.le_div_iff_mul_le hN).mpr h1
    have h3 : (k / N + 1) * N ≤ (s / N) * N := Nat.mul_le_mul_right N h2
    rw [Nat.add_mul, Nat.one_mul] at h3
    omega
  · -- k < (s/N) * N  ->  k / N < s / N  ->  (k/N + 1) * N ≤ (s/N) * N ≤ s
    have h1 : k / N < s / N := (Nat.div_lt_iff_lt_mul hN).mpr h
    have h3 : (k / N + 1) * N ≤ (s / N) * N := Nat.mul_le_mul_right N h1
    rw [Nat.add_mul, Nat.one_mul] at h3
    omega
