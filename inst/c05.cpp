// Instantiation TU for C05: by-value entry wrappers calling the real slicing templates
// (index::shape_slice / index::slice, variadic compile-time slice kinds).
// Slice parts are passed as scalars and packed into the nmtools_tuple<...> the API takes inside the wrapper,
// so that counterexample inputs are plain ints (std::tuple layout is not the C model's layout).
#include "nmtools/array/index/slice.hpp"

namespace nm = nmtools;
namespace ix = nmtools::index;
using sv_t = nmtools::utl::static_vector<nm_size_t,8>;
using nmtools::None;
using nmtools::Ellipsis;
using nmtools::none_t;

// ---- 1-d: a[start:stop:step], every {int,None}^3 combination (i = int part, n = None part) -------------------
sv_t verif_shape_slice_iii(sv_t shape, int start, int stop, int step) { return ix::shape_slice(shape, nmtools_tuple<int,int,int>{start,stop,step}); }
sv_t verif_shape_slice_iin(sv_t shape, int start, int stop)           { return ix::shape_slice(shape, nmtools_tuple<int,int,none_t>{start,stop,None}); }
sv_t verif_shape_slice_ini(sv_t shape, int start, int step)           { return ix::shape_slice(shape, nmtools_tuple<int,none_t,int>{start,None,step}); }
sv_t verif_shape_slice_inn(sv_t shape, int start)                     { return ix::shape_slice(shape, nmtools_tuple<int,none_t,none_t>{start,None,None}); }
sv_t verif_shape_slice_nii(sv_t shape, int stop, int step)            { return ix::shape_slice(shape, nmtools_tuple<none_t,int,int>{None,stop,step}); }
sv_t verif_shape_slice_nin(sv_t shape, int stop)                      { return ix::shape_slice(shape, nmtools_tuple<none_t,int,none_t>{None,stop,None}); }
sv_t verif_shape_slice_nni(sv_t shape, int step)                      { return ix::shape_slice(shape, nmtools_tuple<none_t,none_t,int>{None,None,step}); }
sv_t verif_shape_slice_nnn(sv_t shape)                                { return ix::shape_slice(shape, nmtools_tuple<none_t,none_t,none_t>{None,None,None}); }

sv_t verif_slice_iii(sv_t indices, sv_t shape, int start, int stop, int step) { return ix::slice(indices, shape, nmtools_tuple<int,int,int>{start,stop,step}); }
sv_t verif_slice_iin(sv_t indices, sv_t shape, int start, int stop)           { return ix::slice(indices, shape, nmtools_tuple<int,int,none_t>{start,stop,None}); }
sv_t verif_slice_ini(sv_t indices, sv_t shape, int start, int step)           { return ix::slice(indices, shape, nmtools_tuple<int,none_t,int>{start,None,step}); }
sv_t verif_slice_inn(sv_t indices, sv_t shape, int start)                     { return ix::slice(indices, shape, nmtools_tuple<int,none_t,none_t>{start,None,None}); }
sv_t verif_slice_nii(sv_t indices, sv_t shape, int stop, int step)            { return ix::slice(indices, shape, nmtools_tuple<none_t,int,int>{None,stop,step}); }
sv_t verif_slice_nin(sv_t indices, sv_t shape, int stop)                      { return ix::slice(indices, shape, nmtools_tuple<none_t,int,none_t>{None,stop,None}); }
sv_t verif_slice_nni(sv_t indices, sv_t shape, int step)                      { return ix::slice(indices, shape, nmtools_tuple<none_t,none_t,int>{None,None,step}); }
sv_t verif_slice_nnn(sv_t indices, sv_t shape)                                { return ix::slice(indices, shape, nmtools_tuple<none_t,none_t,none_t>{None,None,None}); }

// ---- 2-d: integer index (drops its axis) + 2-tuple slice: a[i, start:stop] ----------------------------------------
sv_t verif_shape_slice_2d_int_ii(sv_t shape, int i, int start, int stop)            { return ix::shape_slice(shape, i, nmtools_tuple<int,int>{start,stop}); }
sv_t verif_slice_2d_int_ii(sv_t indices, sv_t shape, int i, int start, int stop)     { return ix::slice(indices, shape, i, nmtools_tuple<int,int>{start,stop}); }

// ---- rank r = 3..8 (symbolic): integer, tuple, Ellipsis, integer: a[i, ::step, ..., j]  (Ellipsis expands to r-3 full axes)
sv_t verif_shape_slice_ell(sv_t shape, int i, int step, int j)              { return ix::shape_slice(shape, i, nmtools_tuple<none_t,none_t,int>{None,None,step}, Ellipsis, j); }
sv_t verif_slice_ell(sv_t indices, sv_t shape, int i, int step, int j)      { return ix::slice(indices, shape, i, nmtools_tuple<none_t,none_t,int>{None,None,step}, Ellipsis, j); }

// ---- run-time slice list, array<int,3> encoding: a list with one [start,stop,step] entry (index::shape_dynamic_slice / dynamic_slice)
using sl3_t  = nmtools_array<int,3>;
using sls1_t = nmtools_array<sl3_t,1>;
sv_t verif_shape_dynamic_slice_1(sv_t shape, int start, int stop, int step)          { sls1_t s{}; s[0][0] = start; s[0][1] = stop; s[0][2] = step; return ix::shape_dynamic_slice(shape, s); }
sv_t verif_dynamic_slice_1(sv_t indices, sv_t shape, int start, int stop, int step)  { sls1_t s{}; s[0][0] = start; s[0][1] = stop; s[0][2] = step; return ix::dynamic_slice(indices, shape, s); }
