// Instantiation TU for C16 (linear algebra: shape / validity / index helpers): by-value entry wrappers calling the real templates.
#include "nmtools/array/view/matmul.hpp"
#include "nmtools/array/view/tensordot.hpp"
#include "nmtools/array/view/dot.hpp"
#include "nmtools/array/view/inner.hpp"
#include "nmtools/array/view/kron.hpp"

namespace nm = nmtools;
namespace ix = nmtools::index;
using sv_t   = nmtools::utl::static_vector<nm_size_t,8>;
using svi_t  = nmtools::utl::static_vector<int,8>;
using sv9_t  = nmtools::utl::static_vector<nm_size_t,9>;
using sv15_t = nmtools::utl::static_vector<nm_size_t,15>;
using sv16_t = nmtools::utl::static_vector<nm_size_t,16>;
using hn_t   = nmtools::array::hybrid_ndarray<nm_size_t,8,1>;
using opt_hn_t = nmtools_maybe<hn_t>;
using svpair_t = nmtools_tuple<sv_t,sv_t>;
// number of dimensions as the views pass it for bounded-dim operands (dim<true>() of a bounded-dim array is a clipped integer)
using cd_t   = nm::clipped_size_t<8>;

// ---- matmul: result shape (NumPy rule incl. batch broadcast and 1-d promotion)
opt_hn_t verif_shape_matmul(sv_t a, sv_t b) { return ix::shape_matmul(a,b); }
// helper used by shape_matmul: split a shape at a (possibly negative) position
svpair_t verif_split(sv_t shape, int n) { return ix::split(shape,n); }

// ---- matmulv2 pipeline helpers (tile / reshape / transpose arguments)
sv_t  verif_matmul_rhs_transpose(nm_size_t rhs_dim) { return ix::matmul_rhs_transpose(cd_t(rhs_dim)); }
sv_t  verif_matmul_lhs_tile(sv_t lhs, sv_t rhs) { return ix::matmul_lhs_tile(lhs,rhs); }
sv9_t verif_matmul_lhs_reshape(sv_t lhs, sv_t rhs) { return ix::matmul_lhs_reshape(lhs,rhs); }
sv9_t verif_matmul_rhs_reshape(sv_t lhs, sv_t rhs) { return ix::matmul_rhs_reshape(lhs,rhs); }

// ---- dot
sv_t   verif_dot_rhs_transpose(sv_t rhs) { return ix::dot_rhs_transpose(rhs); }
sv_t   verif_dot_lhs_tile(sv_t lhs, sv_t rhs) { return ix::dot_lhs_tile(lhs,rhs); }
sv15_t verif_dot_lhs_reshape(sv_t lhs, sv_t rhs) { return ix::dot_lhs_reshape(lhs,rhs); }

// ---- inner
sv15_t verif_inner_lhs_reshape(sv_t lhs, sv_t rhs) { return ix::inner_lhs_reshape(lhs,rhs); }

// ---- tensordot (integer axes: contract the last n of lhs with the first n of rhs; explicit axes lists)
sv_t   verif_tensordot_lhs_transpose_n(nm_size_t lhs_dim, nm_size_t n) { return ix::tensordot_lhs_transpose(cd_t(lhs_dim),cd_t(n)); }
sv_t   verif_tensordot_rhs_transpose_n(nm_size_t rhs_dim, nm_size_t n) { return ix::tensordot_rhs_transpose(cd_t(rhs_dim),cd_t(n)); }
sv_t   verif_tensordot_lhs_transpose(nm_size_t lhs_dim, svi_t axes) { return ix::tensordot_lhs_transpose(cd_t(lhs_dim),axes); }
sv_t   verif_tensordot_rhs_transpose(nm_size_t rhs_dim, svi_t axes) { return ix::tensordot_rhs_transpose(cd_t(rhs_dim),axes); }
sv15_t verif_tensordot_lhs_reshape(sv_t lhs, sv_t rhs, svi_t sum_axes) { return ix::tensordot_lhs_reshape(lhs,rhs,sum_axes); }

// ---- kron
sv16_t verif_kron_lhs_reshape(sv_t lhs, nm_size_t rhs_dim) { return ix::kron_lhs_reshape(lhs,cd_t(rhs_dim)); }
sv_t   verif_kron_dst_reshape(sv_t lhs, sv_t rhs) { return ix::kron_dst_reshape(lhs,rhs); }

// ---- matmul_t::view_at element selection: slices picking row i of the (broadcast) left batch element and column j of the right one.
//      Bounded-dim shapes give a std::variant slice element (not modelled); the fixed-rank kinds give tuples and are loop-free.
using a2_t = nmtools_array<nm_size_t,2>;
using a3_t = nmtools_array<nm_size_t,3>;
using a4_t = nmtools_array<nm_size_t,4>;
using all_t = nmtools_tuple<nm::none_t,nm::none_t>;
using sl22_t = nmtools_tuple<nmtools_tuple<nm_size_t,all_t>, nmtools_tuple<all_t,nm_size_t>>;
using sl33_t = nmtools_tuple<nmtools_tuple<nm_size_t,nm_size_t,all_t>, nmtools_tuple<nm_size_t,all_t,nm_size_t>>;
using sl42_t = nmtools_tuple<nmtools_tuple<nm_size_t,nm_size_t,nm_size_t,all_t>, nmtools_tuple<all_t,nm_size_t>>;
using sl24_t = nmtools_tuple<nmtools_tuple<nm_size_t,all_t>, nmtools_tuple<nm_size_t,nm_size_t,all_t,nm_size_t>>;
using sl43_t = nmtools_tuple<nmtools_tuple<nm_size_t,nm_size_t,nm_size_t,all_t>, nmtools_tuple<nm_size_t,all_t,nm_size_t>>;
sl22_t verif_matmul_slices_22(a2_t idx, a2_t l, a2_t r, a2_t shape) { return ix::matmul(idx,l,r,shape); }
sl33_t verif_matmul_slices_33(a3_t idx, a3_t l, a3_t r, a3_t shape) { return ix::matmul(idx,l,r,shape); }
sl42_t verif_matmul_slices_42(a4_t idx, a4_t l, a2_t r, a4_t shape) { return ix::matmul(idx,l,r,shape); }
sl24_t verif_matmul_slices_24(a4_t idx, a2_t l, a4_t r, a4_t shape) { return ix::matmul(idx,l,r,shape); }
sl43_t verif_matmul_slices_43(a4_t idx, a4_t l, a3_t r, a4_t shape) { return ix::matmul(idx,l,r,shape); }
