// Instantiation TU for C10, column-major result layout (separate TU: ndarray_t<B,S> with and without the layout argument print the
// same desugared type name in clang's JSON AST, so they cannot share a TU; the source is a hybrid_ndarray for the same reason).
#include "nmtools/array/eval.hpp"
#include "nmtools/array/view/transpose.hpp"
#include "nmtools/array/ndarray.hpp"
namespace nm = nmtools; namespace na = nmtools::array; namespace view = nmtools::view;
using fb6_t = nm::utl::static_vector<float,6>;
using sv4_t = nm::utl::static_vector<nm_size_t,4>;
using hy_t  = na::hybrid_ndarray<float,6,2>;

// column-major result layout: the same transpose evaluated into a supplied column-major 3x2 output (buffer position of (i,j) is i + 3*j)
using ndc_t = na::column_major_ndarray_t<fb6_t,sv4_t>;
fb6_t verif_eval_into_colmajor(fb6_t data)
{
    hy_t src; src.resize(2,3);
    for (nm_size_t i = 0; i < 2; i++) for (nm_size_t j = 0; j < 3; j++) src(i,j) = data[i*3+j];
    ndc_t out; sv4_t t; t.resize(2); t[0] = 3; t[1] = 2; out.resize(t);
    auto v  = view::transpose(src, nm::None);
    auto ev = na::evaluator(v, nm::None);
    ev(out);
    return out.data_;
}
