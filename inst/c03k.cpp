// Instantiation TU for C03, concrete-geometry bounded units: the real rearranging views on a small array of concrete shape with symbolic
// int elements; every element of the result is read through the view (decorator / indexing_t / the view's indexer / ndarray glue).
#include "nmtools/array/view/transpose.hpp"
#include "nmtools/array/view/swapaxes.hpp"
#include "nmtools/array/view/moveaxis.hpp"
#include "nmtools/array/view/expand_dims.hpp"
#include "nmtools/array/view/squeeze.hpp"
#include "nmtools/array/view/flatten.hpp"
#include "nmtools/array/view/flip.hpp"
#include "nmtools/array/view/reshape.hpp"
#include "nmtools/array/ndarray.hpp"
#include "nmtools/utility/unwrap.hpp"
#include "nmtools/utility/shape.hpp"
namespace nm = nmtools; namespace na = nmtools::array; namespace view = nmtools::view;
using ib6_t = nm::utl::static_vector<int,6>;
using sv4_t = nm::utl::static_vector<nm_size_t,4>;
using svi4_t = nm::utl::static_vector<int,4>;
using ndi_t = na::ndarray_t<ib6_t,sv4_t>;
struct rk_obs { sv4_t shape; ib6_t elems; };      // shape of the view and its elements in C order
using rk_obs_t = rk_obs;
static inline sv4_t sh(nm_size_t a) { sv4_t s; s.resize(1); s[0] = a; return s; }
static inline sv4_t sh(nm_size_t a, nm_size_t b) { sv4_t s; s.resize(2); s[0] = a; s[1] = b; return s; }
static inline sv4_t sh(nm_size_t a, nm_size_t b, nm_size_t c) { sv4_t s; s.resize(3); s[0] = a; s[1] = b; s[2] = c; return s; }
static inline void fill(ndi_t& a, const sv4_t& s, const ib6_t& data) { a.resize(s); for (nm_size_t i = 0; i < 6; i++) a.data_[i] = data[i]; }
// shape and all 6 elements of a view of rank 1..3 (enumerated in C order with the view's own shape)
template <typename view_t> static inline rk_obs observe(const view_t& v)
{
    rk_obs o{}; auto s = nm::shape(v); nm_size_t n = nm::len(s);
    o.shape.resize(n); for (nm_size_t i = 0; i < n; i++) o.shape[i] = nm::at(s,i);
    o.elems.resize(6);
    nm_size_t d0 = n > 0 ? o.shape[0] : 1, d1 = n > 1 ? o.shape[1] : 1, d2 = n > 2 ? o.shape[2] : 1, k = 0;
    for (nm_size_t i = 0; i < d0; i++) for (nm_size_t j = 0; j < d1; j++) for (nm_size_t l = 0; l < d2; l++) {
        sv4_t idx = n == 1 ? sh(i) : (n == 2 ? sh(i,j) : sh(i,j,l));
        if (k < 6) o.elems[k] = nm::apply_at(v, idx);
        k++;
    }
    return o;
}
rk_obs verif_k_transpose_axes(ib6_t d)    // a (1,2,3), axes (2,0,1) -> (3,1,2)
{ ndi_t a; fill(a, sh(1,2,3), d); svi4_t ax; ax.resize(3); ax[0] = 2; ax[1] = 0; ax[2] = 1; auto m = view::transpose(a, ax); auto v = nm::unwrap(m); return observe(v); }
rk_obs verif_k_swapaxes(ib6_t d)          // a (1,2,3), swapaxes(0,2) -> (3,2,1)
{ ndi_t a; fill(a, sh(1,2,3), d); auto m = view::swapaxes(a, 0, 2); auto v = nm::unwrap(m); return observe(v); }
rk_obs verif_k_moveaxis(ib6_t d)          // a (1,2,3), moveaxis(-1,0) -> (3,1,2)
{ ndi_t a; fill(a, sh(1,2,3), d); auto m = view::moveaxis(a, -1, 0); auto v = nm::unwrap(m); return observe(v); }
rk_obs verif_k_expand_dims(ib6_t d)       // a (2,3), expand_dims(1) -> (2,1,3)
{ ndi_t a; fill(a, sh(2,3), d); auto m = view::expand_dims(a, 1); auto v = nm::unwrap(m); return observe(v); }
rk_obs verif_k_squeeze(ib6_t d)           // a (2,1,3) -> (2,3)
{ ndi_t a; fill(a, sh(2,1,3), d); auto m = view::squeeze(a); auto v = nm::unwrap(m); return observe(v); }
rk_obs verif_k_flatten(ib6_t d)           // transpose(a (2,3)) flattened -> (6) in C order of the transposed array
{ ndi_t a; fill(a, sh(2,3), d); auto t = view::transpose(a, nm::None); auto m = view::flatten(t); auto v = nm::unwrap(m);
  rk_obs o{}; o.shape = sh((nm_size_t)nm::size(v)); o.elems.resize(6); for (nm_size_t i = 0; i < 6; i++) o.elems[i] = nm::apply_at(v, sh(i)); return o; }
rk_obs verif_k_flip_axis(ib6_t d)         // a (2,3), flip(axis=0)
{ ndi_t a; fill(a, sh(2,3), d); auto m = view::flip(a, 0); auto v = nm::unwrap(m); return observe(v); }
rk_obs verif_k_flip_none(ib6_t d)         // a (2,3), flip(None): every axis
{ ndi_t a; fill(a, sh(2,3), d); auto m = view::flip(a, nm::None); auto v = nm::unwrap(m); return observe(v); }
rk_obs verif_k_reshape(ib6_t d)           // a (2,3) -> (3,-1)
{ ndi_t a; fill(a, sh(2,3), d); svi4_t ns; ns.resize(2); ns[0] = 3; ns[1] = -1; auto m = view::reshape(a, ns); auto v = nm::unwrap(m); return observe(v); }
static inline sv4_t sh(nm_size_t a, nm_size_t b, nm_size_t c, nm_size_t d) { sv4_t s; s.resize(4); s[0] = a; s[1] = b; s[2] = c; s[3] = d; return s; }
rk_obs verif_k_expand_dims_list(ib6_t d)  // a (2,3), expand_dims((-1,-2)) -> (2,3,1,1)   [rank 4: enumerated here]
{
    ndi_t a; fill(a, sh(2,3), d); svi4_t ax; ax.resize(2); ax[0] = -1; ax[1] = -2;
    auto m = view::expand_dims(a, ax); auto v = nm::unwrap(m);
    rk_obs o{}; auto s = nm::shape(v); nm_size_t n = nm::len(s);
    o.shape.resize(n <= 4 ? n : 4); for (nm_size_t i = 0; i < n && i < 4; i++) o.shape[i] = nm::at(s,i);
    o.elems.resize(6); for (nm_size_t t = 0; t < 6; t++) o.elems[t] = 0;
    if (n == 4 && o.shape[0] == 2 && o.shape[1] == 3 && o.shape[2] == 1 && o.shape[3] == 1)
        for (nm_size_t i = 0; i < 2; i++) for (nm_size_t j = 0; j < 3; j++) o.elems[i*3+j] = nm::apply_at(v, sh(i,j,0,0));
    return o;
}
