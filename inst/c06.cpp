// Instantiation TU for C06 (broadcasting): by-value entry wrappers calling the real templates.
#include "nmtools/array/index/broadcast_shape.hpp"
#include "nmtools/array/index/broadcast_to.hpp"
namespace nm = nmtools;
namespace ix = nmtools::index;
using sv_t = nmtools::utl::static_vector<nm_size_t,8>;
using hn_t = nmtools::array::hybrid_ndarray<nm_size_t,8,1>;
using opt_hn_t = nmtools_maybe<hn_t>;

opt_hn_t verif_broadcast_shape(sv_t a, sv_t b) { return ix::broadcast_shape(a,b); }
using svb_t = nmtools::utl::static_vector<bool,8>;
using opt_bto_t = nmtools_maybe<nmtools_tuple<sv_t,svb_t>>;
opt_bto_t verif_shape_broadcast_to(sv_t a, sv_t b) { return ix::shape_broadcast_to(a,b); }
