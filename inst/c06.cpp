// Instantiation TU for C06 (broadcasting): by-value entry wrappers calling the real templates.
#include "nmtools/array/index/broadcast_shape.hpp"
#include "nmtools/array/index/broadcast_to.hpp"
namespace nm = nmtools;
namespace ix = nmtools::index;
using sv_t = nmtools::utl::static_vector<nm_size_t,8>;
using hn_t = nmtools::array::hybrid_ndarray<nm_size_t,8,1>;
using opt_hn_t = nmtools_maybe<hn_t>;

opt_hn_t verif_broadcast_shape(sv_t a, sv_t b) { return ix::broadcast_shape(a,b); }
using svb_t = nmtools::utl::static_vector<bool,8>;
using opt_bto_t = nmtools_maybe<nmtools_tuple<sv_t,svb_t>>;
opt_bto_t verif_shape_broadcast_to(sv_t a, sv_t b) { return ix::shape_broadcast_to(a,b); }
// kind F (fixed-size std::array operands): the meta::template_for branch of impl::broadcast_shape
using a3_t = nmtools_array<nm_size_t,3>;
using a2_t = nmtools_array<nm_size_t,2>;
using opt_a3_t = nmtools_maybe<a3_t>;
opt_a3_t verif_f_broadcast_shape(a3_t a, a3_t b) { return ix::broadcast_shape(a,b); }
opt_a3_t verif_f_broadcast_shape32(a3_t a, a2_t b) { return ix::broadcast_shape(a,b); }
// kind C (clipped shapes: tuples of clipped_size_t<8>, run-time values with compile-time bounds): the result type is a tuple, filled
// through meta::template_for; operands are built from / the result converted back to plain arrays inside the wrapper
using c8_t = nm::clipped_size_t<8>;
opt_a3_t verif_c_broadcast_shape(a3_t a, a3_t b)
{
    auto ta = nmtools_tuple{c8_t(a[0]), c8_t(a[1]), c8_t(a[2])};
    auto tb = nmtools_tuple{c8_t(b[0]), c8_t(b[1]), c8_t(b[2])};
    auto r = ix::broadcast_shape(ta, tb);
    if (!static_cast<bool>(r)) return opt_a3_t{};
    return opt_a3_t{a3_t{(nm_size_t)nm::get<0>(*r), (nm_size_t)nm::get<1>(*r), (nm_size_t)nm::get<2>(*r)}};
}
// element mapping of broadcast_to: destination index -> source index
struct bti_res { bool ok; sv_t src_index; };
using bti_res_t = bti_res;
bti_res verif_broadcast_to_index(sv_t indices, sv_t src_shape, sv_t dst_shape)
{
    // as view::broadcast_to does: validity + free axes, origin axes = the non-free ones, then the index map
    auto r = ix::shape_broadcast_to(src_shape, dst_shape);
    if (!r) return {false, sv_t{}};
    auto so = ix::origin_axes(*r);
    auto origin = nmtools::get<1>(so);
    auto res = ix::broadcast_to(indices, src_shape, dst_shape, origin);
    sv_t out; out.resize(nmtools::len(res));
    for (nm_size_t i = 0; i < (nm_size_t)nmtools::len(res); i++) out[i] = nmtools::at(res, i);
    return {true, out};
}
