// Instantiation TU for C10 (eager evaluation == lazy view): the real evaluator_t<view,none>::operator()(output&) loop,
// instantiated for a real view type (transpose of a generic bounded ndarray) and a real bounded output array.
#include "nmtools/array/eval.hpp"
#include "nmtools/array/view/transpose.hpp"
#include "nmtools/array/ndarray.hpp"
namespace nm = nmtools; namespace na = nmtools::array; namespace view = nmtools::view;
using fb6_t = nm::utl::static_vector<float,6>;
using sv4_t = nm::utl::static_vector<nm_size_t,4>;
using nd_t  = na::ndarray_t<fb6_t,sv4_t>;
using view_t = decltype(view::transpose(nm::meta::declval<const nd_t&>(), nm::None));
using ev_t   = decltype(na::evaluator(nm::meta::declval<const view_t&>(), nm::None));

// entry: evaluate the lazy view transpose(src) into the caller-supplied output (returns the output buffer)
fb6_t verif_eval_into(nd_t src, nd_t out)
{
    auto v  = view::transpose(src, nm::None);
    auto ev = na::evaluator(v, nm::None);
    ev(out);
    return out.data_;
}

// view-specific element semantics through the real decorator_t / indexing_t / transpose_t glue and ndarray indexing:
// element of transpose(src) at a given multi-index (bounded unit)
static inline bool mk(nd_t& a, const sv4_t& shape, const fb6_t& data)
{
    bool ok = a.resize(shape);
    if (ok) { for (nm_size_t i = 0; i < a.data_.size(); i++) a.data_[i] = data[i]; }
    return ok;
}
struct vat_res { bool ok; float value; };
using vat_res_t = vat_res;
vat_res verif_transpose_at(fb6_t src_data, sv4_t src_shape, sv4_t idx)
{
    nd_t src; bool ok = mk(src, src_shape, src_data);
    if (!ok) return {false, 0.0f};
    auto v = view::transpose(src, nm::None);
    return {true, nm::apply_at(v, idx)};
}
