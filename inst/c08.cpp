// Instantiation TU for C08 (reductions / accumulations at the level of shape, element selection and the fold loop):
// by-value entry wrappers calling the real templates.
#include "nmtools/array/index/remove_dims.hpp"
#include "nmtools/array/index/reduce.hpp"
#include "nmtools/array/view/ufunc/reduce.hpp"

namespace nm = nmtools;
namespace ix = nmtools::index;
using sv_t   = nmtools::utl::static_vector<nm_size_t,8>;
using svi_t  = nmtools::utl::static_vector<int,8>;
using sv7_t  = nmtools::utl::static_vector<nm_size_t,7>;     // remove_dims(sv_t, int, False / bool)
using sv6_t  = nmtools::utl::static_vector<nm_size_t,6>;     // remove_dims(sv_t, array<int,2>, False / bool)
using ax2_t  = nmtools_array<int,2>;                         // two reduction axes (fixed-length list)
using arr3_t = nmtools_array<nm_size_t,3>;                   // fixed-dim source shape (axis=None keeps the kind)
using slice_t  = nmtools_array<nm_size_t,2>;                 // [start, stop)
using slices_t = nmtools::utl::static_vector<slice_t,8>;     // one slice per source axis

// ---- remove_dims: result shape of a reduction.
//      view::reduce turns a run-time keepdims into the compile-time constants True / False (nmtools_either of the two views),
//      so the (.., True) and (.., False) instantiations are the ones the views use; (.., bool) is the direct index-level call.
auto verif_remove_dims_int_true(sv_t shape, int axis)  { return ix::remove_dims(shape,axis,nm::True); }
auto verif_remove_dims_int_false(sv_t shape, int axis) { return ix::remove_dims(shape,axis,nm::False); }
auto verif_remove_dims_int_bool(sv_t shape, int axis, bool keepdims) { return ix::remove_dims(shape,axis,keepdims); }
auto verif_remove_dims_ax2_true(sv_t shape, ax2_t axis)  { return ix::remove_dims(shape,axis,nm::True); }
auto verif_remove_dims_ax2_false(sv_t shape, ax2_t axis) { return ix::remove_dims(shape,axis,nm::False); }
auto verif_remove_dims_none_true(arr3_t shape) { return ix::remove_dims(shape,nm::None,nm::True); }

// ---- reduction_slices: which source elements feed the result element at `idx`
auto verif_reduction_slices_int(sv_t idx, sv_t shape, int axis, bool keepdims) { return ix::reduction_slices(idx,shape,axis,keepdims); }
// as reduce_t::operator() calls it: keepdims is one of the compile-time constants
auto verif_reduction_slices_int_true(sv_t idx, sv_t shape, int axis)  { return ix::reduction_slices(idx,shape,axis,nm::True); }
auto verif_reduction_slices_int_false(sv_t idx, sv_t shape, int axis) { return ix::reduction_slices(idx,shape,axis,nm::False); }
auto verif_reduction_slices_axes(sv_t idx, sv_t shape, svi_t axes, bool keepdims) { return ix::reduction_slices(idx,shape,axes,keepdims); }

// ---- the fold loops of view::reducer_t (reduce_t::operator() hands the sliced + flattened operand to them).
//      Operand: a bounded sequence of symbolic length; op: an abstract binary operation (DESIGN 4.6) -- `verif_abs_op` has no body,
//      the verifier treats it as an uninterpreted function (spec/c08.h), so nothing about op (associativity, commutativity) is assumed.
using lv_t = nmtools::utl::static_vector<long,8>;
extern "C" long verif_abs_op(long a, long b);
struct verif_op_t { long operator()(long a, long b) const { return verif_abs_op(a,b); } };
long verif_fold(lv_t x) { nm::view::reducer_t<verif_op_t> r{verif_op_t{}}; return r.template operator()<long>(x); }
long verif_fold_init(lv_t x, long init) { nm::view::reducer_t<verif_op_t> r{verif_op_t{}}; return r.template operator()<long>(x,init); }
