// Instantiation TU for C08 (reductions / accumulations at the level of shape, element selection and the fold loop):
// by-value entry wrappers calling the real templates.
#include "nmtools/array/index/remove_dims.hpp"
#include "nmtools/array/index/reduce.hpp"
#include "nmtools/array/view/ufunc/reduce.hpp"

namespace nm = nmtools;
namespace ix = nmtools::index;
using sv_t   = nmtools::utl::static_vector<nm_size_t,8>;
using svi_t  = nmtools::utl::static_vector<int,8>;
using sv7_t  = nmtools::utl::static_vector<nm_size_t,7>;     // remove_dims(sv_t, int, False / bool)
using sv6_t  = nmtools::utl::static_vector<nm_size_t,6>;     // remove_dims(sv_t, array<int,2>, False / bool)
using ax2_t  = nmtools_array<int,2>;                         // two reduction axes (fixed-length list)
using arr3_t = nmtools_array<nm_size_t,3>;                   // fixed-dim source shape (axis=None keeps the kind)
using slice_t  = nmtools_array<nm_size_t,2>;                 // [start, stop)
using slices_t = nmtools::utl::static_vector<slice_t,8>;     // one slice per source axis

// ---- remove_dims: result shape of a reduction.
//      view::reduce turns a run-time keepdims into the compile-time constants True / False (nmtools_either of the two views),
//      so the (.., True) and (.., False) instantiations are the ones the views use; (.., bool) is the direct index-level call.
auto verif_remove_dims_int_true(sv_t shape, int axis)  { return ix::remove_dims(shape,axis,nm::True); }
auto verif_remove_dims_int_false(sv_t shape, int axis) { return ix::remove_dims(shape,axis,nm::False); }
auto verif_remove_dims_int_bool(sv_t shape, int axis, bool keepdims) { return ix::remove_dims(shape,axis,keepdims); }
auto verif_remove_dims_ax2_true(sv_t shape, ax2_t axis)  { return ix::remove_dims(shape,axis,nm::True); }
auto verif_remove_dims_ax2_false(sv_t shape, ax2_t axis) { return ix::remove_dims(shape,axis,nm::False); }
auto verif_remove_dims_none_true(arr3_t shape) { return ix::remove_dims(shape,nm::None,nm::True); }

// ---- reduction_slices: which source elements feed the result element at `idx`
auto verif_reduction_slices_int(sv_t idx, sv_t shape, int axis, bool keepdims) { return ix::reduction_slices(idx,shape,axis,keepdims); }
auto verif_reduction_slices_axes(sv_t idx, sv_t shape, svi_t axes, bool keepdims) { return ix::reduction_slices(idx,shape,axes,keepdims); }
