// Instantiation TU for C20, legacy dynamic_ndarray<float> (std::vector buffer, shape and strides): the three resize overloads.
// std::vector's layout is not that of the bounded C model ({_M_elems[8], _M_size}), so the object cannot cross the wrapper
// boundary by value: the prior state comes in as bounded vectors / scalars and is stored into the (public) members, the state
// after the operation goes out as a plain observation struct.
#include "nmtools/array/ndarray/dynamic.hpp"
#include "nmtools/utl/static_vector.hpp"

namespace nm = nmtools;
using dy_t = nmtools::array::dynamic_ndarray<float>;
using sv_t = nmtools::utl::static_vector<nm_size_t,8>;
using lv_t = nmtools_list<nm_size_t>;
struct dy_obs { sv_t shape; sv_t strides; sv_t strides_fn; nm_size_t numel; nm_size_t numel_fn; nm_size_t dsize; nm_size_t dim; };
using dy_obs_t = dy_obs;

static inline lv_t verif_to_lv(const sv_t& s) { lv_t v; v.resize(s.size()); for (nm_size_t i = 0; i < (nm_size_t)s.size(); i++) v[i] = s[i]; return v; }
static inline sv_t verif_to_sv(const lv_t& v) { sv_t s; s.resize(v.size()); for (nm_size_t i = 0; i < (nm_size_t)v.size(); i++) s[i] = v[i]; return s; }
static inline void verif_dy_put(dy_t& a, const sv_t& shape0, const sv_t& strides0, nm_size_t numel0, nm_size_t dsize0)
{ a.shape_ = verif_to_lv(shape0); a.strides_ = verif_to_lv(strides0); a.numel_ = numel0; a.data.resize(dsize0); }
static inline dy_obs verif_dy_observe(const dy_t& a)
{ return { verif_to_sv(a.shape_), verif_to_sv(a.strides_), verif_to_sv(a.strides()), a.numel_, a.numel(), (nm_size_t)a.data.size(), (nm_size_t)a.dim() }; }

// resize(const shape_t&) with a non-std::vector index array (what cast / apply_resize hand over for bounded shapes)
dy_obs verif_dy_resize_sv(sv_t shape0, sv_t strides0, nm_size_t numel0, nm_size_t dsize0, sv_t new_shape)
{ dy_t a; verif_dy_put(a, shape0, strides0, numel0, dsize0); a.resize(new_shape); return verif_dy_observe(a); }
// resize(const shape_type&): the class' own std::vector<size_t>
dy_obs verif_dy_resize_lv(sv_t shape0, sv_t strides0, nm_size_t numel0, nm_size_t dsize0, sv_t new_shape)
{ dy_t a; verif_dy_put(a, shape0, strides0, numel0, dsize0); a.resize(verif_to_lv(new_shape)); return verif_dy_observe(a); }
// resize(n0,n1): the variadic overload
dy_obs verif_dy_resize_2(sv_t shape0, sv_t strides0, nm_size_t numel0, nm_size_t dsize0, sv_t new_shape /* length 2 */)
{ dy_t a; verif_dy_put(a, shape0, strides0, numel0, dsize0); a.resize(new_shape[0], new_shape[1]); return verif_dy_observe(a); }
