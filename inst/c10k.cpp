// Instantiation TU for C10, caller-supplied outputs of another shape KIND than the view's shape (separate TU so that the C names of
// inst/c10.cpp stay as they are).
#include "nmtools/array/eval.hpp"
#include "nmtools/array/view/transpose.hpp"
#include "nmtools/array/view/reshape.hpp"
#include "nmtools/array/view/flip.hpp"
#include "nmtools/utility/unwrap.hpp"
#include "nmtools/array/ndarray.hpp"
namespace nm = nmtools; namespace na = nmtools::array; namespace view = nmtools::view;
using fb6_t = nm::utl::static_vector<float,6>;
using sv4_t = nm::utl::static_vector<nm_size_t,4>;
using nd_t  = na::ndarray_t<fb6_t,sv4_t>;

// caller-supplied output whose shape TYPE differs in kind from the view's (fixed-rank std::array shape vs the view's bounded-rank
// shape), same extents: a concrete 2x3 source, transposed into a 3x2 output (bounded unit: shapes concrete, elements symbolic)
using a2_t  = nmtools_array<nm_size_t,2>;
using ndf_t = na::ndarray_t<fb6_t,a2_t>;
fb6_t verif_eval_into_fixed_rank(fb6_t data)
{
    nd_t src; sv4_t s; s.resize(2); s[0] = 2; s[1] = 3; src.resize(s);
    for (nm_size_t i = 0; i < 6; i++) src.data_[i] = data[i];
    ndf_t out; out.resize(a2_t{3,2});
    auto v  = view::transpose(src, nm::None);
    auto ev = na::evaluator(v, nm::None);
    ev(out);
    return out.data_;
}

// a view of a view evaluated once: flip(reshape(a, (3,2)), -1) of a 1-d array of 6 (the inner view changes the rank, known at run time only)
fb6_t verif_eval_flip_reshape(fb6_t data)
{
    nd_t src; sv4_t s; s.resize(1); s[0] = 6; src.resize(s);
    for (nm_size_t i = 0; i < 6; i++) src.data_[i] = data[i];
    sv4_t ns; ns.resize(2); ns[0] = 3; ns[1] = 2;
    nd_t out; out.resize(ns);
    auto inner = view::reshape(src, ns);
    auto inner_v = nm::unwrap(inner);
    auto outer = view::flip(inner_v, -1);
    auto v  = nm::unwrap(outer);             // (named: the evaluator keeps a reference to the view)
    auto ev = na::evaluator(v, nm::None);
    ev(out);
    return out.data_;
}
