// Instantiation TU for C07, the scalar operations of the activation functors (view::fun::*): each wrapper applies the real functor to
// one float.  <cmath> functions are uninterpreted for the verifier (spec/mathuf.h), so a functor agrees with its reference formula iff
// it applies the same functions to the same arguments with the same float operations.
#include "nmtools/array/view/activations/relu.hpp"
#include "nmtools/array/view/activations/relu6.hpp"
#include "nmtools/array/view/activations/leaky_relu.hpp"
#include "nmtools/array/view/activations/elu.hpp"
#include "nmtools/array/view/activations/celu.hpp"
#include "nmtools/array/view/activations/selu.hpp"
#include "nmtools/array/view/activations/hardshrink.hpp"
#include "nmtools/array/view/activations/hardswish.hpp"
#include "nmtools/array/view/activations/hardtanh.hpp"
#include "nmtools/array/view/activations/log_sigmoid.hpp"
#include "nmtools/array/view/activations/mish.hpp"
#include "nmtools/array/view/activations/prelu.hpp"
#include "nmtools/array/view/activations/sigmoid.hpp"
#include "nmtools/array/view/activations/silu.hpp"
#include "nmtools/array/view/activations/softplus.hpp"
#include "nmtools/array/view/activations/softshrink.hpp"
#include "nmtools/array/view/activations/softsign.hpp"
#include "nmtools/array/view/activations/tanhshrink.hpp"
namespace fun = nmtools::view::fun;
float verif_act_relu(float x) { return fun::relu{}(x); }
float verif_act_relu6(float x) { return fun::relu6{}(x); }
float verif_act_leaky_relu(float x, float slope) { return fun::leaky_relu<float>{slope}(x); }
float verif_act_elu(float x, float alpha) { return fun::elu<float>{alpha}(x); }
float verif_act_celu(float x, float alpha) { return fun::celu<float>{alpha}(x); }
float verif_act_selu(float x) { return fun::selu{}(x); }
float verif_act_hardshrink(float x, float lambda) { return fun::hardshrink<float>{lambda}(x); }
float verif_act_hardswish(float x) { return fun::hardswish{}(x); }
float verif_act_hardtanh(float x, float lo, float hi) { return fun::hardtanh<float,float>{lo,hi}(x); }
float verif_act_log_sigmoid(float x) { return fun::log_sigmoid{}(x); }
float verif_act_mish(float x) { return fun::mish{}(x); }
float verif_act_prelu(float x, float alpha) { return fun::prelu<float>{alpha}(x); }
float verif_act_sigmoid(float x) { return fun::sigmoid{}(x); }
float verif_act_silu(float x) { return fun::silu{}(x); }
float verif_act_softplus(float x, float beta, float threshold) { return fun::softplus<float,float>{beta,threshold}(x); }
float verif_act_softshrink(float x, float lambda) { return fun::softshrink<float>{lambda}(x); }
float verif_act_softsign(float x) { return fun::softsign{}(x); }
float verif_act_tanhshrink(float x) { return fun::tanhshrink{}(x); }
