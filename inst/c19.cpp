// Instantiation TU for C19: by-value entry wrappers around the member functions of the STL-free containers.
#include <new>      // utl::either::operator= uses placement new
#include "nmtools/utl/static_vector.hpp"
#include "nmtools/utl/array.hpp"
#include "nmtools/utl/vector.hpp"
#include "nmtools/utl/maybe.hpp"
#include "nmtools/utl/either.hpp"
#include "nmtools/utl/tuple.hpp"
#include "nmtools/utl/tuplev2.hpp"
#include "nmtools/utility/utl/get_if.hpp"

namespace utl = nmtools::utl;
using sv_t  = nmtools::utl::static_vector<nm_size_t,8>;
using arr_t = nmtools::utl::array<nm_size_t,4>;

// ---------------------------------------------------------------- static_vector<size_t,8>
sv_t verif_sv_default() { sv_t v; return v; }
sv_t verif_sv_sized(nm_size_t n) { sv_t v(n); return v; }
sv_t verif_sv_variadic(nm_size_t a, nm_size_t b, nm_size_t c3) { sv_t v(a,b,c3); return v; }
sv_t verif_sv_copy(sv_t v) { sv_t c(v); return c; }
sv_t verif_sv_assign(sv_t dst, sv_t src) { dst = src; return dst; }
sv_t verif_sv_self_assign(sv_t v) { v = v; return v; }
sv_t verif_sv_resize(sv_t v, nm_size_t n) { v.resize(n); return v; }
sv_t verif_sv_resize_fill(sv_t v, nm_size_t n) { v.resize(n); return v; }
sv_t verif_sv_push_back(sv_t v, nm_size_t x) { v.push_back(x); return v; }
sv_t verif_sv_write(sv_t v, int i, nm_size_t x) { v[i] = x; return v; }
sv_t verif_sv_write_at(sv_t v, int i, nm_size_t x) { v.at(i) = x; return v; }
nm_size_t verif_sv_at(sv_t v, int i) { return v.at(i); }
nm_size_t verif_sv_index(sv_t v, int i) { const sv_t& c = v; return c[i]; }
nm_size_t verif_sv_size(sv_t v) { return v.size(); }
nm_size_t verif_sv_data(sv_t v, int i) { return *(v.data() + i); }

// ---------------------------------------------------------------- array<size_t,4>
arr_t verif_arr_copy(arr_t a) { arr_t c(a); return c; }
arr_t verif_arr_assign(arr_t dst, arr_t src) { dst = src; return dst; }
arr_t verif_arr_write(arr_t a, int i, nm_size_t x) { a[i] = x; return a; }
arr_t verif_arr_write_at(arr_t a, int i, nm_size_t x) { a.at(i) = x; return a; }
nm_size_t verif_arr_at(arr_t a, int i) { return a.at(i); }
nm_size_t verif_arr_index(arr_t a, int i) { const arr_t& c = a; return c[i]; }
nm_size_t verif_arr_size(arr_t a) { return a.size(); }
nm_size_t verif_arr_data(arr_t a, int i) { return *(a.data() + i); }
nm_size_t verif_arr_get2(arr_t a) { return utl::get<2>(a); }

// ---------------------------------------------------------------- maybe<size_t>  (trivial T)
using mb_t = nmtools::utl::maybe<nm_size_t>;
mb_t verif_mb_default() { mb_t m; return m; }
mb_t verif_mb_nothing() { mb_t m(utl::nothing); return m; }
mb_t verif_mb_value(nm_size_t x) { mb_t m(x); return m; }
mb_t verif_mb_copy(mb_t m) { mb_t c(m); return c; }
mb_t verif_mb_assign(mb_t dst, mb_t src) { dst = src; return dst; }
mb_t verif_mb_self_assign(mb_t m) { m = m; return m; }
mb_t verif_mb_assign_value(mb_t m, nm_size_t x) { m = x; return m; }
mb_t verif_mb_assign_nothing(mb_t m) { m = utl::nothing; return m; }
mb_t verif_mb_write(mb_t m, nm_size_t x) { *m = x; return m; }
bool verif_mb_has_value(mb_t m) { return m.has_value(); }
bool verif_mb_bool(mb_t m) { return static_cast<bool>(m); }
nm_size_t verif_mb_deref(mb_t m) { return *m; }
nm_size_t verif_mb_value_of(mb_t m) { const mb_t& c = m; return c.value(); }

// ---------------------------------------------------------------- either<size_t,int>  (trivial alternatives)
using ei_t = nmtools::utl::either<nm_size_t,int>;
struct ei_probe_t { bool has_left; bool has_right; nm_size_t left; int right; int index; };
using eip_t = ei_probe_t;
ei_t verif_ei_default() { ei_t e; return e; }
ei_t verif_ei_left(nm_size_t x) { ei_t e(x); return e; }
ei_t verif_ei_right(int y) { ei_t e(y); return e; }
ei_t verif_ei_copy(ei_t e) { ei_t c(e); return c; }
ei_t verif_ei_assign(ei_t dst, ei_t src) { dst = src; return dst; }
ei_t verif_ei_self_assign(ei_t e) { e = e; return e; }
ei_t verif_ei_assign_left(ei_t e, nm_size_t x) { e = x; return e; }
ei_t verif_ei_assign_right(ei_t e, int y) { e = y; return e; }
ei_probe_t verif_ei_probe(ei_t e)
{
    const unsigned long* l = e.get_if<nm_size_t>();
    const int* r = e.get_if<int>();
    ei_probe_t p = { l != nullptr, r != nullptr, l ? *l : (nm_size_t)0, r ? *r : 0, e.index() };
    return p;
}
ei_probe_t verif_ei_probe_free(ei_t e)
{
    const unsigned long* l = nmtools::get_if<nm_size_t>(&e);
    const int* r = nmtools::get_if<int>(&e);
    ei_probe_t p = { l != nullptr, r != nullptr, l ? *l : (nm_size_t)0, r ? *r : 0, e.index() };
    return p;
}

// ---------------------------------------------------------------- tuple / tuplev2
using tp_t  = nmtools::utl::tuple<nm_size_t,int,nm_size_t>;
using tp2_t = nmtools::utl::tuplev2<nm_size_t,int,nm_size_t>;
struct tp_probe_t { nm_size_t e0; int e1; nm_size_t e2; };
using tpp_t = tp_probe_t;
tp_probe_t verif_tp_get(nm_size_t a, int b, nm_size_t c3)
{
    tp_t t(a,b,c3);
    tp_probe_t p = { utl::get<0>(t), utl::get<1>(t), utl::get<2>(t) };
    return p;
}
tp_probe_t verif_tp_copy_get(nm_size_t a, int b, nm_size_t c3)
{
    tp_t t(a,b,c3);
    tp_t u(t);
    tp_t w; w = u;
    utl::get<0>(t) = 0; utl::get<1>(t) = 0; utl::get<2>(t) = 0;   // copies are independent of their source
    tp_probe_t p = { utl::get<0>(w), utl::get<1>(w), utl::get<2>(w) };
    return p;
}
tp_probe_t verif_tp_default()
{
    tp_t t;
    tp_probe_t p = { utl::get<0>(t), utl::get<1>(t), utl::get<2>(t) };
    return p;
}
tp_probe_t verif_tp_write(nm_size_t a, int b, nm_size_t c3, int y)
{
    tp_t t(a,b,c3);
    utl::get<1>(t) = y;
    const tp_t& ct = t;
    tp_probe_t p = { utl::get<0>(ct), utl::get<1>(ct), utl::get<2>(ct) };
    return p;
}
tp_probe_t verif_tp2_get(nm_size_t a, int b, nm_size_t c3)
{
    tp2_t t(a,b,c3);
    tp_probe_t p = { utl::get<0>(t), utl::get<1>(t), utl::get<2>(t) };
    return p;
}
tp_probe_t verif_tp2_copy_write(nm_size_t a, int b, nm_size_t c3, int y)
{
    tp2_t t(a,b,c3);
    tp2_t u(t);
    utl::get<1>(u) = y;
    utl::get<0>(t) = 0;
    const tp2_t& cu = u;
    tp_probe_t p = { utl::get<0>(cu), utl::get<1>(cu), utl::get<2>(cu) };
    return p;
}

// ---------------------------------------------------------------- vector<size_t>  (heap; objects live inside the wrapper)
using vec_t = nmtools::utl::vector<nm_size_t>;
struct vec_probe_t { nm_size_t size; nm_size_t at_i; nm_size_t size2; nm_size_t at2_i; };
using vecp_t = vec_probe_t;


// sized construction, element write, read back; destructor runs at scope exit
vecp_t verif_vec_sized(nm_size_t n, nm_size_t i, nm_size_t x)
{
    vec_t v(n);
    if (i < n) { v[i] = x; }
    vecp_t p = { v.size(), (i < n) ? v.at(i) : x, 0, 0 };
    return p;
}
// std::vector<T>(n) value-initialises its elements
nm_size_t verif_vec_sized_init(nm_size_t n, nm_size_t i)
{
    vec_t v(n);
    return (i < n) ? v[i] : 0;
}
// default construction + 5 push_backs (growth across the initial capacity of 4)
vecp_t verif_vec_push5(nm_size_t x, nm_size_t i)
{
    vec_t v;
    v.push_back(x); v.push_back(x + 1); v.push_back(x + 2); v.push_back(x + 3); v.push_back(x + 4);
    vecp_t p = { v.size(), (i < 5) ? v[i] : 0, 0, 0 };
    return p;
}
// resize (shrink or grow, with reallocation when m exceeds the capacity): size == m, common prefix preserved
vecp_t verif_vec_resize(nm_size_t n, nm_size_t m, nm_size_t i, nm_size_t x)
{
    vec_t v(n);
    if (i < n) { v[i] = x; }
    v.resize(m);
    vecp_t p = { v.size(), (i < n && i < m) ? v[i] : x, 0, 0 };
    return p;
}
// resize growth: std::vector appends value-initialised elements
nm_size_t verif_vec_resize_fill(nm_size_t n, nm_size_t m, nm_size_t i)
{
    vec_t v(n);
    v.resize(m);
    return (n <= i && i < m) ? v[i] : 0;
}
// shrink-then-grow inside the capacity: std::vector gives zeros in the regrown tail
nm_size_t verif_vec_shrink_grow(nm_size_t x)
{
    vec_t v;
    v.push_back(x); v.push_back(x);
    v.resize(1);
    v.resize(2);
    return v[1];
}
// push_back after resize
vecp_t verif_vec_resize_push(nm_size_t n, nm_size_t m, nm_size_t x, nm_size_t y, nm_size_t i)
{
    vec_t v(n);
    if (i < n) { v[i] = x; }
    v.resize(m);
    v.push_back(y);
    vecp_t p = { v.size(), (i < n && i < m) ? v[i] : x, v[m], 0 };
    return p;
}
// copy construction: equal contents, independent of the source; both destructors run (no double free)
vecp_t verif_vec_copy(nm_size_t n, nm_size_t i, nm_size_t x, nm_size_t y)
{
    vec_t v(n);
    if (i < n) { v[i] = x; }
    vec_t c(v);
    if (i < n) { v[i] = y; }
    vecp_t p = { c.size(), (i < n) ? c[i] : x, v.size(), (i < n) ? v[i] : y };
    return p;
}
// copy assignment between vectors of different sizes: equal contents, independent of the source
vecp_t verif_vec_assign(nm_size_t n, nm_size_t m, nm_size_t i, nm_size_t x, nm_size_t y)
{
    vec_t v(n);
    vec_t w(m);
    if (i < n) { v[i] = x; }
    w = v;
    if (i < n) { v[i] = y; }
    vecp_t p = { w.size(), (i < n) ? w[i] : x, v.size(), (i < n) ? v[i] : y };
    return p;
}
// self-assignment is harmless
vecp_t verif_vec_self_assign(nm_size_t n, nm_size_t i, nm_size_t x)
{
    vec_t v(n);
    if (i < n) { v[i] = x; }
    v = v;
    vecp_t p = { v.size(), (i < n) ? v[i] : x, 0, 0 };
    return p;
}
// push_back of an element of the vector itself: std::vector supports v.push_back(v[0]) even when it reallocates
vecp_t verif_vec_push_alias(nm_size_t k, nm_size_t x)
{
    vec_t v;
    v.push_back(x);
    if (k >= 2) { v.push_back(x + 1); }
    if (k >= 3) { v.push_back(x + 2); }
    if (k >= 4) { v.push_back(x + 3); }
    if (k >= 5) { v.push_back(x + 4); }
    if (k >= 6) { v.push_back(x + 5); }
    v.push_back(v[0]);
    vecp_t p = { v.size(), v[v.size() - 1], v[0], 0 };
    return p;
}
// v = v on an arbitrary vector (contract in contracts/c19.spec)
void verif_vecop_self_assign(vec_t& v) { v = v; }
// vector(0) that is grown afterwards: push_back reallocates and releases the zero-byte block
vecp_t verif_vec_zero_push(nm_size_t x)
{
    vec_t v(0);
    v.push_back(x);
    vecp_t p = { v.size(), v[0], 0, 0 };
    return p;
}
// variadic construction
vecp_t verif_vec_variadic(nm_size_t a, nm_size_t b, nm_size_t c3)
{
    vec_t v(a, b, c3);
    vecp_t p = { v.size(), v[0], v[1], v[2] };
    return p;
}

// ---------------------------------------------------------------- maybe<T> / either<T,int> for a NON-TRIVIAL element type
// (the placement-new specialisations of maybe.hpp / either.hpp).  trk_t is a small element type with user-provided
// constructors / destructor / copy assignment that counts, through namespace-scope counters,
//   trk_live : objects constructed and not yet destroyed          (a leak or a missing destruction shows as a surplus)
//   trk_bad  : operations on an object that is NOT alive           (assignment to / copy from / destruction of raw or
//                                                                    already destroyed storage; a double destruction)
// An object is alive while state == TRK_ALIVE (set by every constructor, cleared by the destructor).
long trk_live = 0;
long trk_bad = 0;
#define TRK_ALIVE 0x600DF00DUL
struct trk_t
{
    nm_size_t val;
    nm_size_t state;
    trk_t() : val(0), state(TRK_ALIVE) { trk_live++; }
    trk_t(nm_size_t v) : val(v), state(TRK_ALIVE) { trk_live++; }
    trk_t(const trk_t& o) : val(o.val), state(TRK_ALIVE) { if (o.state != TRK_ALIVE) { trk_bad++; } trk_live++; }
    trk_t& operator=(const trk_t& o)
    {
        if (state != TRK_ALIVE) { trk_bad++; }
        if (o.state != TRK_ALIVE) { trk_bad++; }
        val = o.val;
        return *this;
    }
    ~trk_t()
    {
        if (state != TRK_ALIVE) { trk_bad++; } else { trk_live--; }
        state = 0;
    }
};
using mbt_t = nmtools::utl::maybe<trk_t>;
// observation of one (or two) maybe objects together with the counters at that moment
// (all members are 8 bytes wide and `tv_plain` marks the struct as padding-free plain data, so that translation validation compares
//  the observation of the real code with that of the generated C bytewise, see engine/tv_eq.hpp)
struct mbt_probe_t { nm_size_t has; nm_size_t val; long live; long bad; nm_size_t has2; nm_size_t val2; nm_size_t tv_plain; };
using mbtp_t = mbt_probe_t;
static void trk_reset() { trk_live = 0; trk_bad = 0; }
// the payload storage of an EMPTY maybe is raw memory; give it a definite content (any value `junk`), so that what the code
// under test does with raw storage does not depend on what happens to be on the stack
static void mbt_scribble(mbt_t& m, nm_size_t junk) { trk_t& raw = m.value(); raw.val = junk; raw.state = junk; }
static mbtp_t mbt_probe(const mbt_t& m, const mbt_t& m2)
{
    mbtp_t p = { m.has_value() ? (nm_size_t)1 : (nm_size_t)0, m.has_value() ? (*m).val : (nm_size_t)0, trk_live, trk_bad,
                 m2.has_value() ? (nm_size_t)1 : (nm_size_t)0, m2.has_value() ? (*m2).val : (nm_size_t)0, 0 };
    return p;
}
static mbtp_t mbt_assign_probe(mbt_t& dst, const mbt_t& src, const trk_t& tb)
{
    dst = src;
    mbtp_t p = mbt_probe(dst, src);
    return p;
}

mbtp_t verif_mbt_default()
{
    trk_reset();
    mbt_t m;
    return mbt_probe(m, m);
}
mbtp_t verif_mbt_nothing()
{
    trk_reset();
    mbt_t m(utl::nothing);
    return mbt_probe(m, m);
}
mbtp_t verif_mbt_value(nm_size_t x)
{
    trk_reset();
    trk_t t(x);
    mbt_t m(t);
    t.val = x + 1;                       // the maybe holds its own copy
    return mbt_probe(m, m);
}
// copy construction from a valued / an empty maybe; the copy is independent of its source
mbtp_t verif_mbt_copy(bool has, nm_size_t x, nm_size_t junk)
{
    trk_reset();
    trk_t t(x);
    mbtp_t p;
    if (has) {
        mbt_t src(t);
        mbt_t c(src);
        (*src).val = x + 1;
        p = mbt_probe(c, src);
    } else {
        mbt_t src;
        mbt_scribble(src, junk);
        mbt_t c(src);
        p = mbt_probe(c, src);
    }
    return p;
}
// maybe-to-maybe copy assignment, with and without a value on each side
mbtp_t verif_mbt_assign(bool dst_has, nm_size_t a, bool src_has, nm_size_t b, nm_size_t junk)
{
    trk_reset();
    trk_t ta(a);
    trk_t tb(b);
    mbtp_t p;
    if (dst_has) {
        mbt_t dst(ta);
        if (src_has) { mbt_t src(tb); p = mbt_assign_probe(dst, src, tb); }
        else         { mbt_t src; mbt_scribble(src, junk); p = mbt_assign_probe(dst, src, tb); }
    } else {
        mbt_t dst;
        mbt_scribble(dst, junk);
        if (src_has) { mbt_t src(tb); p = mbt_assign_probe(dst, src, tb); }
        else         { mbt_t src; mbt_scribble(src, junk); p = mbt_assign_probe(dst, src, tb); }
    }
    return p;
}
mbtp_t verif_mbt_self_assign(bool has, nm_size_t x, nm_size_t junk)
{
    trk_reset();
    trk_t t(x);
    mbtp_t p;
    if (has) { mbt_t m(t); m = m; p = mbt_probe(m, m); }
    else     { mbt_t m; mbt_scribble(m, junk); m = m; p = mbt_probe(m, m); }
    return p;
}
// m = t  (value assignment)
mbtp_t verif_mbt_assign_value(bool has, nm_size_t a, nm_size_t x, nm_size_t junk)
{
    trk_reset();
    trk_t ta(a);
    trk_t t(x);
    mbtp_t p;
    if (has) { mbt_t m(ta); m = t; t.val = x + 1; p = mbt_probe(m, m); }
    else     { mbt_t m; mbt_scribble(m, junk); m = t; t.val = x + 1; p = mbt_probe(m, m); }
    return p;
}
// m = nothing  (reset)
mbtp_t verif_mbt_assign_nothing(bool has, nm_size_t a, nm_size_t junk)
{
    trk_reset();
    trk_t ta(a);
    mbtp_t p;
    if (has) { mbt_t m(ta); m = utl::nothing; p = mbt_probe(m, m); }
    else     { mbt_t m; mbt_scribble(m, junk); m = utl::nothing; p = mbt_probe(m, m); }
    return p;
}
// write through operator* / read through value()
mbtp_t verif_mbt_write(nm_size_t a, nm_size_t x)
{
    trk_reset();
    trk_t ta(a);
    mbt_t m(ta);
    (*m).val = x;
    const mbt_t& c = m;
    mbtp_t p = { static_cast<bool>(c) ? (nm_size_t)1 : (nm_size_t)0, c.value().val, trk_live, trk_bad, c.has_value() ? (nm_size_t)1 : (nm_size_t)0, (*c).val, 0 };
    return p;
}
// end of life: the counters AFTER the maybe went out of scope (std::optional destroys its payload)
mbtp_t verif_mbt_scope(bool has, nm_size_t x, nm_size_t junk)
{
    trk_reset();
    trk_t t(x);
    if (has) { mbt_t m(t); mbt_t c(m); }
    else     { mbt_t m; mbt_scribble(m, junk); mbt_t c(m); }
    mbtp_t p = { 0, 0, trk_live, trk_bad, 0, 0, 0 };
    return p;
}

// ---------------------------------------------------------------- maybe<utl::vector<size_t>>: the library's own heap container as payload
// (pointer checks: use after free / double free / out of bounds; the payload is never destroyed by maybe -- known finding -- so
//  only verif_mbv_scope runs under the leak check)
using mbv_t = nmtools::utl::maybe<vec_t>;
// value construction + copy construction: equal contents, independent of the source
vecp_t verif_mbv_copy(nm_size_t n, nm_size_t i, nm_size_t x, nm_size_t y)
{
    vec_t v(n);
    if (i < n) { v[i] = x; }
    mbv_t m(v);
    mbv_t c(m);
    if (i < n) { (*m)[i] = y; }
    vecp_t p = { (*c).size(), (i < n) ? (*c)[i] : x, (*m).size(), (i < n) ? (*m)[i] : y };
    return p;
}
// valued <- valued copy assignment between payloads of different sizes
vecp_t verif_mbv_assign(nm_size_t n, nm_size_t m, nm_size_t i, nm_size_t x, nm_size_t y)
{
    vec_t v(n);
    vec_t w(m);
    if (i < n) { v[i] = x; }
    mbv_t a(w);
    mbv_t b(v);
    a = b;
    if (i < n) { (*b)[i] = y; }
    vecp_t p = { (*a).size(), (i < n) ? (*a)[i] : x, (*b).size(), (i < n) ? (*b)[i] : y };
    return p;
}
// self-assignment of a valued maybe is harmless
vecp_t verif_mbv_self_assign(nm_size_t n, nm_size_t i, nm_size_t x)
{
    vec_t v(n);
    if (i < n) { v[i] = x; }
    mbv_t a(v);
    a = a;
    vecp_t p = { (*a).size(), (i < n) ? (*a)[i] : x, 0, 0 };
    return p;
}
// end of life of a valued maybe: std::optional releases the payload's heap block
nm_size_t verif_mbv_scope(bool has, nm_size_t n)
{
    vec_t v(n);
    if (has) { mbv_t m(v); }
    return v.size();
}

// ---------------------------------------------------------------- either<trk_t,int>: non-trivial left alternative
// (either.hpp specialisation with the user-provided copy constructor / empty destructor)
using e2_t = nmtools::utl::either<trk_t,int>;
struct e2_probe_t { long index; nm_size_t lval; long rval; long live; long bad; nm_size_t tv_plain; };
using e2p_t = e2_probe_t;
static e2p_t e2_probe(const e2_t& e)
{
    const trk_t* l = e.get_if<trk_t>();
    const int* r = e.get_if<int>();
    e2p_t p = { e.index(), l ? l->val : (nm_size_t)0, r ? (long)*r : 0L, trk_live, trk_bad, 0 };
    return p;
}
static e2p_t e2_assign_probe(e2_t& dst, const e2_t& src) { dst = src; return e2_probe(dst); }
e2p_t verif_e2_default() { trk_reset(); e2_t e; return e2_probe(e); }
e2p_t verif_e2_left(nm_size_t x) { trk_reset(); trk_t t(x); e2_t e(t); t.val = x + 1; return e2_probe(e); }
e2p_t verif_e2_right(int y) { trk_reset(); e2_t e(y); return e2_probe(e); }
e2p_t verif_e2_copy(bool is_left, nm_size_t x, int y)
{
    trk_reset();
    trk_t t(x);
    e2p_t p;
    if (is_left) { e2_t src(t); e2_t c(src); p = e2_probe(c); }
    else         { e2_t src(y); e2_t c(src); p = e2_probe(c); }
    return p;
}
e2p_t verif_e2_assign(bool dst_left, nm_size_t a, int y1, bool src_left, nm_size_t b, int y2)
{
    trk_reset();
    trk_t ta(a);
    trk_t tb(b);
    e2p_t p;
    if (dst_left) {
        e2_t dst(ta);
        if (src_left) { e2_t src(tb); p = e2_assign_probe(dst, src); }
        else          { e2_t src(y2); p = e2_assign_probe(dst, src); }
    } else {
        e2_t dst(y1);
        if (src_left) { e2_t src(tb); p = e2_assign_probe(dst, src); }
        else          { e2_t src(y2); p = e2_assign_probe(dst, src); }
    }
    return p;
}
e2p_t verif_e2_self_assign(bool is_left, nm_size_t x, int y)
{
    trk_reset();
    trk_t t(x);
    e2p_t p;
    if (is_left) { e2_t e(t); e = e; p = e2_probe(e); }
    else         { e2_t e(y); e = e; p = e2_probe(e); }
    return p;
}
e2p_t verif_e2_assign_left(bool is_left, nm_size_t a, int y, nm_size_t x)
{
    trk_reset();
    trk_t ta(a);
    trk_t t(x);
    e2p_t p;
    if (is_left) { e2_t e(ta); e = t; t.val = x + 1; p = e2_probe(e); }
    else         { e2_t e(y);  e = t; t.val = x + 1; p = e2_probe(e); }
    return p;
}
e2p_t verif_e2_assign_right(bool is_left, nm_size_t a, int y, int y2)
{
    trk_reset();
    trk_t ta(a);
    e2p_t p;
    if (is_left) { e2_t e(ta); e = y2; p = e2_probe(e); }
    else         { e2_t e(y);  e = y2; p = e2_probe(e); }
    return p;
}
e2p_t verif_e2_scope(bool is_left, nm_size_t x, int y)
{
    trk_reset();
    trk_t t(x);
    if (is_left) { e2_t e(t); }
    else         { e2_t e(y); }
    e2p_t p = { 0, 0, 0, trk_live, trk_bad, 0 };
    return p;
}
