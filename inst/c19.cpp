// Instantiation TU for C19: by-value entry wrappers around the member functions of the STL-free containers.
#include "nmtools/utl/static_vector.hpp"
#include "nmtools/utl/array.hpp"
#include "nmtools/utl/vector.hpp"
#include "nmtools/utl/maybe.hpp"
#include "nmtools/utl/either.hpp"
#include "nmtools/utl/tuple.hpp"

namespace utl = nmtools::utl;
using sv_t  = nmtools::utl::static_vector<nm_size_t,8>;
using arr_t = nmtools::utl::array<nm_size_t,4>;

// ---------------------------------------------------------------- static_vector<size_t,8>
sv_t verif_sv_default() { sv_t v; return v; }
sv_t verif_sv_sized(nm_size_t n) { sv_t v(n); return v; }
sv_t verif_sv_variadic(nm_size_t a, nm_size_t b, nm_size_t c) { sv_t v(a,b,c); return v; }
sv_t verif_sv_copy(sv_t v) { sv_t c(v); return c; }
sv_t verif_sv_assign(sv_t dst, sv_t src) { dst = src; return dst; }
sv_t verif_sv_self_assign(sv_t v) { v = v; return v; }
sv_t verif_sv_resize(sv_t v, nm_size_t n) { v.resize(n); return v; }
sv_t verif_sv_resize_fill(sv_t v, nm_size_t n) { v.resize(n); return v; }
sv_t verif_sv_push_back(sv_t v, nm_size_t x) { v.push_back(x); return v; }
sv_t verif_sv_write(sv_t v, int i, nm_size_t x) { v[i] = x; return v; }
sv_t verif_sv_write_at(sv_t v, int i, nm_size_t x) { v.at(i) = x; return v; }
nm_size_t verif_sv_at(sv_t v, int i) { return v.at(i); }
nm_size_t verif_sv_index(sv_t v, int i) { const sv_t& c = v; return c[i]; }
nm_size_t verif_sv_size(sv_t v) { return v.size(); }
nm_size_t verif_sv_data(sv_t v, int i) { return *(v.data() + i); }

// ---------------------------------------------------------------- array<size_t,4>
arr_t verif_arr_copy(arr_t a) { arr_t c(a); return c; }
arr_t verif_arr_assign(arr_t dst, arr_t src) { dst = src; return dst; }
arr_t verif_arr_write(arr_t a, int i, nm_size_t x) { a[i] = x; return a; }
arr_t verif_arr_write_at(arr_t a, int i, nm_size_t x) { a.at(i) = x; return a; }
nm_size_t verif_arr_at(arr_t a, int i) { return a.at(i); }
nm_size_t verif_arr_index(arr_t a, int i) { const arr_t& c = a; return c[i]; }
nm_size_t verif_arr_size(arr_t a) { return a.size(); }
nm_size_t verif_arr_data(arr_t a, int i) { return *(a.data() + i); }
nm_size_t verif_arr_get2(arr_t a) { return utl::get<2>(a); }

// ---------------------------------------------------------------- maybe<size_t>  (trivial T)
using mb_t = nmtools::utl::maybe<nm_size_t>;
mb_t verif_mb_default() { mb_t m; return m; }
mb_t verif_mb_nothing() { mb_t m(utl::nothing); return m; }
mb_t verif_mb_value(nm_size_t x) { mb_t m(x); return m; }
mb_t verif_mb_copy(mb_t m) { mb_t c(m); return c; }
mb_t verif_mb_assign(mb_t dst, mb_t src) { dst = src; return dst; }
mb_t verif_mb_self_assign(mb_t m) { m = m; return m; }
mb_t verif_mb_assign_value(mb_t m, nm_size_t x) { m = x; return m; }
mb_t verif_mb_assign_nothing(mb_t m) { m = utl::nothing; return m; }
mb_t verif_mb_write(mb_t m, nm_size_t x) { *m = x; return m; }
bool verif_mb_has_value(mb_t m) { return m.has_value(); }
bool verif_mb_bool(mb_t m) { return static_cast<bool>(m); }
nm_size_t verif_mb_deref(mb_t m) { return *m; }
nm_size_t verif_mb_value_of(mb_t m) { const mb_t& c = m; return c.value(); }

// ---------------------------------------------------------------- either<size_t,int>  (trivial alternatives)
using ei_t = nmtools::utl::either<nm_size_t,int>;
struct ei_probe_t { bool has_left; bool has_right; nm_size_t left; int right; int index; };
ei_t verif_ei_default() { ei_t e; return e; }
ei_t verif_ei_left(nm_size_t x) { ei_t e(x); return e; }
ei_t verif_ei_right(int y) { ei_t e(y); return e; }
ei_t verif_ei_copy(ei_t e) { ei_t c(e); return c; }
ei_t verif_ei_assign(ei_t dst, ei_t src) { dst = src; return dst; }
ei_t verif_ei_self_assign(ei_t e) { e = e; return e; }
ei_t verif_ei_assign_left(ei_t e, nm_size_t x) { e = x; return e; }
ei_t verif_ei_assign_right(ei_t e, int y) { e = y; return e; }
ei_probe_t verif_ei_probe(ei_t e)
{
    const nm_size_t* l = e.get_if<nm_size_t>();
    const int* r = e.get_if<int>();
    ei_probe_t p = { l != nullptr, r != nullptr, l ? *l : (nm_size_t)0, r ? *r : 0, e.index() };
    return p;
}
ei_probe_t verif_ei_probe_free(ei_t e)
{
    const nm_size_t* l = nmtools::get_if<nm_size_t>(&e);
    const int* r = nmtools::get_if<int>(&e);
    ei_probe_t p = { l != nullptr, r != nullptr, l ? *l : (nm_size_t)0, r ? *r : 0, e.index() };
    return p;
}

// ---------------------------------------------------------------- tuple / tuplev2
#include "nmtools/utl/tuplev2.hpp"
using tp_t  = nmtools::utl::tuple<nm_size_t,int,nm_size_t>;
using tp2_t = nmtools::utl::tuplev2<nm_size_t,int,nm_size_t>;
struct tp_probe_t { nm_size_t e0; int e1; nm_size_t e2; };
tp_probe_t verif_tp_get(nm_size_t a, int b, nm_size_t c)
{
    tp_t t(a,b,c);
    tp_probe_t p = { utl::get<0>(t), utl::get<1>(t), utl::get<2>(t) };
    return p;
}
tp_probe_t verif_tp_copy_get(nm_size_t a, int b, nm_size_t c)
{
    tp_t t(a,b,c);
    tp_t u(t);
    tp_t w; w = u;
    utl::get<0>(t) = 0; utl::get<1>(t) = 0; utl::get<2>(t) = 0;   // copies are independent of their source
    tp_probe_t p = { utl::get<0>(w), utl::get<1>(w), utl::get<2>(w) };
    return p;
}
tp_probe_t verif_tp_default()
{
    tp_t t;
    tp_probe_t p = { utl::get<0>(t), utl::get<1>(t), utl::get<2>(t) };
    return p;
}
tp_probe_t verif_tp_write(nm_size_t a, int b, nm_size_t c, int y)
{
    tp_t t(a,b,c);
    utl::get<1>(t) = y;
    const tp_t& ct = t;
    tp_probe_t p = { utl::get<0>(ct), utl::get<1>(ct), utl::get<2>(ct) };
    return p;
}
tp_probe_t verif_tp2_get(nm_size_t a, int b, nm_size_t c)
{
    tp2_t t(a,b,c);
    tp_probe_t p = { utl::get<0>(t), utl::get<1>(t), utl::get<2>(t) };
    return p;
}
tp_probe_t verif_tp2_copy_write(nm_size_t a, int b, nm_size_t c, int y)
{
    tp2_t t(a,b,c);
    tp2_t u(t);
    utl::get<1>(u) = y;
    utl::get<0>(t) = 0;
    const tp2_t& cu = u;
    tp_probe_t p = { utl::get<0>(cu), utl::get<1>(cu), utl::get<2>(cu) };
    return p;
}
