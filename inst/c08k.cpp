// Instantiation TU for C08, concrete-geometry bounded units: the real reduce / accumulate views evaluated end to end on a small
// array of concrete shape with symbolic elements (decorator / reduce_t / accumulate_t / slicing / flatten / evaluator glue).
#include "nmtools/array/view/ufuncs/add.hpp"
#include "nmtools/array/view/ufuncs/multiply.hpp"
#include "nmtools/array/eval.hpp"
#include "nmtools/array/ndarray.hpp"
#include "nmtools/dtypes.hpp"
#include "nmtools/utility/unwrap.hpp"
namespace nm = nmtools; namespace na = nmtools::array; namespace view = nmtools::view;
using ib6_t = nm::utl::static_vector<int,6>;
using cb4_t = nm::utl::static_vector<signed char,4>;
using lb4_t = nm::utl::static_vector<int,4>;
using sv4_t = nm::utl::static_vector<nm_size_t,4>;
using ndi_t = na::ndarray_t<ib6_t,sv4_t>;
using ndc_t = na::ndarray_t<cb4_t,sv4_t>;
using ndl_t = na::ndarray_t<lb4_t,sv4_t>;

static inline void mk23(ndi_t& a, const ib6_t& data)
{ sv4_t s; s.resize(2); s[0] = 2; s[1] = 3; a.resize(s); for (nm_size_t i = 0; i < 6; i++) a.data_[i] = data[i]; }

// add.reduce over all axes (axis=None) with an initial value: a number
int verif_reduce_add_all_initial(ib6_t data, int initial)
{
    ndi_t a; mk23(a, data);
    auto r = view::reduce_add(a, nm::None, nm::None, initial);
    return (int)r;
}
// add.reduce over axis 0 with an initial value, evaluated into a supplied output of shape (3)
ib6_t verif_reduce_add_axis0_initial(ib6_t data, int initial)
{
    ndi_t a; mk23(a, data);
    auto r = view::reduce_add(a, 0, nm::None, initial);
    auto v = nm::unwrap(r);
    ndi_t out; sv4_t s; s.resize(1); s[0] = 3; out.resize(s);
    auto ev = na::evaluator(v, nm::None);
    ev(out);
    return out.data_;
}
// add.accumulate of 4 signed chars with dtype int32: the running sums are formed in the wider type
lb4_t verif_accumulate_add_dtype(cb4_t data)
{
    ndc_t a; sv4_t s; s.resize(1); s[0] = 4; a.resize(s); for (nm_size_t i = 0; i < 4; i++) a.data_[i] = data[i];
    auto r = view::accumulate_add(a, 0, nm::int32);
    auto v = nm::unwrap(r);
    ndl_t out; out.resize(s);
    auto ev = na::evaluator(v, nm::None);
    ev(out);
    return out.data_;
}
// add.reduce over an explicit list of ALL axes of a fixed-rank array with an initial value: a number (reduce_t::operator num_type)
using a2_t  = nmtools_array<nm_size_t,2>;
using ai2_t = nmtools_array<int,2>;
using ndf_t = na::ndarray_t<ib6_t,a2_t>;
int verif_reduce_add_axes_initial(ib6_t data, int initial)
{
    ndf_t a; a.resize(a2_t{2,3}); for (nm_size_t i = 0; i < 6; i++) a.data_[i] = data[i];
    auto r = view::reduce_add(a, ai2_t{0,1}, nm::None, initial);
    return (int)nm::unwrap(r);
}
