// Instantiation TU for C12 (SIMD index enumerators + packed-loop / tail partition): by-value entry wrappers calling the real templates.
// Only the index headers are needed (plain index arithmetic templated on N_ELEM_PACK); no SIMD hardware / context header.
#include "nmtools/array/eval/simd/index/ufunc.hpp"
namespace nm = nmtools;
namespace ix = nmtools::index;
namespace meta = nmtools::meta;
using a2_t   = nmtools_array<nm_size_t,2>;
using tix_t  = nmtools_tuple<ix::SIMD,nm_size_t>;
using tix3_t = nmtools_array<tix_t,3>;
using tix2_t = nmtools_array<tix_t,2>;

// ---- broadcast-2d binary enumerator (evaluator/ufunc.hpp eval_binary, BROADCASTED_2D case), N_ELEM_PACK = 4 and 8
a2_t verif_binary_2d_shape_4(a2_t out_shape, a2_t lhs_shape, a2_t rhs_shape)
{ return ix::binary_2d_simd_shape(meta::as_type<4ul>{}, out_shape, lhs_shape, rhs_shape); }
nm_size_t verif_binary_2d_size_4(a2_t out_shape, a2_t lhs_shape, a2_t rhs_shape)
{ auto e = ix::binary_2d_simd_enumerator(meta::as_type<4ul>{}, out_shape, lhs_shape, rhs_shape); return e.size(); }
tix3_t verif_binary_2d_at_4(a2_t out_shape, a2_t lhs_shape, a2_t rhs_shape, nm_size_t i)
{ auto e = ix::binary_2d_simd_enumerator(meta::as_type<4ul>{}, out_shape, lhs_shape, rhs_shape); return e[i]; }
a2_t verif_binary_2d_shape_8(a2_t out_shape, a2_t lhs_shape, a2_t rhs_shape)
{ return ix::binary_2d_simd_shape(meta::as_type<8ul>{}, out_shape, lhs_shape, rhs_shape); }
nm_size_t verif_binary_2d_size_8(a2_t out_shape, a2_t lhs_shape, a2_t rhs_shape)
{ auto e = ix::binary_2d_simd_enumerator(meta::as_type<8ul>{}, out_shape, lhs_shape, rhs_shape); return e.size(); }
tix3_t verif_binary_2d_at_8(a2_t out_shape, a2_t lhs_shape, a2_t rhs_shape, nm_size_t i)
{ auto e = ix::binary_2d_simd_enumerator(meta::as_type<8ul>{}, out_shape, lhs_shape, rhs_shape); return e[i]; }

// ---- 2-d reduction enumerators (evaluator/ufunc.hpp eval_reduction): HORIZONTAL = reduce the last axis (packed + identity-padded
//      tail, accumulate at the row end), VERTICAL = reduce a leading axis (packed accumulate + scalar accumulate per column)
using hk_t = meta::as_type<ix::ReductionKind::HORIZONTAL>;
using vk_t = meta::as_type<ix::ReductionKind::VERTICAL>;
a2_t verif_reduction_h_shape_4(a2_t out_shape, a2_t inp_shape)
{ return ix::reduction_2d_shape(hk_t{}, meta::as_type<4ul>{}, inp_shape, out_shape); }
a2_t verif_reduction_v_shape_4(a2_t out_shape, a2_t inp_shape)
{ return ix::reduction_2d_shape(vk_t{}, meta::as_type<4ul>{}, inp_shape, out_shape); }
tix2_t verif_reduction_h_at_4(a2_t out_shape, a2_t inp_shape, nm_size_t i)
{ auto e = ix::reduction_2d_enumerator(hk_t{}, meta::as_type<4ul>{}, out_shape, inp_shape); return e[i]; }
tix2_t verif_reduction_v_at_4(a2_t out_shape, a2_t inp_shape, nm_size_t i)
{ auto e = ix::reduction_2d_enumerator(vk_t{}, meta::as_type<4ul>{}, out_shape, inp_shape); return e[i]; }
nm_size_t verif_reduction_h_size_4(a2_t out_shape, a2_t inp_shape)
{ auto e = ix::reduction_2d_enumerator(hk_t{}, meta::as_type<4ul>{}, out_shape, inp_shape); return e.size(); }
a2_t verif_reduction_h_shape_8(a2_t out_shape, a2_t inp_shape)
{ return ix::reduction_2d_shape(hk_t{}, meta::as_type<8ul>{}, inp_shape, out_shape); }
a2_t verif_reduction_v_shape_8(a2_t out_shape, a2_t inp_shape)
{ return ix::reduction_2d_shape(vk_t{}, meta::as_type<8ul>{}, inp_shape, out_shape); }
tix2_t verif_reduction_h_at_8(a2_t out_shape, a2_t inp_shape, nm_size_t i)
{ auto e = ix::reduction_2d_enumerator(hk_t{}, meta::as_type<8ul>{}, out_shape, inp_shape); return e[i]; }
tix2_t verif_reduction_v_at_8(a2_t out_shape, a2_t inp_shape, nm_size_t i)
{ auto e = ix::reduction_2d_enumerator(vk_t{}, meta::as_type<8ul>{}, out_shape, inp_shape); return e[i]; }

// ---- n-d -> 2-d regrouping used by the reduction enumerator with an axis (run-time rank: utl::static_vector<size_t,8>)
using sv_t = nmtools::utl::static_vector<nm_size_t,8>;
a2_t verif_reduction_nd_reshape_h(sv_t inp_shape)
{ return ix::reduction_nd_reshape(hk_t{}, meta::as_type<4ul>{}, inp_shape, inp_shape, -1); }
a2_t verif_reduction_nd_reshape_v(sv_t inp_shape, int axis)
{ return ix::reduction_nd_reshape(vk_t{}, meta::as_type<4ul>{}, inp_shape, inp_shape, axis); }

// ---- outer enumerator (evaluator/ufunc.hpp eval_outer): 1-d (x) 1-d -> 2-d; lhs is always broadcast, rhs/out packed or padded
using a1_t = nmtools_array<nm_size_t,1>;
a2_t verif_outer_shape_4(a2_t out_shape, a1_t lhs_shape, a1_t rhs_shape)
{ return ix::outer_simd_shape(meta::as_type<4ul>{}, out_shape, lhs_shape, rhs_shape); }
tix3_t verif_outer_at_4(a2_t out_shape, a1_t lhs_shape, a1_t rhs_shape, nm_size_t i)
{ auto e = ix::outer_simd_enumerator(meta::as_type<4ul>{}, out_shape, lhs_shape, rhs_shape); return e[i]; }
a2_t verif_outer_shape_8(a2_t out_shape, a1_t lhs_shape, a1_t rhs_shape)
{ return ix::outer_simd_shape(meta::as_type<8ul>{}, out_shape, lhs_shape, rhs_shape); }
tix3_t verif_outer_at_8(a2_t out_shape, a1_t lhs_shape, a1_t rhs_shape, nm_size_t i)
{ auto e = ix::outer_simd_enumerator(meta::as_type<8ul>{}, out_shape, lhs_shape, rhs_shape); return e[i]; }

// ---- matmul inner enumerator (eval/simd/index/matmul.hpp): dot product of lhs row `out_offset / out_cols` with the (transposed) rhs
//      row `out_offset % out_cols`, K = lhs_shape[-1] elements in ceil(K/N) packed / padded steps  (thorough tier)
#include "nmtools/array/eval/simd/index/matmul.hpp"
tix3_t verif_matmul_inner_at_4(a2_t out_shape, a2_t lhs_shape, a2_t rhs_shape, nm_size_t out_offset, nm_size_t step)
{ auto e = ix::matmul_simd_inner_enumerator_t<nm_size_t,4ul,nm_size_t,a2_t,a2_t,a2_t>(meta::as_type<4ul>{}, out_offset, out_shape, lhs_shape, rhs_shape); return e[step]; }
nm_size_t verif_matmul_inner_size_4(a2_t out_shape, a2_t lhs_shape, a2_t rhs_shape, nm_size_t out_offset)
{ auto e = ix::matmul_simd_inner_enumerator_t<nm_size_t,4ul,nm_size_t,a2_t,a2_t,a2_t>(meta::as_type<4ul>{}, out_offset, out_shape, lhs_shape, rhs_shape); return e.size(); }
