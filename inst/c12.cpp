// Instantiation TU for C12 (SIMD index enumerators + packed-loop / tail partition): by-value entry wrappers calling the real templates.
// Only the index headers are needed (plain index arithmetic templated on N_ELEM_PACK); no SIMD hardware / context header.
#include "nmtools/array/eval/simd/index/ufunc.hpp"
namespace nm = nmtools;
namespace ix = nmtools::index;
namespace meta = nmtools::meta;
using a2_t   = nmtools_array<nm_size_t,2>;
using tix_t  = nmtools_tuple<ix::SIMD,nm_size_t>;
using tix3_t = nmtools_array<tix_t,3>;
using tix2_t = nmtools_array<tix_t,2>;

// ---- broadcast-2d binary enumerator (evaluator/ufunc.hpp eval_binary, BROADCASTED_2D case), N_ELEM_PACK = 4 and 8
a2_t verif_binary_2d_shape_4(a2_t out_shape, a2_t lhs_shape, a2_t rhs_shape)
{ return ix::binary_2d_simd_shape(meta::as_type<4ul>{}, out_shape, lhs_shape, rhs_shape); }
nm_size_t verif_binary_2d_size_4(a2_t out_shape, a2_t lhs_shape, a2_t rhs_shape)
{ auto e = ix::binary_2d_simd_enumerator(meta::as_type<4ul>{}, out_shape, lhs_shape, rhs_shape); return e.size(); }
tix3_t verif_binary_2d_at_4(a2_t out_shape, a2_t lhs_shape, a2_t rhs_shape, nm_size_t i)
{ auto e = ix::binary_2d_simd_enumerator(meta::as_type<4ul>{}, out_shape, lhs_shape, rhs_shape); return e[i]; }
