// Instantiation TU for C17 (neural-network routines: output-shape formulas and window indexing): by-value entry wrappers calling the real templates.
#include "nmtools/array/index/pooling.hpp"
#include "nmtools/array/index/sliding_window.hpp"
#include "nmtools/array/view/convnd.hpp"
#include "nmtools/array/view/pooling.hpp"
#include "nmtools/array/ndarray/ndarray.hpp"

namespace nm = nmtools;
namespace ix = nmtools::index;
using sv_t   = nmtools::utl::static_vector<nm_size_t,8>;
using sv7_t  = nmtools::utl::static_vector<nm_size_t,7>;
using sv9_t  = nmtools::utl::static_vector<nm_size_t,9>;
using sv10_t = nmtools::utl::static_vector<nm_size_t,10>;
using sv16_t = nmtools::utl::static_vector<nm_size_t,16>;
using a2_t   = nmtools_array<nm_size_t,2>;
using a4_t   = nmtools_array<nm_size_t,4>;
using ai2_t  = nmtools_array<int,2>;
using sl_t   = nmtools_array<int,3>;          // (start, stop, step)
using sl4_t  = nmtools_array<sl_t,4>;
using cd_t   = nm::clipped_size_t<8>;

// ---- pooling: output shape (floor / ceil mode) and the window of one output element (NCHW, run-time ceil_mode)
a4_t  verif_shape_pool2d(a4_t shape, a2_t kernel, a2_t stride, bool ceil_mode) { return ix::shape_pool2d(shape,kernel,stride,ceil_mode); }
sv_t  verif_shape_pool2d_sv(sv_t shape, a2_t kernel, a2_t stride, bool ceil_mode) { return ix::shape_pool2d(shape,kernel,stride,ceil_mode); }
sl4_t verif_slice_pool2d(a4_t idx, a4_t shape, a2_t kernel, a2_t stride, bool ceil_mode) { return ix::slice_pool2d(idx,shape,kernel,stride,ceil_mode); }

// ---- sliding_window (numpy.lib.stride_tricks.sliding_window_view): shape and index map, as used by convnd
//      (src shape bounded-rank, window / axis fixed-length arrays as conv_kernel_size / conv_window_axis deliver them; axis=None with a full window shape)
sv10_t verif_shape_sliding_window_axes(sv_t src, a2_t window, ai2_t axis) { return ix::shape_sliding_window(src,window,axis); }
sv16_t verif_shape_sliding_window_none(sv_t src, sv_t window) { return ix::shape_sliding_window(src,window); }
sv_t   verif_sliding_window_axes(sv10_t idx, sv10_t dst_shape, sv_t src_shape, a2_t window, ai2_t axis) { return ix::sliding_window(idx,dst_shape,src_shape,window,axis); }
sv_t   verif_sliding_window_none(sv16_t idx, sv16_t dst_shape, sv_t src_shape, sv_t window) { return ix::sliding_window(idx,dst_shape,src_shape,window); }

// ---- convnd helpers (n_planes = 2 as conv2d passes it; groups run-time)
using two_t = nm::meta::ct<2>;
sv10_t verif_conv_reshape_input(sv_t src, nm_size_t groups) { return ix::conv_reshape_input(src,groups,two_t{}); }
sv9_t  verif_conv_reshape_weight(sv_t src, nm_size_t groups) { return ix::conv_reshape_weight(src,groups,two_t{}); }
sv7_t  verif_conv_reshape_reduce(sv_t src, nm_size_t groups) { return ix::conv_reshape_reduce(src,groups,two_t{}); }
sv10_t verif_conv_reshape_bias(sv_t src) { return ix::conv_reshape_bias(src,two_t{}); }
ai2_t  verif_conv_kernel_size(sv_t weight_shape) { return ix::conv_kernel_size(weight_shape,two_t{}); }
ai2_t  verif_conv_expand_spacing(a2_t dilation) { return ix::conv_expand_spacing(dilation,two_t{}); }
// the stride slices convnd applies after the windowing: (Ellipsis, ::s_a, ::s_b) on the two spatial axes in their natural order (H, W)
a2_t   verif_conv_slices(a2_t stride)
{
    auto sl = ix::conv_slices(stride,two_t{});
    return a2_t{ (nm_size_t)nm::get<2>(nm::get<1>(sl)), (nm_size_t)nm::get<2>(nm::get<2>(sl)) };
}
sv16_t verif_conv_pad(nm_size_t src_dim, a2_t padding) { return ix::conv_pad(cd_t(src_dim),padding,two_t{}); }
// the instance convnd builds: windows on the last two axes (conv_window_axis = (-1,-2))
sv_t   verif_sliding_window_conv(sv10_t idx, sv10_t dst_shape, sv_t src_shape, a2_t window) { return ix::sliding_window(idx,dst_shape,src_shape,window,ai2_t{-1,-2}); }

// max pooling reducer on ONE 2x2 window of ints (the callable pool2d_t::operator() applies to each sliced window)
using i4_t  = nmtools_array<int,4>;
using wb_t  = nmtools::utl::static_vector<int,4>;
using ws_t  = nmtools::utl::static_vector<nm_size_t,2>;
using win_t = nmtools::array::ndarray_t<wb_t,ws_t>;
int verif_max_reducer(i4_t v)
{
    win_t w; ws_t s; s.resize(2); s[0] = 2; s[1] = 2; w.resize(s);
    w.data_[0] = v[0]; w.data_[1] = v[1]; w.data_[2] = v[2]; w.data_[3] = v[3];
    return (int)nm::view::max_reducer_t{}(w);
}
