// Instantiation TU for C03 (rearranging views at the index-function level): by-value entry wrappers calling the real templates.
#include "nmtools/array/index/normalize_axis.hpp"
#include "nmtools/array/index/transpose.hpp"
#include "nmtools/array/index/scatter.hpp"
#include "nmtools/array/index/gather.hpp"
#include "nmtools/array/index/reverse.hpp"
#include "nmtools/array/index/reshape.hpp"
#include "nmtools/array/index/product.hpp"
#include "nmtools/array/index/expand_dims.hpp"
#include "nmtools/array/index/squeeze.hpp"
#include "nmtools/array/index/atleast_nd.hpp"
#include "nmtools/array/index/flatten.hpp"
#include "nmtools/array/index/moveaxis.hpp"
#include "nmtools/array/index/flip.hpp"
#include "nmtools/array/view/swapaxes.hpp"   // index::swapaxes_to_transpose lives in the view header

namespace nm = nmtools;
namespace ix = nmtools::index;
using sv_t  = nmtools::utl::static_vector<nm_size_t,8>;
using svi_t = nmtools::utl::static_vector<int,8>;
// result types (names shared by the C rendering and the native replay)
using opt_axis_t = nmtools_maybe<unsigned int>;        // normalize_axis(int, size_t)
using opt_sv_t   = nmtools_maybe<sv_t>;                // normalize_axis(svi_t, size_t)
using opt_svi_t  = nmtools_maybe<svi_t>;               // shape_reshape(sv_t, svi_t)
using cnt_t      = nmtools_tuple<int,nm_size_t>;       // count_negative_reshape
using sv9_t      = nmtools::utl::static_vector<nm_size_t,9>;            // shape_expand_dims(sv_t, int)
using hyb_t      = nmtools::array::hybrid_ndarray<nm_size_t,8,1>;       // shape_squeeze(sv_t), shape_atleast_nd(sv_t, ct<N>)
using arr1_t     = nmtools_array<nm_size_t,1>;                          // shape_flatten(sv_t, None)
using slices3_t  = nmtools_array<nmtools_tuple<nm::none_t,nm::none_t,int>,3>;          // flip_slices(ct<3>, axis)

// ---- normalize_axis (scalar axis / axis list), ndim as the views pass it (len(shape): size_t)
auto verif_normalize_axis(int axis, nm_size_t ndim) { return ix::normalize_axis(axis,ndim); }
auto verif_normalize_axes(svi_t axes, nm_size_t ndim) { return ix::normalize_axis(axes,ndim); }

// ---- transpose: shape and index maps (view::transpose_t: dst_shape = shape_transpose(src_shape,axes);
//      src index = reverse(dst index) for None, scatter(dst index, axes) otherwise)
auto verif_shape_transpose_none(sv_t shape) { return ix::shape_transpose(shape,nm::None); }
auto verif_shape_transpose(sv_t shape, svi_t axes) { return ix::shape_transpose(shape,axes); }
auto verif_reverse(sv_t x) { return ix::reverse(x); }
auto verif_scatter(sv_t x, svi_t p) { return ix::scatter(x,p); }
auto verif_gather(sv_t x, svi_t p) { return ix::gather(x,p); }
// laws (compositions of the real functions)
auto verif_reverse_reverse(sv_t x) { return ix::reverse(ix::reverse(x)); }
auto verif_gather_scatter(sv_t x, svi_t p) { return ix::gather(ix::scatter(x,p),p); }
// transpose by p then by q = p^-1: element map  a(scatter(scatter(idx,q),p)), shape shape_transpose(shape_transpose(s,p),q)
auto verif_scatter_scatter_inv(sv_t idx, svi_t p, svi_t q) { return ix::scatter(ix::scatter(idx,q),p); }
auto verif_shape_transpose_inv(sv_t shape, svi_t p, svi_t q) { return ix::shape_transpose(ix::shape_transpose(shape,p),q); }

// ---- reshape
auto verif_count_negative_reshape(svi_t dst) { return ix::count_negative_reshape(dst); }
auto verif_shape_reshape(sv_t src, svi_t dst) { return ix::shape_reshape(src,dst); }
auto verif_shape_reshape_safe(sv_t src, svi_t dst) { return ix::shape_reshape(src,dst); }

// ---- expand_dims / squeeze / atleast_nd / flatten
auto verif_shape_expand_dims(sv_t shape, int axis) { return ix::shape_expand_dims(shape,axis); }
auto verif_shape_squeeze(sv_t shape) { return ix::shape_squeeze(shape); }
// atleast_1d / atleast_2d / atleast_nd with a compile-time nd as view::atleast_1d/2d pass it (a run-time nd yields std::vector: not instantiated)
auto verif_shape_atleast_1d(sv_t shape) { return ix::shape_atleast_nd(shape,nm::meta::ct_v<1>); }
auto verif_shape_atleast_2d(sv_t shape) { return ix::shape_atleast_nd(shape,nm::meta::ct_v<2>); }
auto verif_shape_atleast_3d(sv_t shape) { return ix::shape_atleast_nd(shape,nm::meta::ct_v<3>); }
auto verif_shape_flatten(sv_t shape) { return ix::shape_flatten(shape,nm::None); }

// ---- moveaxis / swapaxes -> transpose axes
// swapaxes: view::swapaxes passes dim<true>(array); a bounded-dim array gives a clipped integer (run-time dim would yield std::vector)
auto verif_swapaxes_to_transpose(nm_size_t dim, int axis1, int axis2) { return ix::swapaxes_to_transpose(nm::clipped_size_t<8>(dim),axis1,axis2); }
auto verif_moveaxis_to_transpose(sv_t shape, int source, int destination) { return ix::moveaxis_to_transpose(shape,source,destination); }
// moveaxis with axis LISTS (normalize_axis on both lists, argsort of the destinations, repeated shift-insert):
//   fixed list length 2 (nmtools_array<int,2>: the list loops are constant-trip, the rank stays symbolic) and
//   bounded lists utl::static_vector<int,8> (symbolic length 0..8)
using ai2_t = nmtools_array<int,2>;
auto verif_moveaxis_to_transpose_l2(sv_t shape, ai2_t source, ai2_t destination) { return ix::moveaxis_to_transpose(shape,source,destination); }
auto verif_moveaxis_to_transpose_list(sv_t shape, svi_t source, svi_t destination) { return ix::moveaxis_to_transpose(shape,source,destination); }

// ---- flip: view::flip(a,axis) = apply_slice(a, flip_slices(dim<true>(a), axis)); slice (None,None,-1) on the flipped axes.
//      dim as a compile-time constant (fixed-dim arrays; a run-time dim yields std::vector, a clipped dim does not compile: flip.hpp:74)
auto verif_flip_slices3(int axis) { return ix::flip_slices(nm::meta::ct_v<3>,axis); }
auto verif_flip_slices3_axes(svi_t axes) { return ix::flip_slices(nm::meta::ct_v<3>,axes); }
auto verif_flip_slices3_none() { return ix::flip_slices(nm::meta::ct_v<3>,nm::None); }
