// Instantiation TU for C01: by-value entry wrappers calling the real templates.
#include "nmtools/array/index/compute_strides.hpp"
#include "nmtools/array/index/compute_offset.hpp"
#include "nmtools/array/index/compute_indices.hpp"
#include "nmtools/array/index/product.hpp"

namespace nm = nmtools;
namespace ix = nmtools::index;
using sv_t = nmtools::utl::static_vector<nm_size_t,8>;

nm_size_t verif_stride(sv_t shape, nm_size_t k) { return ix::stride(shape,k); }
sv_t verif_compute_strides(sv_t shape) { return ix::compute_strides(shape); }
nm_size_t verif_compute_offset(sv_t indices, sv_t strides) { return ix::compute_offset(indices,strides); }
sv_t verif_compute_indices3(nm_size_t offset, sv_t shape, sv_t strides) { return ix::compute_indices(offset,shape,strides); }
sv_t verif_compute_indices2(nm_size_t offset, sv_t shape) { return ix::compute_indices(offset,shape); }
nm_size_t verif_product(sv_t shape) { return ix::product(shape); }
#include "nmtools/array/index/ndindex.hpp"
sv_t verif_ndindex_at(sv_t shape, nm_size_t i) { auto nd = ix::ndindex(shape); return nd[i]; }
nm_size_t verif_ndindex_size(sv_t shape) { auto nd = ix::ndindex(shape); return nd.size(); }
