// Instantiation TU for C20, column-major generic ndarray (separate TU: ndarray_t<B,S> with and without the layout argument
// cannot be told apart in clang's sugared type strings).  Same component-wise wrappers as inst/c20.cpp.
#include "nmtools/array/ndarray/ndarray.hpp"
#include "nmtools/utl/static_vector.hpp"

namespace nm = nmtools;
using fb6_t = nmtools::utl::static_vector<float,6>;
using sv4_t = nmtools::utl::static_vector<nm_size_t,4>;
using ndc_t = nmtools::array::column_major_ndarray_t<fb6_t,sv4_t>;
struct ndc_res { ndc_t a; bool ok; };
using ndc_res_t = ndc_res;

static inline void put4(sv4_t& d, const sv4_t& s) { d.resize(s.size()); d[0]=s[0]; d[1]=s[1]; d[2]=s[2]; d[3]=s[3]; }
static inline void put6(fb6_t& d, const fb6_t& s) { d.resize(s.size()); d[0]=s[0]; d[1]=s[1]; d[2]=s[2]; d[3]=s[3]; d[4]=s[4]; d[5]=s[5]; }

ndc_t verif_ndc_mk(fb6_t data, sv4_t shape, sv4_t strides, sv4_t oshape, sv4_t ostrides)
{
    ndc_t a;
    put6(a.data_, data); put4(a.shape_, shape); put4(a.strides_, strides);
    put4(a.offset_.shape_, oshape); put4(a.offset_.strides_, ostrides);
    return a;
}
ndc_t verif_ndc_default() { return ndc_t{}; }
ndc_res verif_ndc_resize(fb6_t data, sv4_t shape, sv4_t strides, sv4_t oshape, sv4_t ostrides, sv4_t new_shape)
{
    ndc_t a = verif_ndc_mk(data,shape,strides,oshape,ostrides);
    bool ok = a.resize(new_shape);
    return {a, ok};
}
