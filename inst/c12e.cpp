// Instantiation TU for C12, evaluator part: the REAL packed loop + scalar tail of evaluator_t<view, simd_base_t<tag>>::eval_unary
// (eval/simd/evaluator/ufunc.hpp:38-86), instantiated with ABSTRACT operands (DESIGN.md 4.6):
//  * a 1-d array `verif_arr` (n <= 32 elements) for input and output; the operations eval_unary performs on its operands
//    (nmtools::shape, nmtools::data, apply_at) are declared here for the abstract types BEFORE the header (qualified calls bind at
//    the template's definition; apply_at is found by argument-dependent lookup);
//  * an abstract SIMD context `verif_tag<N*32>`: a pack is N float lanes; loadu/storeu move N consecutive elements (every lane
//    access is a checked memory access), eval applies the scalar op lane by lane.  No intrinsics are involved.
// What is verified is the loop structure of eval_unary itself: `for (i=0; (i+N)<=size; i+=N)` + `for (i=(size/N)*N; i<size; i++)`.
#include "nmtools/def.hpp"
#include <array>
#include <tuple>
struct verif_arr { nm_size_t n; float buf[32]; };      // buf is the last member: an access past buf[31] leaves the object
using verif_arr_t = verif_arr;
using s1_t = std::array<nm_size_t,1>;
struct verif_op { float operator()(float x) const { return -x; } };   // the scalar operation (any total function of one element)
struct verif_view {
    using op_type = verif_op;
    std::tuple<const verif_arr*> array;
    verif_op op;
};
namespace nmtools {
    inline s1_t shape(const verif_arr& a)  { return s1_t{a.n}; }
    inline s1_t shape(const verif_view& v) { return s1_t{std::get<0>(v.array)->n}; }
    inline const float* data(const verif_arr& a) { return a.buf; }
    inline float*       data(verif_arr& a)       { return a.buf; }
}
// element access by a 1-d index (scalar tail): output(idx) / view(idx) = op(input(idx))
template <typename index_t> inline float& apply_at(verif_arr& a, const index_t& idx) { return a.buf[idx[0]]; }
template <typename index_t> inline float  apply_at(const verif_view& v, const index_t& idx) { return v.op(std::get<0>(v.array)->buf[idx[0]]); }

#include "nmtools/array/eval/simd/evaluator/ufunc.hpp"

template <int n_bit> struct verif_tag {};
struct verif_resolver {};
struct verif_pack4 { float lane[4]; };
struct verif_pack8 { float lane[8]; };
namespace nmtools::meta {
    template <> struct get_element_type<verif_arr> { using type = float; };
}
namespace nmtools::array::simd {
    template <> struct ufunc_simd_t<verif_op,verif_tag<128>,float>
    {
        static constexpr inline auto bit_width = 128;
        verif_op op;
        verif_pack4 loadu(const float* p) const { verif_pack4 r; r.lane[0]=p[0]; r.lane[1]=p[1]; r.lane[2]=p[2]; r.lane[3]=p[3]; return r; }
        verif_pack4 eval(verif_pack4 a) const { verif_pack4 r; r.lane[0]=op(a.lane[0]); r.lane[1]=op(a.lane[1]); r.lane[2]=op(a.lane[2]); r.lane[3]=op(a.lane[3]); return r; }
        void storeu(float* p, verif_pack4 a) const { p[0]=a.lane[0]; p[1]=a.lane[1]; p[2]=a.lane[2]; p[3]=a.lane[3]; }
    };
    template <> struct ufunc_simd_t<verif_op,verif_tag<256>,float>
    {
        static constexpr inline auto bit_width = 256;
        verif_op op;
        verif_pack8 loadu(const float* p) const { verif_pack8 r; r.lane[0]=p[0]; r.lane[1]=p[1]; r.lane[2]=p[2]; r.lane[3]=p[3]; r.lane[4]=p[4]; r.lane[5]=p[5]; r.lane[6]=p[6]; r.lane[7]=p[7]; return r; }
        verif_pack8 eval(verif_pack8 a) const { verif_pack8 r; r.lane[0]=op(a.lane[0]); r.lane[1]=op(a.lane[1]); r.lane[2]=op(a.lane[2]); r.lane[3]=op(a.lane[3]); r.lane[4]=op(a.lane[4]); r.lane[5]=op(a.lane[5]); r.lane[6]=op(a.lane[6]); r.lane[7]=op(a.lane[7]); return r; }
        void storeu(float* p, verif_pack8 a) const { p[0]=a.lane[0]; p[1]=a.lane[1]; p[2]=a.lane[2]; p[3]=a.lane[3]; p[4]=a.lane[4]; p[5]=a.lane[5]; p[6]=a.lane[6]; p[7]=a.lane[7]; }
    };
}
namespace na = nmtools::array;
struct verif_eval_res { verif_arr out; bool ok; };
using verif_eval_res_t = verif_eval_res;

verif_eval_res verif_eval_unary_4(verif_arr inp, verif_arr out)
{
    verif_view v{ {&inp}, verif_op{} };
    na::simd_base_t<verif_tag<128>> ctx;
    na::evaluator_t<verif_view,na::simd_base_t<verif_tag<128>>,verif_resolver> ev{v,ctx};
    bool ok = ev.eval_unary(out);
    return {out, ok};
}
verif_eval_res verif_eval_unary_8(verif_arr inp, verif_arr out)
{
    verif_view v{ {&inp}, verif_op{} };
    na::simd_base_t<verif_tag<256>> ctx;
    na::evaluator_t<verif_view,na::simd_base_t<verif_tag<256>>,verif_resolver> ev{v,ctx};
    bool ok = ev.eval_unary(out);
    return {out, ok};
}
