// Instantiation TU for C07, the scalar operations of the ufunc functors (view::fun::* / view::*_t<>): each wrapper applies the real functor
// to scalars.  Generated table: name, functor, reference (C / <cmath>) operation -- see spec/c07u.h.
#include "nmtools/array/view/ufuncs/add.hpp"
#include "nmtools/array/view/ufuncs/arccos.hpp"
#include "nmtools/array/view/ufuncs/arccosh.hpp"
#include "nmtools/array/view/ufuncs/arcsin.hpp"
#include "nmtools/array/view/ufuncs/arcsinh.hpp"
#include "nmtools/array/view/ufuncs/arctan.hpp"
#include "nmtools/array/view/ufuncs/arctan2.hpp"
#include "nmtools/array/view/ufuncs/arctanh.hpp"
#include "nmtools/array/view/ufuncs/bitwise_and.hpp"
#include "nmtools/array/view/ufuncs/bitwise_or.hpp"
#include "nmtools/array/view/ufuncs/bitwise_xor.hpp"
#include "nmtools/array/view/ufuncs/cbrt.hpp"
#include "nmtools/array/view/ufuncs/ceil.hpp"
#include "nmtools/array/view/ufuncs/cos.hpp"
#include "nmtools/array/view/ufuncs/cosh.hpp"
#include "nmtools/array/view/ufuncs/divide.hpp"
#include "nmtools/array/view/ufuncs/equal.hpp"
#include "nmtools/array/view/ufuncs/exp.hpp"
#include "nmtools/array/view/ufuncs/exp2.hpp"
#include "nmtools/array/view/ufuncs/expm1.hpp"
#include "nmtools/array/view/ufuncs/fabs.hpp"
#include "nmtools/array/view/ufuncs/floor.hpp"
#include "nmtools/array/view/ufuncs/fmax.hpp"
#include "nmtools/array/view/ufuncs/fmin.hpp"
#include "nmtools/array/view/ufuncs/fmod.hpp"
#include "nmtools/array/view/ufuncs/greater.hpp"
#include "nmtools/array/view/ufuncs/greater_equal.hpp"
#include "nmtools/array/view/ufuncs/hypot.hpp"
#include "nmtools/array/view/ufuncs/invert.hpp"
#include "nmtools/array/view/ufuncs/left_shift.hpp"
#include "nmtools/array/view/ufuncs/less.hpp"
#include "nmtools/array/view/ufuncs/less_equal.hpp"
#include "nmtools/array/view/ufuncs/log.hpp"
#include "nmtools/array/view/ufuncs/log10.hpp"
#include "nmtools/array/view/ufuncs/log1p.hpp"
#include "nmtools/array/view/ufuncs/log2.hpp"
#include "nmtools/array/view/ufuncs/logical_and.hpp"
#include "nmtools/array/view/ufuncs/logical_not.hpp"
#include "nmtools/array/view/ufuncs/logical_or.hpp"
#include "nmtools/array/view/ufuncs/logical_xor.hpp"
#include "nmtools/array/view/ufuncs/maximum.hpp"
#include "nmtools/array/view/ufuncs/minimum.hpp"
#include "nmtools/array/view/ufuncs/mod.hpp"
#include "nmtools/array/view/ufuncs/multiply.hpp"
#include "nmtools/array/view/ufuncs/negative.hpp"
#include "nmtools/array/view/ufuncs/not_equal.hpp"
#include "nmtools/array/view/ufuncs/positive.hpp"
#include "nmtools/array/view/ufuncs/power.hpp"
#include "nmtools/array/view/ufuncs/reciprocal.hpp"
#include "nmtools/array/view/ufuncs/right_shift.hpp"
#include "nmtools/array/view/ufuncs/rint.hpp"
#include "nmtools/array/view/ufuncs/sin.hpp"
#include "nmtools/array/view/ufuncs/sinh.hpp"
#include "nmtools/array/view/ufuncs/sqrt.hpp"
#include "nmtools/array/view/ufuncs/square.hpp"
#include "nmtools/array/view/ufuncs/subtract.hpp"
#include "nmtools/array/view/ufuncs/tan.hpp"
#include "nmtools/array/view/ufuncs/tanh.hpp"
#include "nmtools/array/view/ufuncs/trunc.hpp"
namespace view = nmtools::view; namespace fun = nmtools::view::fun;
float verif_uf_f_add(float t, float u) { return (float)fun::add<>{}(t, u); }
float verif_uf_f_subtract(float t, float u) { return (float)fun::subtract<>{}(t, u); }
float verif_uf_f_multiply(float t, float u) { return (float)fun::multiply<>{}(t, u); }
float verif_uf_f_divide(float t, float u) { return (float)fun::divide{}(t, u); }
float verif_uf_f_arctan2(float t, float u) { return (float)fun::arctan2{}(t, u); }
float verif_uf_f_hypot(float t, float u) { return (float)fun::hypot{}(t, u); }
float verif_uf_f_fmod(float t, float u) { return (float)view::fmod_t<>{}(t, u); }
float verif_uf_f_maximum(float t, float u) { return (float)view::maximum_t<>{}(t, u); }
float verif_uf_f_minimum(float t, float u) { return (float)view::minimum_t<>{}(t, u); }
float verif_uf_f_fmax(float t, float u) { return (float)view::fmax_t<>{}(t, u); }
float verif_uf_f_fmin(float t, float u) { return (float)view::fmin_t<>{}(t, u); }
float verif_uf_f_power(float t, float u) { return (float)view::power_t<>{}(t, u); }
float verif_uf_f_arccos(float t) { return (float)fun::arccos{}(t); }
float verif_uf_f_arccosh(float t) { return (float)fun::arccosh{}(t); }
float verif_uf_f_arcsin(float t) { return (float)fun::arcsin{}(t); }
float verif_uf_f_arcsinh(float t) { return (float)fun::arcsinh{}(t); }
float verif_uf_f_arctan(float t) { return (float)fun::arctan{}(t); }
float verif_uf_f_arctanh(float t) { return (float)fun::arctanh{}(t); }
float verif_uf_f_cbrt(float t) { return (float)fun::cbrt{}(t); }
float verif_uf_f_ceil(float t) { return (float)fun::ceil{}(t); }
float verif_uf_f_cos(float t) { return (float)fun::cos{}(t); }
float verif_uf_f_cosh(float t) { return (float)fun::cosh{}(t); }
float verif_uf_f_exp(float t) { return (float)fun::exp{}(t); }
float verif_uf_f_exp2(float t) { return (float)fun::exp2{}(t); }
float verif_uf_f_expm1(float t) { return (float)fun::expm1{}(t); }
float verif_uf_f_fabs(float t) { return (float)fun::fabs{}(t); }
float verif_uf_f_floor(float t) { return (float)fun::floor{}(t); }
float verif_uf_f_log(float t) { return (float)fun::log{}(t); }
float verif_uf_f_log10(float t) { return (float)fun::log10{}(t); }
float verif_uf_f_log1p(float t) { return (float)fun::log1p{}(t); }
float verif_uf_f_log2(float t) { return (float)fun::log2{}(t); }
float verif_uf_f_rint(float t) { return (float)fun::rint{}(t); }
float verif_uf_f_sin(float t) { return (float)fun::sin{}(t); }
float verif_uf_f_sinh(float t) { return (float)fun::sinh{}(t); }
float verif_uf_f_sqrt(float t) { return (float)fun::sqrt{}(t); }
float verif_uf_f_tan(float t) { return (float)fun::tan{}(t); }
float verif_uf_f_tanh(float t) { return (float)fun::tanh{}(t); }
float verif_uf_f_trunc(float t) { return (float)fun::trunc{}(t); }
float verif_uf_f_negative(float t) { return (float)fun::negative{}(t); }
float verif_uf_f_positive(float t) { return (float)fun::positive{}(t); }
float verif_uf_f_square(float t) { return (float)fun::square{}(t); }
float verif_uf_f_reciprocal(float t) { return (float)fun::reciprocal{}(t); }
bool verif_uf_f_less(float t, float u) { return (bool)fun::less{}(t, u); }
bool verif_uf_f_less_equal(float t, float u) { return (bool)fun::less_equal{}(t, u); }
bool verif_uf_f_greater(float t, float u) { return (bool)fun::greater{}(t, u); }
bool verif_uf_f_greater_equal(float t, float u) { return (bool)fun::greater_equal{}(t, u); }
bool verif_uf_f_equal(float t, float u) { return (bool)fun::equal{}(t, u); }
bool verif_uf_f_not_equal(float t, float u) { return (bool)fun::not_equal{}(t, u); }
int verif_uf_i_add(int t, int u) { return (int)fun::add<>{}(t, u); }
int verif_uf_i_subtract(int t, int u) { return (int)fun::subtract<>{}(t, u); }
int verif_uf_i_bitwise_and(int t, int u) { return (int)fun::bitwise_and{}(t, u); }
int verif_uf_i_bitwise_or(int t, int u) { return (int)fun::bitwise_or{}(t, u); }
int verif_uf_i_bitwise_xor(int t, int u) { return (int)fun::bitwise_xor{}(t, u); }
int verif_uf_i_left_shift(int t, int u) { return (int)view::left_shift_t<>{}(t, u); }
int verif_uf_i_right_shift(int t, int u) { return (int)view::right_shift_t<>{}(t, u); }
int verif_uf_i_mod(int t, int u) { return (int)fun::mod{}(t, u); }
int verif_uf_i_maximum(int t, int u) { return (int)view::maximum_t<>{}(t, u); }
int verif_uf_i_minimum(int t, int u) { return (int)view::minimum_t<>{}(t, u); }
int verif_uf_i_invert(int t) { return (int)fun::invert{}(t); }
int verif_uf_i_negative(int t) { return (int)fun::negative{}(t); }
int verif_uf_i_square(int t) { return (int)fun::square{}(t); }
bool verif_uf_i_logical_and(int t, int u) { return (bool)fun::logical_and{}(t, u); }
bool verif_uf_i_logical_or(int t, int u) { return (bool)fun::logical_or{}(t, u); }
bool verif_uf_i_logical_xor(int t, int u) { return (bool)fun::logical_xor{}(t, u); }
bool verif_uf_i_logical_not(int t) { return (bool)fun::logical_not{}(t); }
