// Instantiation TU for C07, concrete-geometry bounded units: real element-wise views (broadcast_binary_ufunc / ufunc_t / outer_t /
// scalar operands) evaluated end to end on small arrays of concrete shape with symbolic elements.
#include "nmtools/array/view/ufuncs/add.hpp"
#include "nmtools/array/view/ufuncs/subtract.hpp"
#include "nmtools/array/view/ufuncs/multiply.hpp"
#include "nmtools/array/view/ufuncs/less.hpp"
#include "nmtools/array/view/ufuncs/negative.hpp"
#include "nmtools/array/view/ufuncs/maximum.hpp"
#include "nmtools/array/eval.hpp"
#include "nmtools/array/ndarray.hpp"
#include "nmtools/utility/unwrap.hpp"
namespace nm = nmtools; namespace na = nmtools::array; namespace view = nmtools::view;
using ib6_t = nm::utl::static_vector<int,6>;
using cb6_t = nm::utl::static_vector<signed char,6>;
using bb6_t = nm::utl::static_vector<bool,6>;
using sv4_t = nm::utl::static_vector<nm_size_t,4>;
using ndi_t = na::ndarray_t<ib6_t,sv4_t>;
using ndc_t = na::ndarray_t<cb6_t,sv4_t>;
using ndb_t = na::ndarray_t<bb6_t,sv4_t>;

static inline sv4_t sh1(nm_size_t a) { sv4_t s; s.resize(1); s[0] = a; return s; }
static inline sv4_t sh2(nm_size_t a, nm_size_t b) { sv4_t s; s.resize(2); s[0] = a; s[1] = b; return s; }
template <typename nd_t, typename buf_t> static inline void fill(nd_t& a, const sv4_t& s, const buf_t& data, nm_size_t n)
{ a.resize(s); for (nm_size_t i = 0; i < n; i++) a.data_[i] = data[i]; }
template <typename view_t, typename out_t> static inline void run(const view_t& v, out_t& out)
{ auto ev = na::evaluator(v, nm::None); ev(out); }

// subtract: (2,3) - (3): broadcasting along the leading axis (non-commutative: operand order matters)
ib6_t verif_sub_broadcast(ib6_t a, ib6_t b /* 3 live */)
{
    ndi_t x, y, out; fill(x, sh2(2,3), a, 6); fill(y, sh1(3), b, 3); out.resize(sh2(2,3));
    auto m = view::subtract(x, y); auto v = nm::unwrap(m);
    run(v, out); return out.data_;
}
// subtract: (2,1) - (1,3): both operands stretched
ib6_t verif_sub_broadcast_both(ib6_t a /* 2 live */, ib6_t b /* 3 live */)
{
    ndi_t x, y, out; fill(x, sh2(2,1), a, 2); fill(y, sh2(1,3), b, 3); out.resize(sh2(2,3));
    auto m = view::subtract(x, y); auto v = nm::unwrap(m);
    run(v, out); return out.data_;
}
// array - scalar and scalar - array
ib6_t verif_sub_scalar_rhs(ib6_t a, int k)
{
    ndi_t x, out; fill(x, sh2(2,3), a, 6); out.resize(sh2(2,3));
    auto m = view::subtract(x, k); auto v = nm::unwrap(m);
    run(v, out); return out.data_;
}
ib6_t verif_sub_scalar_lhs(int k, ib6_t a)
{
    ndi_t x, out; fill(x, sh2(2,3), a, 6); out.resize(sh2(2,3));
    auto m = view::subtract(k, x); auto v = nm::unwrap(m);
    run(v, out); return out.data_;
}
// mixed element types: signed char + int is computed in int
ib6_t verif_add_mixed(cb6_t a, ib6_t b)
{
    ndc_t x; ndi_t y, out; fill(x, sh2(2,3), a, 6); fill(y, sh2(2,3), b, 6); out.resize(sh2(2,3));
    auto m = view::add(x, y); auto v = nm::unwrap(m);
    run(v, out); return out.data_;
}
// comparison: element type bool
bb6_t verif_less(ib6_t a, ib6_t b /* 3 live */)
{
    ndi_t x, y; ndb_t out; fill(x, sh2(2,3), a, 6); fill(y, sh1(3), b, 3); out.resize(sh2(2,3));
    auto m = view::less(x, y); auto v = nm::unwrap(m);
    run(v, out); return out.data_;
}
// unary
ib6_t verif_negative(ib6_t a)
{
    ndi_t x, out; fill(x, sh2(2,3), a, 6); out.resize(sh2(2,3));
    auto v = view::negative(x);
    run(v, out); return out.data_;
}
// outer: (2) x (3) -> (2,3), element (i,j) = a[i] - b[j]
ib6_t verif_outer_sub(ib6_t a /* 2 live */, ib6_t b /* 3 live */)
{
    ndi_t x, y, out; fill(x, sh1(2), a, 2); fill(y, sh1(3), b, 3); out.resize(sh2(2,3));
    auto m = view::outer_subtract(x, y); auto v = nm::unwrap(m);
    run(v, out); return out.data_;
}
// all-scalar operands
int verif_sub_scalars(int a, int b) { return (int)view::subtract(a, b); }
// ternary: where(cond (2,3), x (3), y (2,1)) with float operands (any bit pattern: NaN / inf included)
#include "nmtools/array/view/where.hpp"
using fb6_t = nm::utl::static_vector<float,6>;
using ndf_t = na::ndarray_t<fb6_t,sv4_t>;
fb6_t verif_where(bb6_t c, fb6_t x /* 3 live */, fb6_t y /* 2 live */)
{
    ndb_t cc; ndf_t xx, yy; fill(cc, sh2(2,3), c, 6); fill(xx, sh1(3), x, 3); fill(yy, sh2(2,1), y, 2);
    auto m = view::where(cc, xx, yy); auto v = nm::unwrap(m);
    // (the evaluator cannot infer a result type for this view over bounded buffers: the elements are read through the view directly)
    fb6_t out; out.resize(6);
    for (nm_size_t i = 0; i < 2; i++) for (nm_size_t j = 0; j < 3; j++) out[i*3+j] = v(i,j);
    return out;
}
