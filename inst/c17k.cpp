// Instantiation TU for C17, concrete-geometry bounded units: the real pooling view on small arrays of concrete shape with
// symbolic float elements (float + - * / uninterpreted in unit mode 'fuf': the result must be the same products summed in the same order
// as the direct nested-loop definition).
#include "nmtools/array/view/pooling.hpp"
#include "nmtools/array/ndarray.hpp"
#include "nmtools/utility/unwrap.hpp"
namespace nm = nmtools; namespace na = nmtools::array; namespace view = nmtools::view;
using fb9_t = nm::utl::static_vector<float,9>;
using fb4_t = nm::utl::static_vector<float,4>;
using sv4_t = nm::utl::static_vector<nm_size_t,4>;
using a2_t  = nmtools_array<nm_size_t,2>;
using nd9_t = na::ndarray_t<fb9_t,sv4_t>;
using nd4_t = na::ndarray_t<fb4_t,sv4_t>;
static inline sv4_t sh4(nm_size_t a, nm_size_t b, nm_size_t c, nm_size_t d) { sv4_t s; s.resize(4); s[0]=a; s[1]=b; s[2]=c; s[3]=d; return s; }
// max pooling: input (1,1,3,3), kernel (2,2), stride (2,2), ceil mode -> (1,1,2,2): windows overhang the input
fb4_t verif_max_pool_3x3_ceil(fb9_t in)
{
    nd9_t x; x.resize(sh4(1,1,3,3)); for (nm_size_t i = 0; i < 9; i++) x.data_[i] = in[i];
    auto m = view::max_pool2d(x, a2_t{2,2}, a2_t{2,2}, nm::True); auto v = nm::unwrap(m);
    fb4_t out; out.resize(4);
    for (nm_size_t i = 0; i < 2; i++) for (nm_size_t j = 0; j < 2; j++) out[i*2+j] = v(0,0,i,j);
    return out;
}
