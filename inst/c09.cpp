// Instantiation TU for C09: the same index functions as C01/C06 over FIXED-size containers (kind F:
// nmtools_array<size_t,3> = std::array), which take the meta::template_for branches (different source text from the
// for-loop branches verified for kind B).
#include "nmtools/array/index/compute_strides.hpp"
#include "nmtools/array/index/compute_offset.hpp"
#include "nmtools/array/index/compute_indices.hpp"
#include "nmtools/array/index/product.hpp"
#include "nmtools/array/index/broadcast_shape.hpp"
namespace nm = nmtools;
namespace ix = nmtools::index;
using sv_t = nmtools::utl::static_vector<nm_size_t,8>;
using a3_t = nmtools_array<nm_size_t,3>;

a3_t verif_f_compute_strides(a3_t shape) { return ix::compute_strides(shape); }
nm_size_t verif_f_compute_offset(a3_t indices, a3_t strides) { return ix::compute_offset(indices,strides); }
a3_t verif_f_compute_indices3(nm_size_t offset, a3_t shape, a3_t strides) { return ix::compute_indices(offset,shape,strides); }
nm_size_t verif_f_product(a3_t shape) { return ix::product(shape); }
nm_size_t verif_f_stride(a3_t shape, nm_size_t k) { return ix::stride(shape,k); }
// mixed kinds: fixed indices with bounded strides
nm_size_t verif_m_compute_offset(a3_t indices, sv_t strides) { return ix::compute_offset(indices,strides); }
// fixed-size containers with a 32-bit element type (index math must still be carried out in size_t)
using a3u_t = nmtools_array<unsigned int,3>;
nm_size_t verif_f32_compute_offset(a3u_t indices, a3u_t strides) { return ix::compute_offset(indices,strides); }
nm_size_t verif_m32_compute_offset(a3u_t indices, sv_t strides) { return ix::compute_offset(indices,strides); }

// kind D (dynamic lists, nmtools_list = std::vector): the operands are built from / converted back to bounded vectors inside the
// wrapper (std::vector's layout is not that of the C model, so it cannot be passed by value into the native replay)
using lv_t = nmtools_list<nm_size_t>;
static inline lv_t verif_to_lv(const sv_t& s) { lv_t v; v.resize(s.size()); for (nm_size_t i = 0; i < (nm_size_t)s.size(); i++) v[i] = s[i]; return v; }
static inline sv_t verif_to_sv(const lv_t& v) { sv_t s; s.resize(v.size()); for (nm_size_t i = 0; i < (nm_size_t)v.size(); i++) s[i] = v[i]; return s; }
nm_size_t verif_d_stride(sv_t shape, nm_size_t k) { return ix::stride(verif_to_lv(shape), k); }
sv_t verif_d_compute_strides(sv_t shape) { return verif_to_sv(ix::compute_strides(verif_to_lv(shape))); }
nm_size_t verif_d_compute_offset(sv_t indices, sv_t strides) { return ix::compute_offset(verif_to_lv(indices), verif_to_lv(strides)); }
sv_t verif_d_compute_indices3(nm_size_t offset, sv_t shape, sv_t strides) { return verif_to_sv(ix::compute_indices(offset, verif_to_lv(shape), verif_to_lv(strides))); }
nm_size_t verif_d_product(sv_t shape) { return ix::product(verif_to_lv(shape)); }

// normalize_axis with UNSIGNED axis lists (what compile-time literals `0_ct` and size_t containers give): fixed length 2 and bounded list
#include "nmtools/array/index/normalize_axis.hpp"
using a2u_t = nmtools_array<nm_size_t,2>;
using opt_a2u_t = decltype(ix::normalize_axis(nm::meta::declval<const a2u_t&>(), nm_size_t{}));
opt_a2u_t verif_u_normalize_axes2(a2u_t axes, nm_size_t ndim) { return ix::normalize_axis(axes,ndim); }

// shape_reshape with a COMPILE-TIME constant destination (tuple of integral constants) and a run-time source: three representative
// constants; the answer must be the one the run-time kinds give for the same values (NumPy reshape rules, C03)
#include "nmtools/array/index/reshape.hpp"
struct rs_obs { bool ok; sv_t shape; };
using rs_obs_t = rs_obs;
template <typename R> static inline rs_obs verif_rs_observe(const R& r)
{
    rs_obs o{}; o.ok = static_cast<bool>(r);
    if (o.ok) { auto n = nm::len(*r); o.shape.resize(n); for (nm_size_t i = 0; i < (nm_size_t)n; i++) o.shape[i] = (nm_size_t)nm::at(*r,i); }
    return o;
}
rs_obs verif_ct_reshape_m2_m3(sv_t src) { return verif_rs_observe(ix::shape_reshape(src, nmtools_tuple{nm::meta::ct_v<-2>, nm::meta::ct_v<-3>})); }
rs_obs verif_ct_reshape_2_m1(sv_t src)  { return verif_rs_observe(ix::shape_reshape(src, nmtools_tuple{nm::meta::ct_v<2>, nm::meta::ct_v<-1>})); }
rs_obs verif_ct_reshape_3_2(sv_t src)   { return verif_rs_observe(ix::shape_reshape(src, nmtools_tuple{nm::meta::ct_v<3>, nm::meta::ct_v<2>})); }
