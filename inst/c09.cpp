// Instantiation TU for C09: the same index functions as C01/C06 over FIXED-size containers (kind F:
// nmtools_array<size_t,3> = std::array), which take the meta::template_for branches (different source text from the
// for-loop branches verified for kind B).
#include "nmtools/array/index/compute_strides.hpp"
#include "nmtools/array/index/compute_offset.hpp"
#include "nmtools/array/index/compute_indices.hpp"
#include "nmtools/array/index/product.hpp"
#include "nmtools/array/index/broadcast_shape.hpp"
namespace nm = nmtools;
namespace ix = nmtools::index;
using sv_t = nmtools::utl::static_vector<nm_size_t,8>;
using a3_t = nmtools_array<nm_size_t,3>;

a3_t verif_f_compute_strides(a3_t shape) { return ix::compute_strides(shape); }
nm_size_t verif_f_compute_offset(a3_t indices, a3_t strides) { return ix::compute_offset(indices,strides); }
a3_t verif_f_compute_indices3(nm_size_t offset, a3_t shape, a3_t strides) { return ix::compute_indices(offset,shape,strides); }
nm_size_t verif_f_product(a3_t shape) { return ix::product(shape); }
nm_size_t verif_f_stride(a3_t shape, nm_size_t k) { return ix::stride(shape,k); }
// mixed kinds: fixed indices with bounded strides
nm_size_t verif_m_compute_offset(a3_t indices, sv_t strides) { return ix::compute_offset(indices,strides); }
// fixed-size containers with a 32-bit element type (index math must still be carried out in size_t)
using a3u_t = nmtools_array<unsigned int,3>;
nm_size_t verif_f32_compute_offset(a3u_t indices, a3u_t strides) { return ix::compute_offset(indices,strides); }
nm_size_t verif_m32_compute_offset(a3u_t indices, sv_t strides) { return ix::compute_offset(indices,strides); }

// kind D (dynamic lists, nmtools_list = std::vector): the operands are built from / converted back to bounded vectors inside the
// wrapper (std::vector's layout is not that of the C model, so it cannot be passed by value into the native replay)
using lv_t = nmtools_list<nm_size_t>;
static inline lv_t verif_to_lv(const sv_t& s) { lv_t v; v.resize(s.size()); for (nm_size_t i = 0; i < (nm_size_t)s.size(); i++) v[i] = s[i]; return v; }
static inline sv_t verif_to_sv(const lv_t& v) { sv_t s; s.resize(v.size()); for (nm_size_t i = 0; i < (nm_size_t)v.size(); i++) s[i] = v[i]; return s; }
nm_size_t verif_d_stride(sv_t shape, nm_size_t k) { return ix::stride(verif_to_lv(shape), k); }
sv_t verif_d_compute_strides(sv_t shape) { return verif_to_sv(ix::compute_strides(verif_to_lv(shape))); }
nm_size_t verif_d_compute_offset(sv_t indices, sv_t strides) { return ix::compute_offset(verif_to_lv(indices), verif_to_lv(strides)); }
sv_t verif_d_compute_indices3(nm_size_t offset, sv_t shape, sv_t strides) { return verif_to_sv(ix::compute_indices(offset, verif_to_lv(shape), verif_to_lv(strides))); }
nm_size_t verif_d_product(sv_t shape) { return ix::product(verif_to_lv(shape)); }
