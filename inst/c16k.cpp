// Instantiation TU for C16, concrete-geometry bounded units: the real linear-algebra views evaluated on small arrays of concrete shape
// with symbolic float elements (float + - * / uninterpreted in unit mode 'fuf': the result must be the same products summed in the
// same order as the reference definition).
#include "nmtools/array/view/outer.hpp"
#include "nmtools/array/ndarray.hpp"
#include "nmtools/utility/unwrap.hpp"
namespace nm = nmtools; namespace na = nmtools::array; namespace view = nmtools::view;
using fb6_t = nm::utl::static_vector<float,6>;
using sv4_t = nm::utl::static_vector<nm_size_t,4>;
using ndf_t = na::ndarray_t<fb6_t,sv4_t>;
static inline sv4_t sh1(nm_size_t a) { sv4_t s; s.resize(1); s[0] = a; return s; }
static inline sv4_t sh2(nm_size_t a, nm_size_t b) { sv4_t s; s.resize(2); s[0] = a; s[1] = b; return s; }
static inline void fill(ndf_t& a, const sv4_t& s, const fb6_t& data, nm_size_t n)
{ a.resize(s); for (nm_size_t i = 0; i < n; i++) a.data_[i] = data[i]; }

// outer (NumPy outer of two vectors): (2) x (3) -> (2,3)
fb6_t verif_outer_2_3(fb6_t a /* 2 live */, fb6_t b /* 3 live */)
{
    ndf_t x, y; fill(x, sh1(2), a, 2); fill(y, sh1(3), b, 3);
    auto m = view::outer(x, y); auto v = nm::unwrap(m);
    fb6_t out; out.resize(6);
    for (nm_size_t i = 0; i < 2; i++) for (nm_size_t j = 0; j < 3; j++) out[i*3+j] = v(i,j);
    return out;
}

