// Instantiation TU for C07 (element-wise functions, index side only): by-value entry wrappers calling the real templates.
#include "nmtools/array/index/product.hpp"     // index/ufunc.hpp uses index::product without including it
#include "nmtools/array/index/ufunc.hpp"
#include "nmtools/array/index/outer.hpp"
#include "nmtools/array/index/broadcast_shape.hpp"
namespace nm = nmtools;
namespace ix = nmtools::index;
using sv_t     = nmtools::utl::static_vector<nm_size_t,8>;
using hn16_t   = nmtools::array::static_vector<size_t,16>;          // shape_outer(sv_t, sv_t): bounded sizes add up (= hybrid_ndarray<size_t,16,1>)
using hn_t     = nmtools::array::hybrid_ndarray<nm_size_t,8,1>;     // index::broadcast_shape(sv_t, sv_t)
using opt_sv_t = nmtools_maybe<sv_t>;
using opt_hn_t = nmtools_maybe<hn_t>;
using split_t  = nmtools_tuple<sv_t,sv_t>;                          // index::outer: (index into a, index into b)
// type names used by the (here unused) wrapper predicates of spec/c06.h; the broadcast rule itself is reused from there
using svb_t     = nmtools::utl::static_vector<bool,8>;
using opt_bto_t = nmtools_maybe<nmtools_tuple<sv_t,svb_t>>;

// ---- shape_ufunc: the shape of a ufunc view over operands that view::ufunc / broadcast_binary_ufunc have already broadcast
//      against each other (view::broadcast_arrays), i.e. over operands of one common shape
opt_sv_t verif_shape_ufunc1(sv_t a) { return ix::shape_ufunc(a); }
opt_sv_t verif_shape_ufunc2(sv_t a, sv_t b) { return ix::shape_ufunc(a,b); }
opt_sv_t verif_shape_ufunc3(sv_t a, sv_t b, sv_t d) { return ix::shape_ufunc(a,b,d); }
// the chain of view::ufunc(op,a,b) at the level of shapes: bcast = broadcast_shape(shape(a),shape(b)); Nothing if incompatible;
// both operands become broadcast_to views of shape *bcast; the ufunc view's shape is shape_ufunc(*bcast,*bcast)
opt_hn_t verif_ufunc_shape(sv_t a, sv_t b)
{
    auto bcast = ix::broadcast_shape(a,b);
    if (!bcast) return opt_hn_t{nm::meta::Nothing};
    return ix::shape_ufunc(*bcast,*bcast);
}
nm_size_t verif_size_ufunc(sv_t dst_shape, nm_size_t a_size, nm_size_t b_size) { return ix::size_ufunc(dst_shape,a_size,b_size); }

// ---- outer: shape(a) ++ shape(b); the index is split at len(shape(a))
hn16_t verif_shape_outer(sv_t a, sv_t b) { return ix::shape_outer(a,b); }
nm_size_t verif_size_outer(hn16_t dst_shape, nm_size_t a_size, nm_size_t b_size) { return ix::size_outer(dst_shape,a_size,b_size); }
split_t verif_outer(hn16_t idx, sv_t ashape, sv_t bshape) { return ix::outer(idx,ashape,bshape); }
