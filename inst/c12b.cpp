// Instantiation TU for C12, evaluator part, binary ufuncs: the REAL evaluator_t<view, simd_base_t<tag>>::eval_binary
// (eval/simd/evaluator/ufunc.hpp: shape guard, SAME_SHAPE packed loop + tail, BROADCASTED_2D loop over the real
// index::binary_2d_simd_enumerator) instantiated with ABSTRACT operands (DESIGN.md 4.6), as inst/c12e.cpp does for eval_unary:
//  * 2-d arrays `verif_arr2` (run-time shape (r,c), at most 16 unsigned ints) for both operands and the output;
//  * an abstract 4-lane SIMD context `verif_tag<128>`: loadu / storeu move 4 consecutive elements (checked accesses), set1 replicates,
//    eval applies the scalar op lane by lane.  No intrinsics are involved.
#include "nmtools/def.hpp"
#include <array>
#include <tuple>
using s2_t = std::array<nm_size_t,2>;
struct verif_arr2 { s2_t shp; unsigned buf[16]; };          // buf is the last member: an access past buf[15] leaves the object
using verif_arr2_t = verif_arr2;
struct verif_op2 { unsigned operator()(unsigned x, unsigned y) const { return x - y; } };   // non-commutative (modular): operand order is observable
struct verif_view2 {
    using op_type = verif_op2;
    std::tuple<const verif_arr2*, const verif_arr2*> array;
    verif_op2 op;
    s2_t shp;                                             // the broadcast shape of the two operands
};
namespace nmtools {
    inline s2_t shape(const verif_arr2& a)  { return a.shp; }
    inline s2_t shape(const verif_view2& v) { return v.shp; }
    inline const unsigned* data(const verif_arr2& a) { return a.buf; }
    inline unsigned*       data(verif_arr2& a)       { return a.buf; }
}
// element access by a 2-d index (scalar tail of the SAME_SHAPE case)
template <typename index_t> inline unsigned& apply_at(verif_arr2& a, const index_t& idx) { return a.buf[idx[0]*a.shp[1] + idx[1]]; }
template <typename index_t> inline unsigned  apply_at(const verif_view2& v, const index_t& idx)
{
    const verif_arr2* l = std::get<0>(v.array); const verif_arr2* r = std::get<1>(v.array);
    auto li = (l->shp[0] == 1 ? 0 : idx[0]) * l->shp[1] + (l->shp[1] == 1 ? 0 : idx[1]);
    auto ri = (r->shp[0] == 1 ? 0 : idx[0]) * r->shp[1] + (r->shp[1] == 1 ? 0 : idx[1]);
    return v.op(l->buf[li], r->buf[ri]);
}

#include "nmtools/array/eval/simd/evaluator/ufunc.hpp"

template <int n_bit> struct verif_tag {};
struct verif_resolver {};
struct verif_pack4 { unsigned lane[4]; };
namespace nmtools::meta {
    template <> struct get_element_type<verif_arr2> { using type = unsigned; };
}
namespace nmtools::array {
    template <> struct get_array_t<verif_view2> { constexpr auto operator()(const verif_view2& v) const { return v.array; } };
}
namespace nmtools::array::simd {
    template <> struct ufunc_simd_t<verif_op2,verif_tag<128>,unsigned>
    {
        static constexpr inline auto bit_width = 128;
        verif_op2 op;
        verif_pack4 loadu(const unsigned* p) const { verif_pack4 r; r.lane[0]=p[0]; r.lane[1]=p[1]; r.lane[2]=p[2]; r.lane[3]=p[3]; return r; }
        verif_pack4 set1(unsigned x) const { verif_pack4 r; r.lane[0]=x; r.lane[1]=x; r.lane[2]=x; r.lane[3]=x; return r; }
        verif_pack4 eval(verif_pack4 a, verif_pack4 b) const { verif_pack4 r; r.lane[0]=op(a.lane[0],b.lane[0]); r.lane[1]=op(a.lane[1],b.lane[1]); r.lane[2]=op(a.lane[2],b.lane[2]); r.lane[3]=op(a.lane[3],b.lane[3]); return r; }
        void storeu(unsigned* p, verif_pack4 a) const { p[0]=a.lane[0]; p[1]=a.lane[1]; p[2]=a.lane[2]; p[3]=a.lane[3]; }
    };
}
namespace na = nmtools::array;
struct verif_eval2_res { verif_arr2 out; bool ok; };
using verif_eval2_res_t = verif_eval2_res;

verif_eval2_res verif_eval_binary_4(verif_arr2 lhs, verif_arr2 rhs, verif_arr2 out)
{
    s2_t vs{ lhs.shp[0] > rhs.shp[0] ? lhs.shp[0] : rhs.shp[0], lhs.shp[1] > rhs.shp[1] ? lhs.shp[1] : rhs.shp[1] };
    verif_view2 v{ {&lhs, &rhs}, verif_op2{}, vs };
    na::simd_base_t<verif_tag<128>> ctx;
    na::evaluator_t<verif_view2,na::simd_base_t<verif_tag<128>>,verif_resolver> ev{v,ctx};
    bool ok = ev.eval_binary(out);
    return {out, ok};
}
