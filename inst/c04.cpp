// Instantiation TU for C04: by-value entry wrappers calling the real index functions of the
// selecting / replicating / joining / generating views, exactly as the view layer calls them.
#include "nmtools/array/index/tile.hpp"
#include "nmtools/array/index/roll.hpp"
#include "nmtools/array/index/pad.hpp"
#include "nmtools/array/index/concatenate.hpp"
#include "nmtools/array/index/repeat.hpp"
#include "nmtools/array/index/take.hpp"
#include "nmtools/array/index/resize.hpp"
#include "nmtools/array/view/expand.hpp"
#include "nmtools/array/view/diagonal.hpp"
#include "nmtools/array/view/tril.hpp"
#include "nmtools/array/view/triu.hpp"
#include "nmtools/array/view/eye.hpp"
#include "nmtools/array/view/tri.hpp"
#include "nmtools/array/view/hstack.hpp"
#include "nmtools/array/view/vstack.hpp"

namespace nm = nmtools;
namespace ix = nmtools::index;
using sv_t = nmtools::utl::static_vector<nm_size_t,8>;
using iv_t = nmtools::utl::static_vector<int,8>;
using sv7_t = nmtools::utl::static_vector<nm_size_t,7>;
using opt_sv_t = nmtools_maybe<sv_t>;
using hn_t = nmtools::array::hybrid_ndarray<nm_size_t,8,1>;
using scat_t = nmtools_tuple<bool,sv_t>;
using cat_t = nmtools_tuple<bool,bool,sv_t,sv_t>;

// ---- tile: view::tile_t  dst_shape = shape_tile(src_shape,reps); indices(i) = tile(src_shape,reps,i)
auto verif_shape_tile(sv_t shape, sv_t reps) { return ix::shape_tile(shape,reps); }
auto verif_tile(sv_t shape, sv_t reps, sv_t idx) { return ix::tile(shape,reps,idx); }

// ---- roll: view::roll_t  dst_shape = shape_roll(src_shape,shift,axis); indices(i) = roll(src_shape,i,shift,axis)
//      (shift and axis are passed through unnormalised by view::roll / view::roller)
auto verif_shape_roll(sv_t shape, int shift, int axis) { return ix::shape_roll(shape,shift,axis); }
auto verif_roll(sv_t shape, sv_t idx, int shift, int axis) { return ix::roll(shape,idx,shift,axis); }

// ---- pad: view::pad_t  dst_shape = shape_pad(src_shape,pad_width); indices(i) = pad(i,src_shape,dst_shape,pad_width)
auto verif_shape_pad(sv_t shape, sv_t pad_width) { return ix::shape_pad(shape,pad_width); }
auto verif_pad(sv_t idx, sv_t shape, sv_t dst_shape, sv_t pad_width) { return ix::pad(idx,shape,dst_shape,pad_width); }

// ---- concatenate (integer axis): view::concatenate_t
auto verif_shape_concatenate(sv_t ashape, sv_t bshape, int axis) { return ix::shape_concatenate(ashape,bshape,axis); }
auto verif_concatenate(sv_t ashape, sv_t bshape, sv_t idx, int axis) { return ix::concatenate(ashape,bshape,idx,axis); }

// ---- repeat (scalar repeats, integer axis): view::repeat_t
auto verif_shape_repeat(sv_t shape, nm_size_t repeats, int axis) { return ix::shape_repeat(shape,repeats,axis); }
auto verif_repeat(sv_t shape, sv_t idx, nm_size_t repeats, int axis) { return ix::repeat(shape,idx,repeats,axis); }
// ---- repeat with PER-ELEMENT repeats (index array of length shape[axis]) and an integer axis: view::repeat_t passes the repeats array through
auto verif_shape_repeat_each(sv_t shape, sv_t repeats, int axis) { return ix::shape_repeat(shape,repeats,axis); }
auto verif_repeat_each(sv_t shape, sv_t idx, sv_t repeats, int axis) { return ix::repeat(shape,idx,repeats,axis); }
// the same call for the bounded unit (own precondition: rank and repeats length bounded, all loops unwound)
auto verif_repeat_each_b(sv_t shape, sv_t idx, sv_t repeats, int axis) { return ix::repeat(shape,idx,repeats,axis); }

// ---- take (1-d index list incl. negative entries, integer axis): view::take_t::index
auto verif_shape_take(sv_t shape, iv_t indices, int axis) { return ix::shape_take(shape,indices,axis); }
auto verif_take(sv_t idx, sv_t shape, iv_t indices, int axis) { return ix::take(idx,shape,indices,axis); }

// ---- resize (nearest neighbour): view::resize_t
auto verif_shape_resize(sv_t src_shape, sv_t dst_shape) { return ix::shape_resize(src_shape,dst_shape); }
auto verif_resize(sv_t idx, sv_t src_shape, sv_t dst_shape) { return ix::resize(idx,src_shape,dst_shape); }

// ---- expand: shape (index::expand returns nmtools_either = std::variant: no C model)
auto verif_shape_expand(sv_t shape, int axis, nm_size_t spacing) { return ix::shape_expand(shape,axis,spacing); }

// ---- diagonal: view::diagonal_indexer passes raw axes to shape_diagonal, normalised (unsigned) axes + raw offset to index::diagonal
auto verif_shape_diagonal(sv_t shape, int offset, int axis1, int axis2) { return ix::shape_diagonal(shape,offset,axis1,axis2); }
auto verif_diagonal(sv_t shape, sv_t idx, int offset, unsigned axis1, unsigned axis2) { return ix::diagonal(shape,idx,offset,axis1,axis2); }

// ---- tril / triu / eye / tri
auto verif_shape_tril(sv_t shape) { return ix::shape_tril(shape); }
auto verif_tril(sv_t shape, sv_t idx, int k) { return ix::tril(shape,idx,k); }
auto verif_shape_triu(sv_t shape) { return ix::shape_triu(shape); }
auto verif_triu(sv_t shape, sv_t idx, int k) { return ix::triu(shape,idx,k); }
auto verif_eye(sv_t shape, sv_t idx, int k) { return ix::eye(shape,idx,k); }
auto verif_tri(sv_t shape, sv_t idx, int k) { return ix::tri(shape,idx,k); }

// ---- roll with several axes (shift list, axis list): shape / validity only (the index variant is not covered)
auto verif_shape_roll_axes(sv_t shape, iv_t shift, iv_t axis) { return ix::shape_roll(shape,shift,axis); }

// ---- helpers of the stack family (view/hstack.hpp, view/vstack.hpp)
auto verif_hstack_axis(sv_t lhs, sv_t rhs) { return ix::hstack_axis(lhs,rhs); }
auto verif_shape_vstack(sv_t shape) { return ix::shape_vstack(shape); }
