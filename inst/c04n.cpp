// Instantiation TU for C04, concatenate with axis=None (operands flattened first): shape function, bounded unit.
#include "nmtools/array/index/concatenate.hpp"
#include "nmtools/utl/static_vector.hpp"
namespace nm = nmtools; namespace ix = nmtools::index;
using sv_t = nmtools::utl::static_vector<nm_size_t,8>;
struct cn_obs { bool ok; nm_size_t dim; nm_size_t extent0; };
using cn_obs_t = cn_obs;
cn_obs verif_shape_concatenate_none(sv_t ashape, sv_t bshape)
{
    auto r = ix::shape_concatenate(ashape, bshape, nm::None);
    const auto& shp = nm::get<1>(r);
    return { (bool)nm::get<0>(r), (nm_size_t)nm::len(shp), (nm_size_t)nm::at(shp,0) };
}
