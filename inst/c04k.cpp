// Instantiation TU for C04, concrete-geometry bounded units: the real selecting / replicating / joining views on small arrays of concrete
// shape with symbolic int elements; shape and elements are read through the view (at most the first 12 elements in C order).
#include "nmtools/array/view/tile.hpp"
#include "nmtools/array/view/repeat.hpp"
#include "nmtools/array/view/roll.hpp"
#include "nmtools/array/view/pad.hpp"
#include "nmtools/array/view/take.hpp"
#include "nmtools/array/view/diagonal.hpp"
#include "nmtools/array/view/tril.hpp"
#include "nmtools/array/view/triu.hpp"
#include "nmtools/array/ndarray.hpp"
#include "nmtools/utility/unwrap.hpp"
#include "nmtools/utility/shape.hpp"
namespace nm = nmtools; namespace na = nmtools::array; namespace view = nmtools::view;
using ib6_t  = nm::utl::static_vector<int,6>;
using ib12_t = nm::utl::static_vector<int,12>;
using sv4_t  = nm::utl::static_vector<nm_size_t,4>;
using svi4_t = nm::utl::static_vector<int,4>;
using ndi_t  = na::ndarray_t<ib6_t,sv4_t>;
struct sk_obs { sv4_t shape; ib12_t elems; };      // shape of the view and its first 12 elements in C order (0 beyond the size)
using sk_obs_t = sk_obs;
static inline sv4_t sh(nm_size_t a) { sv4_t s; s.resize(1); s[0] = a; return s; }
static inline sv4_t sh(nm_size_t a, nm_size_t b) { sv4_t s; s.resize(2); s[0] = a; s[1] = b; return s; }
static inline sv4_t sh(nm_size_t a, nm_size_t b, nm_size_t c) { sv4_t s; s.resize(3); s[0] = a; s[1] = b; s[2] = c; return s; }
static inline void fill(ndi_t& a, const sv4_t& s, const ib6_t& data, nm_size_t n) { a.resize(s); for (nm_size_t i = 0; i < n; i++) a.data_[i] = data[i]; }
template <typename view_t> static inline sk_obs observe(const view_t& v)
{
    sk_obs o{}; auto s = nm::shape(v); nm_size_t n = nm::len(s);
    o.shape.resize(n); for (nm_size_t i = 0; i < n; i++) o.shape[i] = nm::at(s,i);
    o.elems.resize(12); for (nm_size_t t = 0; t < 12; t++) o.elems[t] = 0;
    nm_size_t d0 = n > 0 ? o.shape[0] : 1, d1 = n > 1 ? o.shape[1] : 1, d2 = n > 2 ? o.shape[2] : 1, k = 0;
    for (nm_size_t i = 0; i < d0; i++) for (nm_size_t j = 0; j < d1; j++) for (nm_size_t l = 0; l < d2; l++) {
        sv4_t idx = n == 1 ? sh(i) : (n == 2 ? sh(i,j) : sh(i,j,l));
        if (k < 12) o.elems[k] = nm::apply_at(v, idx);
        k++;
    }
    return o;
}
sk_obs verif_k_tile(ib6_t d)             // a (2,3), reps (2,1) -> (4,3)
{ ndi_t a; fill(a, sh(2,3), d, 6); sv4_t r = sh(2,1); auto m = view::tile(a, r); auto v = nm::unwrap(m); return observe(v); }
sk_obs verif_k_repeat_axis(ib6_t d)      // a (2,3), repeat 2 along axis 0 -> (4,3)
{ ndi_t a; fill(a, sh(2,3), d, 6); auto m = view::repeat(a, 2, 0); auto v = nm::unwrap(m); return observe(v); }
sk_obs verif_k_roll_axis(ib6_t d)        // a (2,3), roll shift 1 along axis 1
{ ndi_t a; fill(a, sh(2,3), d, 6); auto m = view::roll(a, 1, 1); auto v = nm::unwrap(m); return observe(v); }
sk_obs verif_k_roll_flat(ib6_t d)        // a (2,3), roll shift 2, axis None: flattened roll, shape kept
{ ndi_t a; fill(a, sh(2,3), d, 6); auto m = view::roll(a, 2); auto v = nm::unwrap(m); return observe(v); }
sk_obs verif_k_pad(ib6_t d)              // a (2,3), pad widths before (0,1) after (1,0) -> (3,4), value 0
{ ndi_t a; fill(a, sh(2,3), d, 6); sv4_t pw; pw.resize(4); pw[0] = 0; pw[1] = 1; pw[2] = 1; pw[3] = 0; auto m = view::pad(a, pw); auto v = nm::unwrap(m); return observe(v); }
sk_obs verif_k_take(ib6_t d)             // a (2,3), take indices (2,0) along axis 1 -> (2,2)
{ ndi_t a; fill(a, sh(2,3), d, 6); sv4_t ix = sh(2,0); auto m = view::take(a, ix, 1); auto v = nm::unwrap(m); return observe(v); }
sk_obs verif_k_diagonal(ib6_t d)         // a (2,3), diagonal offset 1 -> (2): a[0][1], a[1][2]
{ ndi_t a; fill(a, sh(2,3), d, 6); auto m = view::diagonal(a, 1); auto v = nm::unwrap(m); return observe(v); }
sk_obs verif_k_tril(ib6_t d)             // a (2,3), tril k=0
{ ndi_t a; fill(a, sh(2,3), d, 6); auto m = view::tril(a); auto v = nm::unwrap(m); return observe(v); }
sk_obs verif_k_triu(ib6_t d)             // a (2,3), triu k=1
{ ndi_t a; fill(a, sh(2,3), d, 6); auto m = view::triu(a, 1); auto v = nm::unwrap(m); return observe(v); }
