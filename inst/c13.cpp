// Instantiation TU for C13 (per-thread device kernel helpers, eval/kernel_helper.hpp): by-value entry wrappers calling the real
// templates.  kernel_helper.hpp is plain host-compilable C++ (no -D flags needed; the CUDA/HIP/SYCL contexts merely include it).
//
// assign_result is generic in the output / result array types.  It is instantiated with ABSTRACT flat arrays (DESIGN.md 4.6):
// the four operations it performs on them -- nmtools::size(output), view::mutable_flatten(output), view::flatten(result) and the
// flat views' operator()(idx) -- are declared here for the abstract types, BEFORE the header (the calls are qualified, so they
// are bound at the template's definition).  The body of assign_result that is verified is the real one.
#include "nmtools/def.hpp"
struct verif_out  { int buf[32]; nm_size_t n;                 // output: flat element k is buf[k]; n elements (n <= 32)
                    int* data() { return buf; } const int* data() const { return buf; } };   // (raw buffer, for code that goes through nmtools::data)
struct verif_rhs  { int val[32]; };                           // result view: rhs(idx) is a pure function of idx (table)
using verif_out_t = verif_out; using verif_rhs_t = verif_rhs;   // (top-level aliases become C typedefs in the generated C)
struct verif_flat_out_t { verif_out_t* a;       int& operator()(nm_size_t i)       { return a->buf[i]; } };
struct verif_flat_rhs_t { const verif_rhs_t* a; int  operator()(nm_size_t i) const { return a->val[i]; } };
namespace nmtools {
    inline nm_size_t size(const verif_out_t& o) { return o.n; }
    namespace view {
        inline verif_flat_out_t mutable_flatten(verif_out_t& o) { return verif_flat_out_t{&o}; }
        inline verif_flat_rhs_t flatten(const verif_rhs_t& r)   { return verif_flat_rhs_t{&r}; }
    }
}
#include "nmtools/array/eval/kernel_helper.hpp"
namespace nm = nmtools;
namespace na = nmtools::array;
using ks_t   = na::kernel_size<nm_size_t>;
using sv_t   = nmtools::utl::static_vector<nm_size_t,8>;     // what create_vector<0> returns (capacity NMTOOLS_KERNEL_MAX_DIM = 8)
using sv16_t = nmtools::utl::static_vector<nm_size_t,16>;    // host-side source of the (pointer, dim) pair: up to 16 readable entries
using a3_t   = nmtools_array<nm_size_t,3>;

// global thread id
nm_size_t verif_compute_offset(ks_t thread_id, ks_t block_id, ks_t block_size)
{ return na::compute_offset(thread_id, block_id, block_size); }
nm_size_t verif_compute_offset_nowrap(ks_t thread_id, ks_t block_id, ks_t block_size)
{ return na::compute_offset(thread_id, block_id, block_size); }

// rebuild a shape from a raw (pointer, dim) pair: the pointer is the data() of a by-value container so that inputs stay replayable
sv_t verif_create_vector(sv16_t src, nm_size_t dim)
{ return na::create_vector<0>(src.data(), dim); }
a3_t verif_create_vector_fixed3(sv16_t src, nm_size_t dim)
{ return na::create_vector<3>(src.data(), dim); }

// per-thread assignment with abstract flat views: returns the output after the call
verif_out_t verif_assign_result(verif_out_t out, verif_rhs_t rhs, ks_t thread_id, ks_t block_id, ks_t block_size)
{ na::assign_result(out, rhs, thread_id, block_id, block_size); return out; }

// rebuild a read-only operand from its raw (pointer, shape pointer, dim) triple (bounded shape kind, DIM = 0): the shape of the rebuilt array
#include "nmtools/utility/shape.hpp"
struct ca_obs { sv_t shape; nm_size_t dim; bool ok; };
using ca_obs_t = ca_obs;
template <typename S> static inline void verif_fill(ca_obs& r, const S& s)
{ r.ok = true; r.dim = nm::len(s); r.shape.resize(r.dim); for (nm_size_t i = 0; i < r.dim; i++) r.shape[i] = nm::at(s,i); }
template <typename S> static inline void verif_fill(ca_obs& r, const std::optional<S>& s)
{ r.ok = s.has_value(); if (r.ok) verif_fill(r, *s); }
ca_obs verif_create_array_shape(sv16_t src, nm_size_t dim)
{
    const int cell[1] = {0};
    auto a = na::create_array<0>(cell, src.data(), dim);
    ca_obs r{};
    verif_fill(r, nm::shape(a));
    return r;
}
ca_obs verif_create_array_shape4(sv16_t src, nm_size_t dim) { return verif_create_array_shape(src, dim); }
