// Instantiation TU for C18: by-value entry wrappers calling the real isequal / isclose templates.
#include "nmtools/utility/isequal.hpp"
#include "nmtools/utility/isclose.hpp"
#include "nmtools/utl/static_vector.hpp"

namespace nm = nmtools;
using sv_t  = nmtools::utl::static_vector<nm_size_t,8>;
using arr3_t = nmtools_array<nm_size_t,3>;
using osv_t = nmtools_maybe<sv_t>;
using fv_t  = nmtools::utl::static_vector<float,8>;

bool verif_isequal_sv(sv_t a, sv_t b) { return nm::utils::isequal(a,b); }
bool verif_isequal_sv_arr(sv_t a, arr3_t b) { return nm::utils::isequal(a,b); }
bool verif_isequal_arr_sv(arr3_t a, sv_t b) { return nm::utils::isequal(a,b); }
bool verif_isequal_arr_arr(arr3_t a, arr3_t b) { return nm::utils::isequal(a,b); }
// optionals are built inside the wrapper from (engaged flag, payload) so that the entry parameters stay plain data
// (std::optional's layout is not the layout of the C model; replay passes the plain parameters)
bool verif_isequal_opt_opt(bool ha, sv_t a, bool hb, sv_t b)
{
    osv_t oa; if (ha) oa = a;
    osv_t ob; if (hb) ob = b;
    return nm::utils::isequal(oa,ob);
}
bool verif_isequal_opt_sv(bool ha, sv_t a, sv_t b)
{
    osv_t oa; if (ha) oa = a;
    return nm::utils::isequal(oa,b);
}
bool verif_isequal_sv_opt(sv_t a, bool hb, sv_t b)
{
    osv_t ob; if (hb) ob = b;
    return nm::utils::isequal(a,ob);
}
bool verif_isequal_refl(sv_t a) { return nm::utils::isequal(a,a); }
bool verif_isequal_num(nm_size_t a, nm_size_t b) { return nm::utils::isequal(a,b); }
bool verif_isequal_int(int a, int b) { return nm::utils::isequal(a,b); }
bool verif_isclose_fv(fv_t a, fv_t b, float eps) { return nm::utils::isclose(a,b,eps); }
bool verif_isclose_num(float a, float b, float eps) { return nm::utils::isclose(a,b,eps); }

// ---- either (std::variant) operands: compared alternative-by-alternative. The either is built inside the wrapper from plain
// components (std::variant's layout is not the layout of the C model, so it cannot be passed by value into the native replay)
using e_il_t = nmtools_either<int,long>;
static inline e_il_t verif_mk_e(bool right, int l, long r) { return right ? e_il_t{r} : e_il_t{l}; }
bool verif_isequal_either_num(bool a_right, int al, long ar, long b) { return nmtools::utils::isequal(verif_mk_e(a_right,al,ar), b); }
bool verif_isequal_num_either(long a, bool b_right, int bl, long br) { return nmtools::utils::isequal(a, verif_mk_e(b_right,bl,br)); }
bool verif_isequal_either_either(bool a_right, int al, long ar, bool b_right, int bl, long br)
{ return nmtools::utils::isequal(verif_mk_e(a_right,al,ar), verif_mk_e(b_right,bl,br)); }
