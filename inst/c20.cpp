// Instantiation TU for C20 (row-major generic ndarray; the column-major one is inst/c20c.cpp).
// Entry wrappers take the object STATE as plain components (data_, shape_, strides_, offset_.shape_, offset_.strides_):
// ndarray_t has an empty CRTP base, so its C++ layout is not the layout of the generated C struct and an ndarray_t cannot be
// passed by value into the native replay; verif_nd_mk builds the object from the components (exact copies, whole buffers).
#include "nmtools/array/ndarray/ndarray.hpp"
#include "nmtools/utl/static_vector.hpp"

namespace nm = nmtools;
using fb6_t = nmtools::utl::static_vector<float,6>;       // bounded buffer (capacity 6)
using sv4_t = nmtools::utl::static_vector<nm_size_t,4>;   // bounded dimension (capacity 4)
using nd_t  = nmtools::array::ndarray_t<fb6_t,sv4_t>;     // row-major
struct nd_res { nd_t a; bool ok; };
using nd_res_t = nd_res;

static inline void put4(sv4_t& d, const sv4_t& s) { d.resize(s.size()); d[0]=s[0]; d[1]=s[1]; d[2]=s[2]; d[3]=s[3]; }
static inline void put6(fb6_t& d, const fb6_t& s) { d.resize(s.size()); d[0]=s[0]; d[1]=s[1]; d[2]=s[2]; d[3]=s[3]; d[4]=s[4]; d[5]=s[5]; }

// object with exactly the given state (under contract; used through its contract by the other wrappers)
nd_t verif_nd_mk(fb6_t data, sv4_t shape, sv4_t strides, sv4_t oshape, sv4_t ostrides)
{
    nd_t a;
    put6(a.data_, data); put4(a.shape_, shape); put4(a.strides_, strides);
    put4(a.offset_.shape_, oshape); put4(a.offset_.strides_, ostrides);
    return a;
}
nd_t verif_nd_default() { return nd_t{}; }
nd_res verif_nd_resize(fb6_t data, sv4_t shape, sv4_t strides, sv4_t oshape, sv4_t ostrides, sv4_t new_shape)
{
    nd_t a = verif_nd_mk(data,shape,strides,oshape,ostrides);
    bool ok = a.resize(new_shape);
    return {a, ok};
}
nd_t verif_nd_copy(fb6_t data, sv4_t shape, sv4_t strides, sv4_t oshape, sv4_t ostrides)
{
    nd_t a = verif_nd_mk(data,shape,strides,oshape,ostrides);
    nd_t b(a);
    return b;
}
nd_t verif_nd_assign(fb6_t data, sv4_t shape, sv4_t strides, sv4_t oshape, sv4_t ostrides,
                     fb6_t data2, sv4_t shape2, sv4_t strides2, sv4_t oshape2, sv4_t ostrides2)
{
    nd_t a = verif_nd_mk(data,shape,strides,oshape,ostrides);
    nd_t b = verif_nd_mk(data2,shape2,strides2,oshape2,ostrides2);
    a = b;
    return a;
}
