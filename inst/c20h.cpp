// Instantiation TU for C20, legacy hybrid_ndarray<float,6,2> (fixed dimension 2, at most 6 elements): resize.
#include "nmtools/array/ndarray/hybrid.hpp"

namespace nm = nmtools;
using hy_t   = nmtools::array::hybrid_ndarray<float,6,2>;
using arr2_t = nmtools_array<size_t,2>;
struct hy_res { hy_t a; bool ok; };
using hy_res_t = hy_res;

hy_t   verif_hy_default() { return hy_t{}; }
hy_res verif_hy_resize(hy_t a, arr2_t new_shape) { bool ok = a.resize(new_shape); return {a, ok}; }
hy_res verif_hy_resize2(hy_t a, nm_size_t n0, nm_size_t n1) { bool ok = a.resize(n0, n1); return {a, ok}; }
