# C07 -- element-wise functions: index side only (shape of the ufunc view = broadcast shape; outer: shape(a)++shape(b), index split)
META = dict(
    level='proof',
    level_text='The index side of the element-wise functions is proved: the shape chain of view::ufunc (index::broadcast_shape followed by '
               'index::shape_ufunc on the broadcast operands) yields Nothing exactly when the operand shapes are not broadcastable and otherwise '
               'exactly the NumPy broadcast shape; index::shape_ufunc for 1, 2 and 3 already-broadcast operands returns their common shape (= their '
               'broadcast shape); size_ufunc is the product of the result extents; index::shape_outer is shape(a) ++ shape(b), size_outer the product '
               'of the sizes, and index::outer splits the index at len(shape(a)). Shapes are utl::static_vector<size_t,8> (rank 0..8 symbolic, all '
               '64-bit extents); every code loop is closed by a loop contract (constant-trip-count loops of hybrid_ndarray::resize unwound '
               'completely); obligations discharged by CBMC (dfcc), products uninterpreted in the two size units.',
    level_note='Trusted: clang AST, cxx2c rendering (cross-checked by translation validation on every run), CBMC, C models of std::optional / '
               'std::tuple / std::array. The element clause (which scalar operation, in which element type) is not expressible as a function contract.',
    trusted_base=[
        'clang 14 front end (AST of the instantiated templates)', 'engine/cxx2c.py (C++ AST -> C rendering)',
        'cbmc 6.11.0 / goto-instrument --dfcc (contract instrumentation, SAT back end)',
        'C models of std::optional / std::tuple / std::array in the generated prelude',
        'the two-operand NumPy broadcast rule spec_bcast_ok / dim / extent of spec/c06.h (shared with C06, where its algebraic laws are lemmas)',
    ],
    assumptions=[
        'shape_ufunc call sites (ufunc_t constructor behind view::ufunc / broadcast_binary_ufunc / unary_ufunc) pass operands already broadcast '
        'by view::broadcast_arrays, i.e. of one common shape; for differing operand shapes only memory safety is proved (observation: the code '
        'then returns a *valid* maybe holding an empty shape, `return return_t{result_t{}}`, not Nothing)',
        'size_ufunc.uf / size_outer.uf: unsigned long * is an uninterpreted function constrained by the axioms in models/prelude.h; ghost trace PR '
        'is a functional definition assumed in the precondition',
        'index::outer: the index has len(shape(a)) + len(shape(b)) entries (the rank of the outer view)',
        'configuration: -DNDEBUG, STL enabled, kind utl::static_vector<size_t,8>; outer results are the library\'s array::static_vector<size_t,16>',
    ],
    explanation='ufunc_shape.bp is the C07 shape clause end to end at index level: has_value <=> every right-aligned pair of extents is equal or 1; '
                'rank = max rank; extent = per-axis max. shape_ufunc{1,2,3}.bp pin the second stage alone. outer: result[q] = a[q] for q < len(a), '
                'result[len(a)+q] = b[q]; index::outer(idx) = (idx[0..len(a)), idx[len(a)..)).',
    not_covered=[
        'the scalar-operation clause: element i = op(a[i], b[i]) in the element type the operation yields / the requested dtype (decltype facts; '
        'ufunc_t::operator() / apply_at over abstract operands not instantiated)',
        'the ~90 one-line functors (add_t, ... , activations): their only contract would restate the body',
        'view::broadcast_arrays / broadcast_to element mapping (C06), scalar_ufunc_t, where / clip ternary glue',
        'compile-time constant / clipped shapes (type level); more than 3 operands',
    ],
)
HN = {'hybrid_ndarray.*resize': 3, 'detail_init_': 3}
UNITS = [
    # scalar operation of every activation functor == its reference (PyTorch) formula; <cmath> uninterpreted; loop-free: full float domain
    Unit('act.relu', 'c07a', 'verif_act_relu', mode='fuf', clause='activation relu: the functor computes the reference formula for every float (and parameter)'),
    Unit('act.relu6', 'c07a', 'verif_act_relu6', mode='fuf', clause='activation relu6: the functor computes the reference formula for every float (and parameter)'),
    Unit('act.leaky_relu', 'c07a', 'verif_act_leaky_relu', mode='fuf', clause='activation leaky_relu: the functor computes the reference formula for every float (and parameter)'),
    Unit('act.elu', 'c07a', 'verif_act_elu', mode='fuf', clause='activation elu: the functor computes the reference formula for every float (and parameter)'),
    Unit('act.celu', 'c07a', 'verif_act_celu', mode='fuf', clause='activation celu: the functor computes the reference formula for every float (and parameter)'),
    Unit('act.selu', 'c07a', 'verif_act_selu', mode='fuf', clause='activation selu: the functor computes the reference formula for every float (and parameter)'),
    Unit('act.hardshrink', 'c07a', 'verif_act_hardshrink', mode='fuf', clause='activation hardshrink: the functor computes the reference formula for every float (and parameter)'),
    Unit('act.hardswish', 'c07a', 'verif_act_hardswish', mode='fuf', clause='activation hardswish: the functor computes the reference formula for every float (and parameter)'),
    Unit('act.hardtanh', 'c07a', 'verif_act_hardtanh', mode='fuf', clause='activation hardtanh: the functor computes the reference formula for every float (and parameter)'),
    Unit('act.log_sigmoid', 'c07a', 'verif_act_log_sigmoid', mode='fuf', clause='activation log_sigmoid: the functor computes the reference formula for every float (and parameter)'),
    Unit('act.mish', 'c07a', 'verif_act_mish', mode='fuf', clause='activation mish: the functor computes the reference formula for every float (and parameter)'),
    Unit('act.prelu', 'c07a', 'verif_act_prelu', mode='fuf', clause='activation prelu: the functor computes the reference formula for every float (and parameter)'),
    Unit('act.sigmoid', 'c07a', 'verif_act_sigmoid', mode='fuf', clause='activation sigmoid: the functor computes the reference formula for every float (and parameter)'),
    Unit('act.silu', 'c07a', 'verif_act_silu', mode='fuf', clause='activation silu: the functor computes the reference formula for every float (and parameter)'),
    Unit('act.softplus', 'c07a', 'verif_act_softplus', mode='fuf', clause='activation softplus: the functor computes the reference formula for every float (and parameter)'),
    Unit('act.softshrink', 'c07a', 'verif_act_softshrink', mode='fuf', clause='activation softshrink: the functor computes the reference formula for every float (and parameter)'),
    Unit('act.softsign', 'c07a', 'verif_act_softsign', mode='fuf', clause='activation softsign: the functor computes the reference formula for every float (and parameter)'),
    Unit('act.tanhshrink', 'c07a', 'verif_act_tanhshrink', mode='fuf', clause='activation tanhshrink: the functor computes the reference formula for every float (and parameter)'),

    # concrete-geometry bounded units: the real element-wise views end to end (broadcast_binary_ufunc / ufunc_t / outer_t / scalar operands / evaluator)
    Unit('sub_broadcast.bounded', 'c07k', 'verif_sub_broadcast', mode='bp', plain=True, unwind=8, unwind_loops={'.': 8}, timeout=1500, object_bits=12,
         bounded='concrete shapes, symbolic int elements, all loops unwound 8 times', waive=[r'arithmetic overflow on (signed to unsigned|unsigned to signed) type conversion'],
         clause='(2,3) - (3): element (i,j) = a[i][j] - b[j]'),
    Unit('sub_broadcast_both.bounded', 'c07k', 'verif_sub_broadcast_both', mode='bp', plain=True, unwind=8, unwind_loops={'.': 8}, timeout=1500, object_bits=12,
         bounded='concrete shapes, symbolic int elements, all loops unwound 8 times', waive=[r'arithmetic overflow on (signed to unsigned|unsigned to signed) type conversion'],
         clause='(2,1) - (1,3): both operands stretched'),
    Unit('sub_scalar_rhs.bounded', 'c07k', 'verif_sub_scalar_rhs', mode='bp', plain=True, unwind=8, unwind_loops={'.': 8}, timeout=1500, object_bits=12,
         bounded='concrete shapes, symbolic int elements, all loops unwound 8 times', waive=[r'arithmetic overflow on (signed to unsigned|unsigned to signed) type conversion'],
         clause='array - scalar'),
    Unit('sub_scalar_lhs.bounded', 'c07k', 'verif_sub_scalar_lhs', mode='bp', plain=True, unwind=8, unwind_loops={'.': 8}, timeout=1500, object_bits=12,
         bounded='concrete shapes, symbolic int elements, all loops unwound 8 times', waive=[r'arithmetic overflow on (signed to unsigned|unsigned to signed) type conversion'],
         clause='scalar - array (operand order)'),
    Unit('add_mixed.bounded', 'c07k', 'verif_add_mixed', mode='bp', plain=True, unwind=8, unwind_loops={'.': 8}, timeout=1500, object_bits=12,
         bounded='concrete shapes, symbolic int elements, all loops unwound 8 times', waive=[r'arithmetic overflow on (signed to unsigned|unsigned to signed) type conversion'],
         clause='signed char + int is formed in int'),
    Unit('less.bounded', 'c07k', 'verif_less', mode='bp', plain=True, unwind=8, unwind_loops={'.': 8}, timeout=1500, object_bits=12,
         bounded='concrete shapes, symbolic int elements, all loops unwound 8 times', waive=[r'arithmetic overflow on (signed to unsigned|unsigned to signed) type conversion'],
         clause='comparison yields bool elements under broadcasting'),
    Unit('negative.bounded', 'c07k', 'verif_negative', mode='bp', plain=True, unwind=8, unwind_loops={'.': 8}, timeout=1500, object_bits=12,
         bounded='concrete shapes, symbolic int elements, all loops unwound 8 times', waive=[r'arithmetic overflow on (signed to unsigned|unsigned to signed) type conversion'],
         clause='unary'),
    Unit('outer_sub.bounded', 'c07k', 'verif_outer_sub', mode='bp', plain=True, unwind=8, unwind_loops={'.': 8}, timeout=1500, object_bits=12,
         bounded='concrete shapes, symbolic int elements, all loops unwound 8 times', waive=[r'arithmetic overflow on (signed to unsigned|unsigned to signed) type conversion'],
         clause='outer: element (i,j) = a[i] - b[j]'),
    Unit('where.bounded', 'c07k', 'verif_where', mode='bp', plain=True, unwind=8, unwind_loops={'.': 8}, timeout=1500, object_bits=12,
         bounded='concrete shapes (2,3),(3),(2,1); symbolic bool / float elements of any bit pattern; all loops unwound 8 times', waive=[r'arithmetic overflow on (signed to unsigned|unsigned to signed) type conversion'],
         clause='ternary where: element = the selected operand element under broadcasting (also when the other one is NaN / inf)'),
    Unit('sub_scalars.bounded', 'c07k', 'verif_sub_scalars', mode='bp', plain=True, unwind=8, unwind_loops={'.': 8}, timeout=1500, object_bits=12,
         bounded='concrete shapes, symbolic int elements, all loops unwound 8 times', waive=[r'arithmetic overflow on (signed to unsigned|unsigned to signed) type conversion'],
         clause='all-scalar operands'),

    Unit('ufunc_shape.bp', 'c07', 'verif_ufunc_shape', mode='bp', unwind=10, unwind_loops=HN, object_bits=10, clause='result has the broadcast shape: Nothing iff not broadcastable, else rank = max rank and extent = per-axis max (shape chain of view::ufunc)'),
    Unit('shape_ufunc1.bp', 'c07', 'verif_shape_ufunc1', mode='bp', unwind=10, clause='unary: result shape is the operand shape'),
    Unit('shape_ufunc2.bp', 'c07', 'verif_shape_ufunc2', mode='bp', unwind=10, clause='binary, operands already broadcast: result shape is the common (= broadcast) shape'),
    Unit('shape_ufunc3.bp', 'c07', 'verif_shape_ufunc3', mode='bp', unwind=10, clause='ternary, operands already broadcast: result shape is the common (= broadcast) shape'),
    Unit('size_ufunc.uf', 'c07', 'verif_size_ufunc', mode='uf', unwind=10, clause='number of elements = product of the result extents'),
    Unit('shape_outer.bp', 'c07', 'verif_shape_outer', mode='bp', unwind=10, unwind_loops=HN, clause='outer: shape = shape(a) ++ shape(b)'),
    Unit('size_outer.uf', 'c07', 'verif_size_outer', mode='uf', unwind=10, clause='outer: size = size(a) * size(b)'),
    Unit('outer.bp', 'c07', 'verif_outer', mode='bp', unwind=10, clause='outer: element (i ++ j) reads a[i] and b[j] (index split at len(shape(a)))'),
]
