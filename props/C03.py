# C03 -- rearranging views (reshape / transpose / ... ) equal NumPy, at the level of the index functions
META = dict(level='proof', level_text='wip', level_note='wip', trusted_base=[], assumptions=[], not_covered=[])
# constant-trip (rank-1) helper loops of hybrid_ndarray<size_t,8,1>
HYB = {'hybrid_ndarray.*resize': 3, 'detail_init_': 3}
# flip_slices for a compile-time rank 3: `for i < dim` has the constant trip count 3
FLIP = {'flip_slices__rintegral_constant_i_3': 4}
UNITS = [
    Unit('normalize_axis.bp', 'c03', 'verif_normalize_axis', mode='bp', unwind=10, clause='axis arguments: valid iff -ndim <= axis < ndim, value axis mod ndim'),
    Unit('normalize_axes.bp', 'c03', 'verif_normalize_axes', mode='bp', unwind=10, clause='axis lists: valid iff every entry is; entries normalised'),
    Unit('shape_transpose_none.bp', 'c03', 'verif_shape_transpose_none', mode='bp', unwind=10, clause='transpose default: shape reversed'),
    Unit('shape_transpose.bp', 'c03', 'verif_shape_transpose', mode='bp', unwind=10, clause='transpose explicit axes: shape[k] = src.shape[axes[k]]'),
    Unit('reverse.bp', 'c03', 'verif_reverse', mode='bp', unwind=10, clause='transpose default / flip: source index is the reversed index'),
    Unit('scatter.bp', 'c03', 'verif_scatter', mode='bp', unwind=10, clause='transpose explicit axes: source index y with y[axes[k]] = x[k]'),
    Unit('gather.bp', 'c03', 'verif_gather', mode='bp', unwind=10, clause='gather(x,p)[k] = x[p[k]]'),
    Unit('reverse_reverse.bp', 'c03', 'verif_reverse_reverse', mode='bp', unwind=10, clause='flipping / default-transposing twice restores the index'),
    Unit('gather_scatter.bp', 'c03', 'verif_gather_scatter', mode='bp', unwind=10, clause='gather undoes scatter for every permutation'),
    Unit('scatter_scatter_inv.bp', 'c03', 'verif_scatter_scatter_inv', mode='bp', unwind=10, clause='transpose by p then by p^-1 restores every element'),
    Unit('shape_transpose_inv.bp', 'c03', 'verif_shape_transpose_inv', mode='bp', unwind=10, clause='transpose by p then by p^-1 restores the shape'),
    Unit('product.contract.uf', 'c03', 'nmtools::index::product[rstatic_vector_ul_8]', mode='uf', unwind=10, clause='helper: numel = product of the extents'),
    Unit('count_negative_reshape.contract.uf', 'c03', 'nmtools::index::count_negative_reshape', mode='uf', unwind=10, clause='helper: (#-1, product of the known extents)'),
    Unit('count_negative_reshape.uf', 'c03', 'verif_count_negative_reshape', mode='uf', unwind=10, clause='reshape: number of -1 entries and product of the others'),
    Unit('shape_reshape.uf', 'c03', 'verif_shape_reshape', mode='uf', unwind=10, clause='reshape incl. one -1: accepted iff NumPy accepts; resulting shape'),
    Unit('shape_reshape.safe.bp', 'c03', 'verif_shape_reshape_safe', mode='bp', unwind=10,
         replace=['nmtools::index::product[rstatic_vector_ul_8]', 'nmtools::index::count_negative_reshape'], clause='reshape never crashes (no division by zero), any arguments'),
    Unit('shape_expand_dims.bp', 'c03', 'verif_shape_expand_dims', mode='bp', unwind=10, clause='expand_dims: a 1 inserted at axis mod (ndim+1)'),
    Unit('shape_squeeze.bp', 'c03', 'verif_shape_squeeze', mode='bp', unwind=10, unwind_loops=HYB, clause='squeeze: the extents != 1 in order'),
    Unit('shape_atleast_1d.bp', 'c03', 'verif_shape_atleast_1d', mode='bp', unwind=10, unwind_loops=HYB, clause='atleast_1d shape'),
    Unit('shape_atleast_2d.bp', 'c03', 'verif_shape_atleast_2d', mode='bp', unwind=10, unwind_loops=HYB, clause='atleast_2d shape'),
    Unit('shape_atleast_3d.bp', 'c03', 'verif_shape_atleast_3d', mode='bp', unwind=10, unwind_loops=HYB, clause='atleast_nd (nd=3): ones prepended'),
    Unit('shape_flatten.uf', 'c03', 'verif_shape_flatten', mode='uf', unwind=10, clause='flatten: single extent = element count'),
    Unit('swapaxes_to_transpose.bp', 'c03', 'verif_swapaxes_to_transpose', mode='bp', unwind=10, clause='swapaxes = transpose with the two axes exchanged'),
    Unit('moveaxis_to_transpose.bp', 'c03', 'verif_moveaxis_to_transpose', mode='bp', unwind=10,
         unwind_loops={'moveaxis_to_transpose__rstatic_vector_ul_8_ri_ri': 2, 'argsort__rarr_ul_1': 3, 'normalize_axis__rarr_i_1': 3, 'lambda_moveaxis_to_transpose_2': 3},
         clause='moveaxis (scalar axes) = transpose with numpy\'s moveaxis permutation'),
    Unit('flip_slices3.bp', 'c03', 'verif_flip_slices3', mode='bp', unwind=10, unwind_loops=FLIP, clause='flip(axis): step -1 exactly on axis mod ndim (rank 3)'),
    Unit('flip_slices3_axes.bp', 'c03', 'verif_flip_slices3_axes', mode='bp', unwind=10, unwind_loops=FLIP, clause='flip(axes): step -1 exactly on the listed axes mod ndim (rank 3)'),
    Unit('flip_slices3_none.bp', 'c03', 'verif_flip_slices3_none', mode='bp', unwind=10, unwind_loops=FLIP, clause='flip(None): every axis reversed (rank 3)'),
]
