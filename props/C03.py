# C03 -- rearranging views (reshape / transpose / ... ) equal NumPy, at the level of the index functions
META = dict(level='proof', level_text='wip', level_note='wip', trusted_base=[], assumptions=[], not_covered=[])
UNITS = [
    Unit('normalize_axis.bp', 'c03', 'verif_normalize_axis', mode='bp', unwind=10, clause='axis arguments: valid iff -ndim <= axis < ndim, value axis mod ndim'),
    Unit('normalize_axes.bp', 'c03', 'verif_normalize_axes', mode='bp', unwind=10, clause='axis lists: valid iff every entry is; entries normalised'),
    Unit('shape_transpose_none.bp', 'c03', 'verif_shape_transpose_none', mode='bp', unwind=10, clause='transpose default: shape reversed'),
    Unit('shape_transpose.bp', 'c03', 'verif_shape_transpose', mode='bp', unwind=10, clause='transpose explicit axes: shape[k] = src.shape[axes[k]]'),
    Unit('reverse.bp', 'c03', 'verif_reverse', mode='bp', unwind=10, clause='transpose default / flip: source index is the reversed index'),
    Unit('scatter.bp', 'c03', 'verif_scatter', mode='bp', unwind=10, clause='transpose explicit axes: source index y with y[axes[k]] = x[k]'),
    Unit('gather.bp', 'c03', 'verif_gather', mode='bp', unwind=10, clause='gather(x,p)[k] = x[p[k]]'),
    Unit('reverse_reverse.bp', 'c03', 'verif_reverse_reverse', mode='bp', unwind=10, clause='flipping / default-transposing twice restores the index'),
    Unit('gather_scatter.bp', 'c03', 'verif_gather_scatter', mode='bp', unwind=10, clause='gather undoes scatter for every permutation'),
    Unit('scatter_scatter_inv.bp', 'c03', 'verif_scatter_scatter_inv', mode='bp', unwind=10, clause='transpose by p then by p^-1 restores every element'),
    Unit('shape_transpose_inv.bp', 'c03', 'verif_shape_transpose_inv', mode='bp', unwind=10, clause='transpose by p then by p^-1 restores the shape'),
    Unit('product.contract.uf', 'c03', 'nmtools::index::product', mode='uf', unwind=10, clause='helper: numel = product of the extents'),
    Unit('count_negative_reshape.contract.uf', 'c03', 'nmtools::index::count_negative_reshape', mode='uf', unwind=10, clause='helper: (#-1, product of the known extents)'),
    Unit('count_negative_reshape.uf', 'c03', 'verif_count_negative_reshape', mode='uf', unwind=10, clause='reshape: number of -1 entries and product of the others'),
    Unit('shape_reshape.uf', 'c03', 'verif_shape_reshape', mode='uf', unwind=10, clause='reshape incl. one -1: accepted iff NumPy accepts; resulting shape'),
    Unit('shape_reshape.safe.bp', 'c03', 'verif_shape_reshape_safe', mode='bp', unwind=10,
         replace=['nmtools::index::product', 'nmtools::index::count_negative_reshape'], clause='reshape never crashes (no division by zero), any arguments'),
]
