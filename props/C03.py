# C03 -- rearranging views (reshape / transpose / ... ) equal NumPy, at the level of the index functions
META = dict(
    level='proof',
    level_text=('Index-function level of the rearranging views, instantiated for utl::static_vector<size_t,8> shapes/indices and '
                'utl::static_vector<int,8> axes / target shapes (rank 0..8 symbolic, all 64-bit extents, all int axes): every '
                'symbolic-trip loop of normalize_axis, shape_transpose (None/axes), reverse, scatter, gather, product, '
                'count_negative_reshape, shape_reshape, shape_expand_dims, shape_squeeze, shape_atleast_nd (nd=1,2,3), shape_flatten, '
                'swapaxes_to_transpose, moveaxis_to_transpose (scalar axes; axis lists of the fixed length 2 given as nmtools_array<int,2>: the rank loops '
                'under loop contracts, the constant-trip list loops of as_array / normalize_axis / has_repeated / argsort / `in` / insert unwound) and index::count is closed by a loop contract and every '
                'NumPy postcondition (iff-validity + resulting shape / source index at every position via a ghost index) is '
                'discharged by CBMC --dfcc for all inputs; permutation laws (gather o scatter = id, transpose by p then p^-1 restores '
                'index and shape, reverse twice = id) are discharged on the compositions of the real functions. Products / quotients '
                '(reshape, flatten) are uninterpreted with sound axioms (mode uf); division-by-zero, bounds, overflow and conversion '
                'checks of shape_reshape are also discharged bit-precisely with product/count_negative_reshape replaced by their '
                '(separately discharged) contracts. flip_slices is proved for a compile-time rank 3 (loop over the axes unwound: '
                'constant trip count). moveaxis with lists given as utl::static_vector<int,8> is examined by a BOUNDED unit (list length <= 3, every rank 0..8, '
                'all loops unwound; not counted as proved). The defect found here (moveaxis_to_transpose accepted repeated axes where NumPy raises) is '
                'repaired in /repo (b20b6ba); no input region is excluded any more.'),
    level_note=('Trusted: clang AST, cxx2c rendering, CBMC/dfcc; UF axioms for * / % plus three listed theorem instances; the glue '
                'between the index functions and the views (view::reshape/transpose/... call exactly these functions; '
                'reshape_t::indices = compute_indices(compute_offset(.)) is under contract in C01). Signed->unsigned conversions '
                'of negative axes (well defined, modular) are not reported by the conversion check in at(), normalize_axis, '
                'count_negative_reshape and flip_slices; their effect is covered by the postconditions.'),
    trusted_base=[
        'clang 14 front end (AST of the instantiated templates)', 'engine/cxx2c.py (C++ AST -> C rendering)',
        'cbmc 6.11.0 / goto-instrument --dfcc (contract + loop-contract instrumentation, SAT back end)',
        'models/prelude.h C models of std::optional / std::tuple / std::array',
        'C++ references are valid and parameters do not alias outputs (harness passes distinct objects)',
        'view glue: view::transpose_t / reshape_t / squeeze / expand_dims / atleast_nd / moveaxis / swapaxes / flip call the index functions under contract (read, not verified)',
    ],
    assumptions=[
        'UF mode (shape_reshape.uf, count_negative_reshape*.uf, product.contract.uf, shape_flatten.uf): unsigned long * / % are uninterpreted functions constrained by the axioms of models/prelude.h (each a theorem of machine arithmetic)',
        'two extra theorem instances on the ghost-bound terms in spec/c03.h: b != 0 ==> b % b == 0; a >= b > 0 ==> a / b >= 1',
        'shape_reshape.safe.bp (bit-precise) uses the contracts of index::product and count_negative_reshape (replace=), which are discharged in UF mode for every multiplication satisfying the axioms, hence for the machine one; its ghost product traces are kept uninterpreted',
        'ghost traces (PS, PD, CN, NB, VT, SQ, FX, QRS, g2, g3) are functional definitions assumed in the precondition (always satisfiable; recomputed natively in replays)',
        'reshape: source element count >= 1 (extents >= 1, as in the property quantifier) and <= INT_MAX for the functional contract (the inferred extent is stored in the target shape\'s element type int); target rank >= 1; products are the size_t (wrapping) products: equal to NumPy\'s when nothing exceeds 2^64',
        'squeeze: extents >= 1 (property quantifier); for a zero extent shape_squeeze counts with `> 1` but copies with `!= 1` ((0,3) -> length 1): outside the quantifier, not claimed',
        'transpose family / laws: axes are a valid (possibly negative) permutation of the rank (validation of explicit axes is not done by shape_transpose / view::transpose: C15)',
        'configuration: -DNDEBUG, STL enabled, kind utl::static_vector<.,8> (rank 0..8 symbolic); normalize_axis: ndim <= INT_MAX',
        'spec loops (spec/c03.h) are bounded by CAP=8 and unwound with unwinding assertions (unwind=10); constant-trip code loops of hybrid_ndarray<size_t,8,1> helpers, of the 1-element resp. 2-element axis arrays inside moveaxis_to_transpose (as_array, normalize_axis, has_repeated, argsort, `in`, the insert loop over the pairs) and of flip_slices(rank 3) are unwound before dfcc (unwind_loops)',
        'moveaxis axis lists: the expected permutation is numpy\'s algorithm executed literally on plain arrays (spec/c03.h np_moveaxis_at: order = [n not in source]; for dest, src in sorted(zip(destination, source)): order.insert(dest, src)), cross-checked against a Python transcription on all 4.3 million inputs of rank <= 5, length <= 3',
    ],
    not_covered=[
        'moveaxis with axis lists longer than 3, or longer than 2 without a bound on the unwinding: lists of the fixed length 2 are proved for every rank 0..8 (loop contracts), utl::static_vector<int,8> lists only up to length 3 by the bounded unit moveaxis_list.bounded; index::argsort is covered only through this use (lists of length <= 3), not as a sorting routine with its own contract',
        'flip: flip_slices only for compile-time rank 3 (run-time rank yields std::vector, a clipped rank does not compile: flip.hpp:74); the element map of the resulting (None,None,-1) slices is C05\'s compute_index contract; flip-twice law shown for index::reverse only',
        'shape_atleast_nd with run-time nd (std::vector result); numpy.atleast_3d (appends) differs from nmtools atleast_nd(3) (prepends): checked against the prepend rule',
        'remove_single_dims (not used by view::squeeze), swapaxes with a run-time (unbounded) rank',
        'reshape: target shapes with a 0 extent for an empty source (valid in NumPy), rank-0 target (), element counts above INT_MAX with int target shapes, product(result) == product(source) as a separate clause',
        'explicit-axes validation of shape_transpose (out-of-range / duplicate axes are undefined behaviour, no Nothing): C15',
        'compile-time-constant / tuple / std::vector index containers; the view classes themselves',
    ],
)
# constant-trip (rank-1) helper loops of hybrid_ndarray<size_t,8,1>
HYB = {'hybrid_ndarray.*resize': 3, 'detail_init_': 3}
# flip_slices for a compile-time rank 3: `for i < dim` has the constant trip count 3
FLIP = {'flip_slices__rintegral_constant_i_3': 4}
UNITS = [
    # concrete-geometry bounded units: the real rearranging views end to end (decorator / indexing_t / indexer / ndarray glue)
    Unit('k.transpose_axes.bounded', 'c03k', 'verif_k_transpose_axes', mode='bp', plain=True, unwind=8, unwind_loops={'.': 8}, timeout=1500, object_bits=12,
         bounded='one concrete geometry, symbolic int elements, all loops unwound 8 times', waive=[r'arithmetic overflow on (signed to unsigned|unsigned to signed) type conversion'],
         clause='transpose with explicit axes (2,0,1) of a (1,2,3) array: shape and every element as NumPy'),
    Unit('k.swapaxes.bounded', 'c03k', 'verif_k_swapaxes', mode='bp', plain=True, unwind=8, unwind_loops={'.': 8}, timeout=1500, object_bits=12,
         bounded='one concrete geometry, symbolic int elements, all loops unwound 8 times', waive=[r'arithmetic overflow on (signed to unsigned|unsigned to signed) type conversion'],
         clause='swapaxes(0,2) of a (1,2,3) array: shape and every element as NumPy'),
    Unit('k.moveaxis.bounded', 'c03k', 'verif_k_moveaxis', mode='bp', plain=True, unwind=8, unwind_loops={'.': 8}, timeout=1500, object_bits=12,
         bounded='one concrete geometry, symbolic int elements, all loops unwound 8 times', waive=[r'arithmetic overflow on (signed to unsigned|unsigned to signed) type conversion'],
         clause='moveaxis(-1,0) of a (1,2,3) array: shape and every element as NumPy'),
    Unit('k.expand_dims.bounded', 'c03k', 'verif_k_expand_dims', mode='bp', plain=True, unwind=8, unwind_loops={'.': 8}, timeout=1500, object_bits=12,
         bounded='one concrete geometry, symbolic int elements, all loops unwound 8 times', waive=[r'arithmetic overflow on (signed to unsigned|unsigned to signed) type conversion'],
         clause='expand_dims(1) of a (2,3) array: shape and every element as NumPy'),
    Unit('k.expand_dims_list.bounded', 'c03k', 'verif_k_expand_dims_list', mode='bp', plain=True, unwind=8, unwind_loops={'.': 8}, timeout=1500, object_bits=12,
         bounded='one concrete geometry, symbolic int elements, all loops unwound 8 times', waive=[r'arithmetic overflow on (signed to unsigned|unsigned to signed) type conversion'],
         clause='expand_dims with a list of negative axes (-1,-2) of a (2,3) array: shape (2,3,1,1) and every element as NumPy'),
    Unit('k.squeeze.bounded', 'c03k', 'verif_k_squeeze', mode='bp', plain=True, unwind=8, unwind_loops={'.': 8}, timeout=1500, object_bits=12,
         bounded='one concrete geometry, symbolic int elements, all loops unwound 8 times', waive=[r'arithmetic overflow on (signed to unsigned|unsigned to signed) type conversion'],
         clause='squeeze of a (2,1,3) array: shape and every element as NumPy'),
    Unit('k.flatten.bounded', 'c03k', 'verif_k_flatten', mode='bp', plain=True, unwind=8, unwind_loops={'.': 8}, timeout=1500, object_bits=12,
         bounded='one concrete geometry, symbolic int elements, all loops unwound 8 times', waive=[r'arithmetic overflow on (signed to unsigned|unsigned to signed) type conversion'],
         clause='flatten of the transposed (2,3) array: C order of the view: shape and every element as NumPy'),
    Unit('k.flip_axis.bounded', 'c03k', 'verif_k_flip_axis', mode='bp', plain=True, unwind=8, unwind_loops={'.': 8}, timeout=1500, object_bits=12,
         bounded='one concrete geometry, symbolic int elements, all loops unwound 8 times', waive=[r'arithmetic overflow on (signed to unsigned|unsigned to signed) type conversion'],
         clause='flip(axis=0) of a (2,3) array: shape and every element as NumPy'),
    Unit('k.flip_none.bounded', 'c03k', 'verif_k_flip_none', mode='bp', plain=True, unwind=8, unwind_loops={'.': 8}, timeout=1500, object_bits=12,
         bounded='one concrete geometry, symbolic int elements, all loops unwound 8 times', waive=[r'arithmetic overflow on (signed to unsigned|unsigned to signed) type conversion'],
         clause='flip(None) of a (2,3) array: every axis: shape and every element as NumPy'),
    Unit('k.reshape.bounded', 'c03k', 'verif_k_reshape', mode='bp', plain=True, unwind=8, unwind_loops={'.': 8}, timeout=1500, object_bits=12,
         bounded='one concrete geometry, symbolic int elements, all loops unwound 8 times', waive=[r'arithmetic overflow on (signed to unsigned|unsigned to signed) type conversion'],
         clause='reshape (2,3) -> (3,-1): shape and every element as NumPy'),

    Unit('normalize_axis.bp', 'c03', 'verif_normalize_axis', mode='bp', unwind=10, clause='axis arguments: valid iff -ndim <= axis < ndim, value axis mod ndim'),
    Unit('normalize_axes.bp', 'c03', 'verif_normalize_axes', mode='bp', unwind=10, clause='axis lists: valid iff every entry is; entries normalised'),
    Unit('shape_transpose_none.bp', 'c03', 'verif_shape_transpose_none', mode='bp', unwind=10, clause='transpose default: shape reversed'),
    Unit('shape_transpose.bp', 'c03', 'verif_shape_transpose', mode='bp', unwind=10, clause='transpose explicit axes: shape[k] = src.shape[axes[k]]'),
    Unit('reverse.bp', 'c03', 'verif_reverse', mode='bp', unwind=10, clause='transpose default / flip: source index is the reversed index'),
    Unit('scatter.bp', 'c03', 'verif_scatter', mode='bp', unwind=10, clause='transpose explicit axes: source index y with y[axes[k]] = x[k]'),
    Unit('gather.bp', 'c03', 'verif_gather', mode='bp', unwind=10, clause='gather(x,p)[k] = x[p[k]]'),
    Unit('reverse_reverse.bp', 'c03', 'verif_reverse_reverse', mode='bp', unwind=10, clause='flipping / default-transposing twice restores the index'),
    Unit('gather_scatter.bp', 'c03', 'verif_gather_scatter', mode='bp', unwind=10, clause='gather undoes scatter for every permutation'),
    Unit('scatter_scatter_inv.bp', 'c03', 'verif_scatter_scatter_inv', mode='bp', unwind=10, clause='transpose by p then by p^-1 restores every element'),
    Unit('shape_transpose_inv.bp', 'c03', 'verif_shape_transpose_inv', mode='bp', unwind=10, clause='transpose by p then by p^-1 restores the shape'),
    Unit('product.contract.uf', 'c03', 'nmtools::index::product[rstatic_vector_ul_8]', mode='uf', unwind=10, clause='helper: numel = product of the extents'),
    Unit('count_negative_reshape.contract.uf', 'c03', 'nmtools::index::count_negative_reshape', mode='uf', unwind=10, clause='helper: (#-1, product of the known extents)'),
    Unit('count_negative_reshape.uf', 'c03', 'verif_count_negative_reshape', mode='uf', unwind=10, clause='reshape: number of -1 entries and product of the others'),
    Unit('shape_reshape.uf', 'c03', 'verif_shape_reshape', mode='uf', unwind=10, clause='reshape incl. one -1: accepted iff NumPy accepts; resulting shape'),
    Unit('shape_reshape.safe.bp', 'c03', 'verif_shape_reshape_safe', mode='bp', unwind=10,
         replace=['nmtools::index::product[rstatic_vector_ul_8]', 'nmtools::index::count_negative_reshape'], clause='reshape never crashes (no division by zero), any arguments'),
    Unit('shape_expand_dims.bp', 'c03', 'verif_shape_expand_dims', mode='bp', unwind=10, clause='expand_dims: a 1 inserted at axis mod (ndim+1)'),
    Unit('shape_squeeze.bp', 'c03', 'verif_shape_squeeze', mode='bp', unwind=10, unwind_loops=HYB, clause='squeeze: the extents != 1 in order'),
    Unit('shape_atleast_1d.bp', 'c03', 'verif_shape_atleast_1d', mode='bp', unwind=10, unwind_loops=HYB, clause='atleast_1d shape'),
    Unit('shape_atleast_2d.bp', 'c03', 'verif_shape_atleast_2d', mode='bp', unwind=10, unwind_loops=HYB, clause='atleast_2d shape'),
    Unit('shape_atleast_3d.bp', 'c03', 'verif_shape_atleast_3d', mode='bp', unwind=10, unwind_loops=HYB, clause='atleast_nd (nd=3): ones prepended'),
    Unit('shape_flatten.uf', 'c03', 'verif_shape_flatten', mode='uf', unwind=10, clause='flatten: single extent = element count'),
    Unit('swapaxes_to_transpose.bp', 'c03', 'verif_swapaxes_to_transpose', mode='bp', unwind=10, clause='swapaxes = transpose with the two axes exchanged'),
    Unit('moveaxis_to_transpose.bp', 'c03', 'verif_moveaxis_to_transpose', mode='bp', unwind=10,
         unwind_loops={'moveaxis_to_transpose__rstatic_vector_ul_8_ri_ri': 2, r'argsort__rarr_\w+_1': 3, 'normalize_axis__rarr_i_1': 3, 'lambda_moveaxis_to_transpose_2': 3, 'lambda_moveaxis_to_transpose_3': 3},
         clause='moveaxis (scalar axes) = transpose with numpy\'s moveaxis permutation'),
    Unit('moveaxis_l2.bp', 'c03', 'verif_moveaxis_to_transpose_l2', mode='bp', unwind=10,
         unwind_loops={'moveaxis_to_transpose__rstatic_vector_ul_8_rarr_i_2_rarr_i_2': 3, r'argsort__rarr_\w+_2': 3, 'normalize_axis__rarr_i_2': 3,
                       'lambda_moveaxis_to_transpose_1': 3, 'lambda_moveaxis_to_transpose_2': 3, 'lambda_moveaxis_to_transpose_3': 3},
         clause='moveaxis (axis lists of length 2, any rank 0..8) = transpose with numpy\'s moveaxis permutation; Nothing iff numpy raises'),
    Unit('moveaxis_list.bounded', 'c03', 'verif_moveaxis_to_transpose_list', mode='bp', plain=True, unwind=10, timeout=1500, object_bits=12,
         unwind_loops={'.': 9, 'argsort': 4, 'normalize_axis': 4, 'lambda_moveaxis_to_transpose_1': 4, 'lambda_moveaxis_to_transpose_2': 4, 'lambda_moveaxis_to_transpose_3': 4},
         bounded='axis lists (utl::static_vector<int,8>) of length <= 3 (source and destination independently, so length mismatches are included), every rank 0..8: all loops unwound (list loops 4x, rank loops 9x, unwinding assertions); lists of length 4..8 are not examined (length 8 exceeded 25 min)',
         clause='moveaxis (axis lists of length 0..3) = transpose with numpy\'s moveaxis permutation; Nothing iff numpy raises'),
    Unit('flip_slices3.bp', 'c03', 'verif_flip_slices3', mode='bp', unwind=10, unwind_loops=FLIP, clause='flip(axis): step -1 exactly on axis mod ndim (rank 3)'),
    Unit('flip_slices3_axes.bp', 'c03', 'verif_flip_slices3_axes', mode='bp', unwind=10, unwind_loops=FLIP, clause='flip(axes): step -1 exactly on the listed axes mod ndim (rank 3)'),
    Unit('flip_slices3_none.bp', 'c03', 'verif_flip_slices3_none', mode='bp', unwind=10, unwind_loops=FLIP, clause='flip(None): every axis reversed (rank 3)'),
]
