# C17 -- neural-network routines: output-shape formulas and window indexing
META = dict(level='proof', level_text='wip', level_note='wip', trusted_base=[], assumptions=[], not_covered=[])
UNITS = [
    Unit('shape_pool2d.bp', 'c17', 'verif_shape_pool2d', mode='bp', unwind=10, clause='pooling output shape, floor and ceil mode'),
    Unit('shape_pool2d_sv.bp', 'c17', 'verif_shape_pool2d_sv', mode='bp', unwind=10, clause='pooling output shape, floor and ceil mode (rank 2..8: leading axes kept)'),
    Unit('slice_pool2d.bp', 'c17', 'verif_slice_pool2d', mode='bp', unwind=10, unwind_loops={'slice_pool2d': 3}, clause='pooling window [o*s, min(o*s+k, n)) incl. the overhanging last window'),
    Unit('shape_sliding_window_axes.bp', 'c17', 'verif_shape_sliding_window_axes', mode='bp', unwind=12, unwind_loops={'normalize_axis__rarr_i_2': 3, 'shape_sliding_window__rstatic_vector_ul_8_rarr_ul_2_rarr_i_2': 3}, clause='sliding window shape: listed axes shrink by window-1, window extents appended'),
    Unit('shape_sliding_window_none.bp', 'c17', 'verif_shape_sliding_window_none', mode='bp', unwind=12, clause='sliding window shape (axis=None): every axis shrinks by its window-1, window extents appended'),
    Unit('sliding_window_axes.bp', 'c17', 'verif_sliding_window_axes', mode='bp', unwind=12, unwind_loops={'index_sliding_window__rstatic_vector_ul_10': 3}, timeout=1500, clause='sliding window index: src = dst window origin + offset in window; inside the source shape'),
    Unit('sliding_window_none.bp', 'c17', 'verif_sliding_window_none', mode='bp', unwind=12, clause='sliding window index (axis=None): src = origin + offset; inside the source shape'),
    Unit('conv_reshape_input.bp', 'c17', 'verif_conv_reshape_input', mode='bp', unwind=12, unwind_loops={'conv_reshape_input': 3}, clause='conv: input viewed as (N, 1, G, C/G, H, W) -- batch kept, channels split into groups'),
    Unit('conv_reshape_weight.bp', 'c17', 'verif_conv_reshape_weight', mode='bp', unwind=12, unwind_loops={'conv_reshape_weight': 2}, clause='conv: weight viewed with a group axis such that output channel c belongs to group c / (Co/G)'),
    Unit('conv_reshape_reduce.uf', 'c17', 'verif_conv_reshape_reduce', mode='uf', unwind=12, unwind_loops={'conv_reshape_reduce': 4}, clause='conv: summed result viewed as (N, Co, H_out, W_out)'),
    Unit('conv_reshape_bias.bp', 'c17', 'verif_conv_reshape_bias', mode='bp', unwind=12, clause='conv: bias viewed as (Co, 1, 1)'),
    Unit('conv_kernel_size.bp', 'c17', 'verif_conv_kernel_size', mode='bp', unwind=12, unwind_loops={'conv_kernel_size': 3}, clause='conv: window extents (kw, kh) for the window axes (-1, -2)'),
    Unit('conv_expand_spacing.bp', 'c17', 'verif_conv_expand_spacing', mode='bp', unwind=12, unwind_loops={'conv_expand_spacing': 3}, clause='conv: dilation index helper -- spacing per window axis'),
    Unit('conv_pad.bp', 'c17', 'verif_conv_pad', mode='bp', unwind=12, unwind_loops={'conv_pad': 3}, clause='conv: zero padding widths on the two spatial axes only'),
]
