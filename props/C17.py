# C17 -- neural-network routines: output-shape formulas and window indexing
META = dict(
    level='proof',
    level_text='Only output-shape formulas and window / index helpers are covered, not element values. '
               'Proved for every input satisfying the stated preconditions (loops closed by loop contracts or of constant trip count; bit-precise incl. the float kernel): '
               'index::shape_pool2d equals the PyTorch output-extent formula in floor mode and in ceil mode (incl. the rule that the last window must start inside the input) for spatial extents / strides 1..256, '
               'outside the known finding (ceil mode with stride > kernel keeps a window that starts beyond the input); '
               'index::slice_pool2d yields for every PyTorch output position the window [o*s, o*s+k) which starts inside the input, never overhangs in floor mode and overhangs by less than k in ceil mode (apply_slice clamps the stop: effective window [o*s, min(o*s+k, n))); '
               'index::shape_sliding_window / index::sliding_window equal numpy sliding_window_view (shape; src index = window origin + in-window offset, always inside the source shape); '
               'the convnd argument helpers (input / weight / reduce / bias reshapes, kernel size, dilation spacing, padding widths) produce the shapes PyTorch semantics require, outside three known findings '
               '(batch extent dropped, grouped weight layout, dilation order). The composition of the stage formulas into floor((n+2p-d(k-1)-1)/s)+1 is a Lean lemma.',
    level_note='Element values (sums over windows, max/avg, bias, normalisations) are NOT verified. The float kernel of shape_pool2d is decided bit-precisely by SAT, which bounds the extents: quick tier 1..256 '
               '(the property needs 1..7); measured on the kernel alone: 4096 takes 1-2 min per axis and mode, 65536 > 10 min; the whole unit with bound 1024 takes 2 min, with 4096 > 5 min. Beyond 2^24 the float formula is wrong: n-k = 16777219, s = 2 gives 8388611 instead of 8388610 (float has 24 bits). '
               'Trusted: clang AST, cxx2c rendering, CBMC, C models of std::array; Lean 4 kernel for the composition lemma.',
    trusted_base=['clang 14 front end (AST of the instantiated templates)', 'engine/cxx2c.py (C++ AST -> C rendering)',
                  'cbmc 6.11.0 / goto-instrument --dfcc (contract instrumentation, SAT back end, IEEE-754 float model)',
                  'C models of std::array / std::optional (generated prelude)',
                  'spec/c17.h: PyTorch pooling_output_shape and numpy sliding_window_view written as C predicates',
                  'lemmas/c17_conv_out.lean: stage formulas (pad n+2p, dilated kernel k+(k-1)(d-1), window count m-ke+1, strided length ceil(m/s)) are taken from the contracts of C04 (pad), C17 (sliding window) and C05 (slice length); their composition is the lemma'],
    assumptions=['configuration -DNDEBUG, STL enabled; pooling on NCHW shapes std::array<size_t,4> and on utl::static_vector<size_t,8> (rank 2..8), kernel/stride std::array<size_t,2>, run-time bool ceil_mode',
                 'pooling arguments with a positive output size: 1 <= kernel <= extent, stride >= 1 (the view does not check; kernel > extent wraps around in size_t and overflows the float->int conversion), extents and strides <= 256',
                 'slice_pool2d: output position inside the PyTorch output shape (the view uses the shape computed by shape_pool2d, which differs inside the known-finding region)',
                 'sliding window: window extents >= 1 and fitting the axis (numpy raises otherwise; the library does not check), axes in range; extents <= INT_MAX for the axes kind',
                 'conv helpers: n_planes = 2 (conv2d); weight helper contract uses symbolic division and is decided for Co, groups <= 64 with groups | Co; conv_reshape_input / conv_reshape_reduce: division / product uninterpreted (mode uf)'],
    not_covered=['element values of conv / pooling (sum over the window, max, mean, bias add): composition over the view pipeline',
                 'softmax / softmin, batch / layer / instance / group norm, linear, bilinear, pairwise_distance, cosine_similarity: float compositions without an index helper of their own',
                 'conv_window_axis, conv_sum_axes, conv_slices for a compile-time n_planes: results are compile-time constants (type level, no code)',
                 'conv1d (n_planes = 1) instantiations of the helpers (same code, other constant)',
                 'compile-time (constant index) shape paths and the maybe-lifting glue',
                 'pooling with padding / dilation (not implemented by the library)'],
)
UNITS = [
    # concrete-geometry bounded units: the real conv2d / pooling views end to end (float ops uninterpreted, mode fuf)
    Unit('max_pool_3x3_ceil.bounded', 'c17k', 'verif_max_pool_3x3_ceil', mode='bp', plain=True, unwind=12, unwind_loops={'.': 12}, timeout=1800, object_bits=12,
         bounded='input (1,1,3,3), kernel 2, stride 2, ceil mode; symbolic NaN-free floats; all loops unwound 12 times', waive=[r'arithmetic overflow on (signed to unsigned|unsigned to signed) type conversion'],
         clause='max pooling with overhanging last windows: each output is the maximum of the part of the window inside the input'),
    Unit('shape_pool2d.bp', 'c17', 'verif_shape_pool2d', mode='bp', extra=['--sat-solver', 'cadical'], unwind=10, clause='pooling output shape, floor and ceil mode'),
    Unit('shape_pool2d_sv.bp', 'c17', 'verif_shape_pool2d_sv', mode='bp', extra=['--sat-solver', 'cadical'], unwind=10, clause='pooling output shape, floor and ceil mode (rank 2..8: leading axes kept)'),
    Unit('slice_pool2d.bp', 'c17', 'verif_slice_pool2d', mode='bp', extra=['--sat-solver', 'cadical'], unwind=10, unwind_loops={'slice_pool2d': 3}, clause='pooling window [o*s, min(o*s+k, n)) incl. the overhanging last window'),
    Unit('shape_sliding_window_axes.bp', 'c17', 'verif_shape_sliding_window_axes', mode='bp', extra=['--sat-solver', 'cadical'], unwind=12, unwind_loops={'normalize_axis__rarr_i_2': 3, 'shape_sliding_window__rstatic_vector_ul_8_rarr_ul_2_rarr_i_2': 3}, clause='sliding window shape: listed axes shrink by window-1, window extents appended'),
    Unit('shape_sliding_window_none.bp', 'c17', 'verif_shape_sliding_window_none', mode='bp', unwind=12, clause='sliding window shape (axis=None): every axis shrinks by its window-1, window extents appended'),
    Unit('sliding_window_axes.bp', 'c17', 'verif_sliding_window_axes', mode='bp', unwind=12, tier='thorough', timeout=3000, unwind_loops={'index_sliding_window__rstatic_vector_ul_10': 3}, extra=['--sat-solver', 'cadical'], clause='sliding window index: src = dst window origin + offset in window; inside the source shape'),
    Unit('sliding_window_conv.bp', 'c17', 'verif_sliding_window_conv', mode='bp', unwind=12, unwind_loops={'index_sliding_window__rstatic_vector_ul_10': 3}, extra=['--sat-solver', 'cadical'], clause='sliding window index for the axes convnd uses (-1,-2): src = window origin + offset in window; inside the source shape'),
    Unit('sliding_window_none.bp', 'c17', 'verif_sliding_window_none', mode='bp', extra=['--sat-solver', 'cadical'], unwind=12, clause='sliding window index (axis=None): src = origin + offset; inside the source shape'),
    Unit('conv_reshape_input.uf', 'c17', 'verif_conv_reshape_input', mode='uf', unwind=12, unwind_loops={'conv_reshape_input': 3}, clause='conv: input viewed as (N, 1, G, C/G, H, W) -- batch kept, channels split into groups'),
    Unit('conv_reshape_weight.bp', 'c17', 'verif_conv_reshape_weight', mode='bp', unwind=12, unwind_loops={'conv_reshape_weight': 2}, clause='conv: weight viewed with a group axis such that output channel c belongs to group c / (Co/G)'),
    Unit('conv_reshape_reduce.uf', 'c17', 'verif_conv_reshape_reduce', mode='uf', unwind=12, unwind_loops={'conv_reshape_reduce': 4}, clause='conv: summed result viewed as (N, Co, H_out, W_out)'),
    Unit('conv_reshape_bias.bp', 'c17', 'verif_conv_reshape_bias', mode='bp', unwind=12, clause='conv: bias viewed as (Co, 1, 1)'),
    Unit('conv_kernel_size.bp', 'c17', 'verif_conv_kernel_size', mode='bp', unwind=12, unwind_loops={'conv_kernel_size': 3}, clause='conv: window extents (kw, kh) for the window axes (-1, -2)'),
    Unit('conv_expand_spacing.bp', 'c17', 'verif_conv_expand_spacing', mode='bp', unwind=12, unwind_loops={'conv_expand_spacing': 3}, clause='conv: dilation index helper -- spacing per window axis'),
    Unit('conv_slices.bp', 'c17', 'verif_conv_slices', mode='bp', unwind=12, clause='conv: per-axis stride (sh, sw) becomes the slice steps on (H, W) in that order'),
    Unit('max_reducer.bounded', 'c17', 'verif_max_reducer', mode='bp', plain=True, unwind=8, unwind_loops={'.': 8}, object_bits=12, timeout=1500,
         bounded='one 2x2 int window; all loops unwound 8 times', waive=[r'arithmetic overflow on (signed to unsigned|unsigned to signed) type conversion'],
         clause='max pooling: the reducer applied to a window returns the maximum of its elements'),
    Unit('conv_pad.bp', 'c17', 'verif_conv_pad', mode='bp', unwind=12, unwind_loops={'conv_pad': 3}, clause='conv: zero padding widths on the two spatial axes only'),
]
LEMMAS = [
    Lemma('conv_out_extent', 'c17_conv_out.lean', clause='conv output extent: the composed stage formulas equal floor((n + 2p - d(k-1) - 1)/s) + 1'),
]
