# C20 -- array objects keep their invariants under construction / resize / copy / assign
META = dict(
    level='proof',
    level_text='Generic ndarray_t<static_vector<float,6>, static_vector<size_t,4>> in both layouts (buffer bounded by 6, dimension bounded by 4, every 64-bit extent) and the legacy hybrid_ndarray<float,6,2>: each operation is proved by CBMC (dfcc) from an ARBITRARY object state (any data_/shape_/strides_/offset_ contents with lengths within capacity). Default construction establishes Inv (element count == product of shape; strides_ == row-major strides of shape_; offset functor == shape/strides for row-major, reversed shape / products of the leading extents for column-major; equal lengths); resize returns true => Inv(new) and shape == argument, returns false => every component of the object unchanged; copy construction and assignment (row-major) reproduce the source state. All symbolic-trip loops (product, stride, compute_strides, reverse, the copy loops of resize / offset functor operator= / static_vector::operator=) are closed by loop contracts; the rank-2 std::array helper loops of hybrid_ndarray have a compile-time trip count and are unwound. Holds for every operation history by induction over Inv. The refusal clause failed on the original tree (resize committed shape_ before validating; confirmed by native replay) - recorded as known finding / fixed by the validate-then-commit patch.',
    level_note='Products are uninterpreted (mode uf) with sound axioms: "product of the shape" is the machine product (mod 2^64) and a column-major stride is the product S[g-1]*...*S[0] in the order the code folds it (any order is equal for the machine operator; associativity is not derived by the tool). Column-major units are modular: index::product / compute_strides / reverse are proved against function contracts for an arbitrary argument and used through them; verif_nd_mk / verif_ndc_mk (object from components) likewise. Trusted: clang AST, cxx2c rendering, CBMC.',
    trusted_base=[
        'clang 14 front end (AST of the instantiated templates)', 'engine/cxx2c.py (C++ AST -> C rendering; translation validation agrees on random inputs for all three insts)',
        'cbmc 6.11.0 / goto-instrument --dfcc (contract instrumentation and replacement, SAT back end)',
        'C model of std::array<T,N> ({_M_elems[N]}) for hybrid_ndarray',
        'bounded C model of std::vector ({_M_elems[8], _M_size}; resize value-initialises new cells; growing past 8 is an assertion failure of the model) for dynamic_ndarray',
        'entry wrappers build the ndarray from plain components (inst/c20*.cpp put4/put6, verif_nd_mk / verif_ndc_mk, themselves under contract)',
    ],
    assumptions=[
        'UF mode: unsigned long * is an uninterpreted function constrained by the axioms in models/prelude.h (each a theorem of machine arithmetic)',
        'ghost traces PP / HP (folds of product / stride over a shape) are functional definitions assumed in the precondition (row-major units) or in the unit harness for the helper-contract units; unit nd.mk assumes them for the default shape (1) in its harness (ghost-only assumptions)',
        'representation invariants of the bounded vectors (size_ <= capacity) are preconditions (C19)',
        'dynamic_ndarray units: prior state arbitrary (members stored directly), request limited to <= 8 dimensions and product <= 8 (capacity of the vector model); glue loops of the wrappers (verif_to_lv / verif_to_sv, trip count <= 8) unwound completely',
        'configuration: -DNDEBUG, STL enabled',
    ],
    not_covered=[
        'the other ndarray_t kinds: fixed buffer, fixed / clipped / constant shape, dynamic (std::vector) buffer or shape; the clipped-shape checks in resize still run after data_.resize',
        'legacy fixed_ndarray; dynamic_ndarray: construction from an array / operator= (resize is covered for <= 8 dimensions and <= 8 elements: std::vector is a bounded C model of capacity 8); hybrid_ndarray copy/assign and other ranks',
        'copy / assignment of the column-major instantiation',
        'cast / cast_kind, mutable views (mutable_slice / reshape / flatten / ref), element access operator() (C02)',
        'extents whose product exceeds 2^64 (resize((2^32,2^32)) is accepted with 0 elements: modular product)',
        'contents of data_ after an accepted resize (the property only constrains the refused case)',
        'ndarray_t::strides_ of a column-major array holds ROW-major strides (only offset_.strides_ follows the layout); specified as such, not judged',
    ],
)
MK = ['verif_nd_mk']
CALLEES = ['nmtools::index::product', 'nmtools::index::compute_strides', 'nmtools::index::reverse']
TR = '  __CPROVER_assume(c20_traces(%s));'
HYL = {'hybrid_ndarray.*resize': 3, 'detail_init_': 3}
UNITS = [
    Unit('nd.mk', 'c20', 'verif_nd_mk', mode='uf', unwind=10, harness='  __CPROVER_assume(c20_traces_default());',
         clause='(helper) an object with exactly the given state; used through this contract by the other units'),
    Unit('nd.default', 'c20', 'verif_nd_default', mode='uf', unwind=10, clause='default construction establishes the invariant'),
    Unit('nd.resize', 'c20', 'verif_nd_resize', mode='uf', unwind=10, replace=MK,
         clause='accepted resize: invariant and shape == argument; refused resize: false and the whole object unchanged'),
    Unit('nd.copy', 'c20', 'verif_nd_copy', mode='uf', unwind=10, replace=MK, clause='copy construction yields the same state'),
    Unit('nd.assign', 'c20', 'verif_nd_assign', mode='uf', unwind=10, replace=MK, clause='assignment yields the state of the right-hand side'),
    # ---- column-major layout (inst c20c): modular, index helpers through function contracts
    Unit('ndc.product', 'c20c', 'nmtools::index::product', mode='uf', unwind=10, harness=TR % 'a_shape', clause='(helper contract) product == fold of the extents'),
    Unit('ndc.compute_strides', 'c20c', 'nmtools::index::compute_strides', mode='uf', unwind=10, harness=TR % 'a_shape', clause='(helper contract) row-major strides of the argument, every position'),
    Unit('ndc.reverse', 'c20c', 'nmtools::index::reverse', mode='uf', unwind=10, clause='(helper contract) reversed copy, every position'),
    Unit('ndc.mk', 'c20c', 'verif_ndc_mk', mode='uf', unwind=10, replace=CALLEES, clause='(helper) an object with exactly the given state'),
    Unit('ndc.default', 'c20c', 'verif_ndc_default', mode='uf', unwind=10, replace=CALLEES, clause='column-major: default construction establishes the invariant'),
    Unit('ndc.resize', 'c20c', 'verif_ndc_resize', mode='uf', unwind=10, replace=['verif_ndc_mk'] + CALLEES, object_bits=10,
         clause='column-major: accepted resize: invariant (layout strides = products of the leading extents) and shape == argument; refused: whole object unchanged'),
    # ---- legacy hybrid_ndarray<float,6,2> (inst c20h): products uninterpreted (bit-precise 64-bit multiply times out), constant-trip helper loops unwound
    Unit('hy.default', 'c20h', 'verif_hy_default', mode='uf', unwind=10, unwind_loops=HYL, clause='hybrid_ndarray: default construction establishes the invariant'),
    Unit('hy.resize', 'c20h', 'verif_hy_resize', mode='uf', unwind=10, unwind_loops=HYL, clause='hybrid_ndarray: accepted resize: invariant and shape == argument; refused: whole object unchanged'),
    Unit('dy.resize_sv', 'c20d', 'verif_dy_resize_sv', mode='uf', unwind=10, unwind_loops={'verif_to_': 10}, clause='dynamic_ndarray: resize(index array) leaves shape == argument, strides == row-major strides, numel == data.size() == product'),
    Unit('dy.resize_lv', 'c20d', 'verif_dy_resize_lv', mode='uf', unwind=10, unwind_loops={'verif_to_': 10}, clause='dynamic_ndarray: resize(std::vector) likewise'),
    Unit('dy.resize_2', 'c20d', 'verif_dy_resize_2', mode='uf', unwind=10, unwind_loops={'verif_to_': 10}, clause='dynamic_ndarray: resize(n0,n1) likewise'),
    Unit('hy.resize2', 'c20h', 'verif_hy_resize2', mode='uf', unwind=10, unwind_loops=HYL, clause='hybrid_ndarray: resize(n0,n1) overload'),
]
