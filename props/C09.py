# C09 -- results independent of container kind (run-time kinds only)
META = dict(
    level='proof',
    level_text='For stride / compute_strides / compute_offset / compute_indices / product the fixed-size instantiation (nmtools_array<size_t,3>: the meta::template_for branches, different source text) and a mixed fixed/bounded instantiation are proved against literally the same postcondition predicates as the bounded kind (utl::static_vector<size_t,8>, for-loop branches, property C01). Since each postcondition fixes the logical result as a function of the logical inputs, instantiations that all satisfy it agree with each other.',
    level_note='Only run-time container kinds (fixed std::array, bounded static_vector, mixed). Compile-time constant / clipped index kinds, the 15 ndarray shape x buffer kinds, Boost containers and gcc-vs-clang are facts about template instantiation for which no function contract exists (not applicable part).',
    trusted_base=['clang 14 front end', 'engine/cxx2c.py', 'cbmc 6.11.0 --dfcc', 'C model of std::array', 'bounded C model of std::vector (inline array of 8 elements + size; resize value-initialises; exceeding 8 is an assertion failure of the model)'],
    assumptions=['UF mode for * / % with the axioms of models/prelude.h', 'kind F fixed at N=3 (the template_for expansion is per N)'],
    explanation='Kind F (std::array<size_t,3>) takes the meta::template_for branches, kind B (utl::static_vector<size_t,8>) the run-time for branches; both are discharged against the same post_ predicates of spec/c01.h (kind F through sv_of_a3).',
    not_covered=['constant (ct) and clipped index kinds (values computed in the type by resolve_optype)', 'dynamic lists longer than 8 (std::vector is a bounded model of capacity 8 in the extracted C)', 'ndarray kinds, Boost containers, NMTOOLS_DISABLE_STL configuration', 'compile-time vs run-time evaluation (constexpr) equality'],
)
UNITS = [
    Unit('F.stride.uf', 'c09', 'verif_f_stride', mode='uf', unwind=10, clause='fixed-size kind gives the same stride as the bounded kind'),
    Unit('F.compute_strides.uf', 'c09', 'verif_f_compute_strides', mode='uf', unwind=10, clause='fixed-size kind: same strides'),
    Unit('F.compute_offset.uf', 'c09', 'verif_f_compute_offset', mode='uf', unwind=10, clause='fixed-size kind: same offset'),
    Unit('F.compute_indices.uf', 'c09', 'verif_f_compute_indices3', mode='uf', unwind=10, clause='fixed-size kind: same indices'),
    Unit('F.product.uf', 'c09', 'verif_f_product', mode='uf', unwind=10, clause='fixed-size kind: same product'),
    Unit('F32.compute_offset.uf', 'c09', 'verif_f32_compute_offset', mode='uf', unwind=10, clause='fixed-size kind with 32-bit elements: same offset (products carried out in size_t)'),
    Unit('M32.compute_offset.uf', 'c09', 'verif_m32_compute_offset', mode='uf', unwind=10, clause='mixed 32-bit fixed / bounded kinds: same offset'),
    Unit('M.compute_offset.uf', 'c09', 'verif_m_compute_offset', mode='uf', unwind=10, clause='mixed fixed/bounded kinds: same offset'),
    # kind D: dynamic lists (std::vector, bounded model of capacity 8); conversion loops of the wrapper glue are unwound completely
    Unit('D.stride.uf', 'c09', 'verif_d_stride', mode='uf', unwind=10, unwind_loops={'verif_to_': 10}, clause='dynamic-list kind gives the same stride as the bounded kind'),
    Unit('D.compute_strides.uf', 'c09', 'verif_d_compute_strides', mode='uf', unwind=10, unwind_loops={'verif_to_': 10}, clause='dynamic-list kind: same strides'),
    Unit('D.compute_offset.uf', 'c09', 'verif_d_compute_offset', mode='uf', unwind=10, unwind_loops={'verif_to_': 10}, clause='dynamic-list kind: same offset'),
    Unit('D.compute_indices.uf', 'c09', 'verif_d_compute_indices3', mode='uf', unwind=10, unwind_loops={'verif_to_': 10}, clause='dynamic-list kind: same indices'),
    Unit('D.product.uf', 'c09', 'verif_d_product', mode='uf', unwind=10, unwind_loops={'verif_to_': 10}, clause='dynamic-list kind: same product'),
] + import_units('C01', names=['stride.uf', 'compute_strides.uf', 'compute_offset.uf', 'compute_indices.uf', 'product.uf'], clause='bounded kind (reference instantiation)')
