# C10 -- eager evaluation returns exactly the lazy view
META = dict(
    level='proof',
    level_text='The real evaluator loop (evaluator_t<view,none>::operator()(output&), instantiated for a transpose view over the generic bounded ndarray and a bounded output array) is proved modularly: for every view shape of rank 0..4 and element count 0..6, if the output has the view shape then after the call output element i equals the view element at the i-th multi-index for EVERY i (the view is an uninterpreted pure function of the index, so the proof does not depend on which view it is); if the shapes differ the output buffer is untouched. The loop is closed by a loop contract; callees (shape, isequal, ndindex, apply_at) are used through their contracts.',
    level_note='Callee contracts: isequal is discharged in this property (unit isequal_sv4.contract); assumed (discharged elsewhere or trusted, see assumptions): ndindex[i]/size (C01), output addressing position = i at the i-th enumerated index (C01 + Lean lemma L1), shape(view) reports the view shape. The array::fn(args) front ends, eval() allocating its result (apply_resize) and column-major outputs are not covered.',
    explanation='Contract of the enforced function: requires the ghosts GS/GN/IDXV/VG to describe the view (shape, count, enumeration, values); ensures shape match ? forall p<GN: output[p] == VG[p] : output unchanged. "Composition is unobservable" follows because the contract holds for any pure view function (a view of a view is again a pure function of the index).',
    trusted_base=['clang 14 front end', 'engine/cxx2c.py', 'cbmc 6.11.0 --dfcc', 'callee contracts in contracts/c10.spec that are not re-proved here: shape(view) reports the shape the evaluator should use; apply_at(view, idx) is a pure function of the live part of idx'],
    assumptions=['output position of the i-th enumerated multi-index is i (C01 units ndindex_at.uf / compute_offset.uf + lemmas/MixedRadix.lean offset_indices_id) -- assumed by name (C10_POS_ENUM)',
                 'the output array satisfies its invariant (element count == product of the shape; C20) -- assumed as data_.size_ == GN when the shapes match',
                 'bounded containers: rank <= 4, element count <= 6 (capacities of the instantiated types; the proof text is macro-expanded over them)'],
    not_covered=['view-specific element semantics beyond the bounded transpose unit', 'eval() returning a freshly allocated array (apply_resize path)', 'column-major result layout beyond: the layout functor state (imported C20 ndc.* units, unbounded) and one concrete bounded evaluation', 'array::fn(args) front ends', 'the view-specific element semantics (C03/C04/C05 index functions)'],
)
HARNESS = '''  view_t vobj; struct none_t cobj;
  a_self.view = &vobj; a_self.context = &cobj;'''
UNITS = [
    Unit('isequal_sv4.contract', 'c10', 'nmtools::utils::isequal[rstatic_vector_ul_4_rstatic_vector_ul_4]', mode='bp', unwind=6,
         harness='  __CPROVER_assume(W4 == c10_first_diff(a_t, a_u));',
         clause='(callee contract used by the evaluator unit) isequal on the shapes is exact'),
    Unit('transpose_view_at.bounded', 'c10', 'verif_transpose_at', mode='bp', plain=True, unwind=8, unwind_loops={'.': 8}, timeout=1500, object_bits=12,
         bounded='rank <= 3, extents 1..6, element count <= 6 (all loops unwound)',
         clause='(view-specific side) the lazy transpose view yields at every index the element NumPy yields, through the real decorator/indexing/ndarray glue'),
    Unit('eval_into_fixed_rank.bounded', 'c10k', 'verif_eval_into_fixed_rank', mode='bp', plain=True, unwind=8, unwind_loops={'.': 8}, timeout=1500, object_bits=12,
         bounded='one concrete geometry (2x3 -> 3x2), symbolic elements, all loops unwound 8 times',
         waive=[r'arithmetic overflow on (signed to unsigned|unsigned to signed) type conversion'],
         clause='a supplied output of the right shape is filled also when its shape type is of another kind (fixed rank) than the view shape'),
    Unit('eval_into_colmajor.bounded', 'c10c', 'verif_eval_into_colmajor', mode='bp', plain=True, unwind=8, unwind_loops={'.': 8}, timeout=1500, object_bits=12,
         bounded='one concrete geometry (2x3 -> column-major 3x2), symbolic elements, all loops unwound 8 times',
         waive=[r'arithmetic overflow on (signed to unsigned|unsigned to signed) type conversion'],
         clause='column-major result layout: every element of the supplied output equals the view element at that index'),
    Unit('eval_flip_reshape.bounded', 'c10k', 'verif_eval_flip_reshape', mode='bp', plain=True, unwind=8, unwind_loops={'.': 8}, timeout=1500, object_bits=12,
         bounded='one concrete composition flip(reshape(a[6],(3,2)),-1), symbolic elements, all loops unwound 8 times',
         waive=[r'arithmetic overflow on (signed to unsigned|unsigned to signed) type conversion'],
         clause='a view of a (rank-changing, run-time rank) view evaluated once equals the two-step result'),
    Unit('evaluator_loop.abstract', 'c10', 'nmtools::array::evaluator_t::operator()[wndarray_t]', mode='bp', harness=HARNESS, unwind=12, timeout=1500, object_bits=12,
         replace=['nmtools::shape[rdecorator_t]', 'nmtools::utils::isequal[rstatic_vector_ul_4_rstatic_vector_ul_4]', 'nmtools::index::ndindex[rstatic_vector_ul_4]',
                  'nmtools::index::ndindex_t::size', 'nmtools::index::ndindex_t::operator[]',
                  'nmtools::apply_at[nmtools_apply_at__rdecorator_t]', 'nmtools::array::base_ndarray_t::offset'],
         clause='evaluating a view into a supplied output of the right shape makes every output element equal the view element at that index; a wrong-shaped output is left untouched'),
]
UNITS += import_units('C20', names=['ndc.product', 'ndc.compute_strides', 'ndc.reverse', 'ndc.mk', 'ndc.default', 'ndc.resize'],
                      clause='column-major result layout: the offset functor of a resized result holds the products of the leading extents (every position)')
