# C05 -- slicing follows Python/NumPy basic-indexing semantics
#
# Entry wrappers (inst/c05.cpp) call the real variadic index::shape_slice / index::slice with compile-time slice kinds:
#   verif_shape_slice_XYZ / verif_slice_XYZ     1-d a[start:stop:step], XYZ in {i,n}^3 (i = int part, n = None part): all 8 encodings
#   verif_*_2d_int_ii                           a[i, start:stop]         (integer drops its axis; 2-tuple slice encoding)
#   verif_*_ell                                 a[i, ::step, ..., j]     rank 3..8 symbolic; Ellipsis loop closed by a loop contract
#   verif_shape_dynamic_slice_1 / verif_dynamic_slice_1   run-time list encoding nmtools_array<array<int,3>,1> = [[start,stop,step]]
# Spec (spec/c05.h) = port of CPython's slice.indices(); postconditions: kept axis extent == Python's length; element k of the kept
# axis is source element start' + k*step.  Genuine deviations of nmtools from Python are recorded per wrapper as input regions in
# known_findings.json (43 regions); the contracts are PROVED on the complement of those regions.
META = dict(
    level='proof',
    level_text='Every wrapper contract (shape_slice: kept-axis extent == CPython slice.indices length, integers drop their axis, Ellipsis '
               'keeps its axes; slice: source index == start\' + k*step) is discharged by CBMC (dfcc, bit-precise incl. the float '
               'ceil(range/step) kernel) for ALL int start/stop, all extents 1..2^31-1 and symbolic rank 3..8 for the Ellipsis case, on the '
               'complement of the 43 recorded known-finding regions. Index contracts hold for every int step != 0 (the library\'s own '
               'k*step product is uninterpreted in UF mode); length contracts with an integer step are proved for 1 <= |step| <= 3 '
               '(the property\'s quantifier; float-vs-integer division equivalence is SAT-infeasible for wide divisors). start\'+k*step '
               'in [0,n) is a Lean lemma about the spec; checked directly by CBMC where step is None. The two Ellipsis loops are closed '
               'by loop contracts; the only unwound code loops are those of shape_dynamic_slice/dynamic_slice over a slice list of compile-time length 1.',
    level_note='Large parts of the input space are excluded as genuine defects (negative steps, crossed/out-of-range bounds, negative start with '
               'stop None, ranges > 2^24): see known_findings.json. What is proved is the remaining Python-conforming core. Length with |step| > 3 '
               'is not covered. Trusted: clang AST, cxx2c rendering, CBMC/CaDiCaL, Lean core, textual C<->Lean correspondence of py_slice_adjust.',
    trusted_base=[
        'clang 14 front end (AST of the instantiated templates)', 'engine/cxx2c.py (C++ AST -> C rendering; std::tuple modelled as struct {e0,e1,e2})',
        'cbmc 6.11.0 / goto-instrument --dfcc (contract instrumentation; SAT back ends minisat2 and CaDiCaL; IEEE-754 float model)',
        'spec/c05.h py_slice_adjust as a faithful port of CPython PySlice_Unpack/PySlice_AdjustIndices/PySlice_AdjustIndices length rule '
        '(cross-checked natively against the 36 finding witnesses and a brute-force sweep during development)',
        'Lean 4 core (lemmas/c05_slice_in_range.lean) and the line-by-line correspondence between pyAdjust/pyLen there and py_slice_adjust',
    ],
    assumptions=[
        'extents 1 <= n <= 2^31-1 (the library converts the extent to int); rank-1 shapes for the 8 encodings, rank 2 / rank 3..8 for the mixed cases',
        'length (shape_slice) contracts with an integer step: 1 <= |step| <= 3 (C05_STEP_MAX); index (slice) contracts: any int step != 0',
        'integer index i on an axis of extent n: -n <= i < n (Python raises IndexError otherwise); destination index k < Python length',
        'signed<->unsigned integer conversions are modular (C++17 [conv.integral]: defined for unsigned targets, implementation-defined = modular on '
        'gcc/clang for signed targets, mandated by C++20); CBMC --conversion-check reports on them are waived (listed under waived_checks); '
        'the float->int conversion check stays active',
        'UF mode (slice.* units with an int step): unsigned long * is an uninterpreted function constrained by the axioms in models/prelude.h; '
        'the spec uses the same product term, so the proof holds for the machine multiplication',
        'ghost cells C05_L0/C05_R0/C05_R1 are functional definitions assumed in the precondition (values stored before the Ellipsis loop)',
        'configuration: -DNDEBUG, STL enabled, shapes/indices utl::static_vector<size_t,8>, slice parts int / none_t / ellipsis_t / int index',
        'inputs inside the known-finding regions are excluded (requires !(region)); each region is re-confirmed natively on every run',
    ],
    not_covered=[
        'run-time slice lists with either-typed parts (nmtools_list<either<int,ellipsis,tuple,...>>), lists of more than one entry, 2-element [start,stop] entries; '
        'the run-time array<int,3> encoding is covered for a one-entry list only (agreement with the packed encoding follows from the common spec)',
        'view::slice / view::apply_slice / mutable_slice glue (only the index functions are under contract)',
        'length for |step| > 3 (incl. the UB of -step for step == INT_MIN)',
        'unsigned / size_t / compile-time-constant (ct<>) slice parts; fixed (std::array) and tuple shapes',
        'multi-axis combinations beyond a[i, a:b] and a[i, ::s, ..., j] (per-axis kernels are shared, bookkeeping proved for these two)',
        'everything inside the recorded known-finding regions',
    ],
)
V = ['iii', 'iin', 'ini', 'inn', 'nii', 'nin', 'nni', 'nnn']
# --conversion-check also flags signed<->unsigned integer conversions of out-of-range values. Those are not undefined behaviour in C++17
# (to-unsigned is modular [conv.integral]/2; to-signed is implementation-defined, modular on gcc/clang and since C++20) and the library
# relies on them deliberately (negative steps/starts are carried in unsigned index types). CBMC models them as modular, like the compilers.
# The float->int conversion check (real UB) stays active.
WAIVE = [r'arithmetic overflow on (signed to unsigned|unsigned to signed) type conversion']
CADICAL = ['--sat-solver', 'cadical']   # float division vs integer ceil-division: minisat2 needs > 300 s on shape_slice.iii, CaDiCaL ~40 s
DYN_LOOPS = {r'dynamic_slice': 3}
SHAPE = 'the sliced view has exactly the shape slice.indices gives (per kept axis)'
INDEX = 'element k along a kept axis is source element start\' + k*step'
UNITS = [Unit('shape_slice.%s' % v, 'c05', 'verif_shape_slice_%s' % v, mode='bp', extra=CADICAL, waive=WAIVE, timeout=900, clause=SHAPE) for v in V] + \
        [Unit('slice.%s' % v, 'c05', 'verif_slice_%s' % v, mode='uf' if v[2] == 'i' else 'bp', waive=WAIVE, clause=INDEX) for v in V] + [
    Unit('shape_slice.2d_int_ii', 'c05', 'verif_shape_slice_2d_int_ii', mode='bp', unwind=10, extra=CADICAL, waive=WAIVE, timeout=900,
         clause=SHAPE + '; integers drop their axis'),
    Unit('slice.2d_int_ii', 'c05', 'verif_slice_2d_int_ii', mode='bp', unwind=10, waive=WAIVE, clause=INDEX + '; integer index counted from the end'),
    Unit('shape_slice.ell', 'c05', 'verif_shape_slice_ell', mode='bp', unwind=10, extra=CADICAL, waive=WAIVE, timeout=900,
         clause=SHAPE + '; integers drop their axis; one ellipsis expands to the remaining axes'),
    Unit('slice.ell', 'c05', 'verif_slice_ell', mode='uf', unwind=10, waive=WAIVE, clause=INDEX + '; ellipsis axes map identically'),
    # run-time slice list (array<int,3> encoding) with ONE entry: every code loop of shape_dynamic_slice / dynamic_slice runs over
    # len(slices) == 1 (a compile-time constant of nmtools_array<array<int,3>,1>) or is dead (Ellipsis branch of a non-either element type)
    Unit('shape_dynamic_slice.1', 'c05', 'verif_shape_dynamic_slice_1', mode='bp', extra=CADICAL, waive=WAIVE, timeout=900, unwind_loops=DYN_LOOPS,
         clause=SHAPE + '; run-time (array<int,3>) and compile-time (tuple) encodings agree (same spec)'),
    Unit('dynamic_slice.1', 'c05', 'verif_dynamic_slice_1', mode='uf', waive=WAIVE, unwind_loops=DYN_LOOPS,
         clause=INDEX + '; run-time (array<int,3>) and compile-time (tuple) encodings agree (same spec)'),
]
LEMMAS = [Lemma('slice_in_range', 'c05_slice_in_range.lean', clause='0 <= start\' + k*step < n for every k < Python length (no wrap-around)')]
