# C05 -- slicing follows Python/NumPy basic-indexing semantics
META = dict(level='proof', level_text='wip', level_note='wip', trusted_base=[], assumptions=[], not_covered=[])
V = ['iii', 'iin', 'ini', 'inn', 'nii', 'nin', 'nni', 'nnn']
UNITS = [Unit('shape_slice.%s' % v, 'c05', 'verif_shape_slice_%s' % v, mode='bp', clause='shape') for v in V] + \
        [Unit('slice.%s' % v, 'c05', 'verif_slice_%s' % v, mode='bp', clause='index') for v in V]
