# C19 -- the STL-free containers behave like their std counterparts over any history
META = dict(
    level='proof',
    level_text=('Classical data-structure verification with induction over the history: per public operation a contract '
                '"requires Inv(old) ensures Inv(new) and view(new) == std_op(view(old), args)" over the whole element view (ghost position g) '
                'is discharged by CBMC (dfcc) on the C rendering of the instantiated member functions; no code loop is unwound (copy loops of '
                'static_vector::operator=, vector copy-ctor / operator= are closed by loop contracts). static_vector<size_t,8> (Inv size_<=8; '
                'default/sized/variadic ctor, copy, assign, self-assign, resize incl. refusal beyond capacity, push_back incl. refusal, element '
                'write/read, size, data), array<size_t,4>, maybe<size_t>, either<size_t,int> (tag invariant, ctor/copy/assign/self-assign/'
                'value-assign/has_value/operator*/index/get_if), tuple and tuplev2 (get<I> after construct/copy/assign/write) take arbitrary '
                'invariant-satisfying objects by value. vector<size_t> (heap): every operation (default/sized/copy ctor, dtor, operator= incl. '
                'self, resize, push_back, at/[]/size) is proved against the heap invariant "buffer_ is a live separate block of buffer_size_>=1 '
                'elements, size_<=buffer_size_" stated with is_fresh / was_freed (old block freed exactly when replaced, dtor frees once), plus '
                'ctor..dtor bracket scenarios under --memory-leak-check / --pointer-check (leak, double free, use after free, out of bounds). '
                'The NON-TRIVIAL specialisations (placement-new maybe<T>, either<L,R> with user-provided copy constructor / empty destructor) are '
                'exercised with a tracking element type trk_t (user-provided ctors / dtor / copy assignment; namespace-scope counters of live '
                'objects and of operations on raw or destroyed storage): construct / copy / maybe-to-maybe assignment in all four emptiness '
                'combinations / self-assignment / value assignment / reset / end of life, postcondition = observation of the same program over '
                'std::optional / std::variant (contents, live-object count, zero dead-object operations); and with utl::vector<size_t> as payload '
                '(copy / assign / self-assign under pointer checks, end of life under the leak check). '
                'One genuine deviation from std of static_vector (resize growth after a shrink resurrects stale elements; repair prepared but deferred) and ten of the non-trivial maybe / either specialisations '
                '(payload never destroyed; assignment into raw storage) are recorded as known findings and excluded by region.'),
    level_note=('Trusted: clang AST, cxx2c rendering (incl. new: anonymous unions, CRTP base-to-derived casts, scalar placement new, scope-exit '
                'destructor calls, malloc/free/memcpy passed to CBMC\'s models), CBMC 6.11 dfcc. Vector sizes are bounded by the precondition '
                'n <= 2^16 elements and malloc is assumed to succeed. Element types: size_t/int (trivial), the tracking struct trk_t and '
                'utl::vector<size_t> (non-trivial; scenario wrappers over scalars, objects live inside the wrapper). New in the translator: '
                'placement new of records with a user-provided constructor, mutable namespace-scope scalars of the instantiation TU; explicit '
                'destructor calls x.~T() are ordinary member calls. The raw payload storage of an empty maybe is given the arbitrary content `junk` '
                'by the wrapper (a parameter, so every content is covered), which also makes native replays deterministic; '
                'the per-operation push_back contract assumes the argument does not alias the vector\'s own storage (is_fresh(t)); the aliasing '
                'case v.push_back(v[0]) across a reallocation is covered by the scenario unit vec.push_alias. Induction over histories is the usual meta-argument from the per-operation contracts.'),
    trusted_base=[
        'clang 14 front end (AST of the instantiated templates)', 'engine/cxx2c.py (C++ AST -> C rendering)',
        'cbmc 6.11.0 / goto-instrument --dfcc (contract instrumentation, is_fresh / was_freed / frees semantics, SAT back end)',
        'CBMC models of malloc / free / memcpy (malloc never returns NULL: --no-malloc-may-fail)',
        'by-value entry wrappers verif_* in inst/c19.cpp (object in, object out); C++ references are valid; distinct parameters do not alias unless the wrapper says so (self-assignment wrappers)',
        'Inv(new) of a vector is stated as "same block and capacity as before, or is_fresh(new block)"; that this re-establishes the is_fresh precondition of the next operation is the inductive meta-step',
    ],
    assumptions=[
        'instantiations: static_vector<size_t,8>, array<size_t,4>, vector<size_t>, maybe<size_t>, either<size_t,int>, maybe<trk_t>, maybe<vector<size_t>>, either<trk_t,int>, tuple/tuplev2<size_t,int,size_t>; -DNDEBUG, STL enabled',
        'trk_t (inst/c19.cpp) is alive while state == TRK_ALIVE; its counters trk_live / trk_bad are reset at the start of every scenario wrapper; expected counter values are those of the same wrapper over std::optional / std::variant',
        'utl::vector: sizes and capacities <= VEC_MAX = 2^16 elements (proofs also pass with 2^20 / 2^32; 2^16 keeps counterexample search on broken code fast) (so that sizeof(T)*n cannot wrap; plays the role of max_size()); malloc succeeds',
        'utl::vector per-operation invariant uses buffer_size_ >= 1, i.e. excludes the state created by vector(size_type 0) (zero-byte block; covered by the scenario units vec.sized / vec.zero_push under the leak check)',
        'ghost g (observed position) and vg (its pre-state value) are bound in preconditions; ghost cells are functional definitions',
        'spec predicate loop sv_dirty (known-finding region) is unwound 8 times (spec evaluation bound, not a code loop)',
    ],
    not_covered=[
        'small_vector (either<static_vector,vector> switch) -- not extracted',
        'non-trivial element types other than trk_t / utl::vector<size_t>; the third either specialisation (trivially destructible but not trivially copy-constructible alternatives, e.g. either<static_vector,..>); either<trk_t,int> copy construction from a LEFT source, maybe<T> assignments that change emptiness, value assignment into an empty maybe / a RIGHT either, reset of a valued maybe and every end of life of a held non-trivial object are known-finding regions (verified only outside them)',
        'maybe<T>/either<L,R> with non-copy-assignable T (the `new(&left) T(other.left)` branches of operator= / copy constructor) -- trk_t and utl::vector are copy-assignable',
        'moves: the utl containers have no move operations (copies are used); temporaries of maybe/either type are not used by the wrappers',
        'vector / maybe / either / tuple of element types other than size_t / int (double etc.)',
        'malloc failure (utl::vector has no error handling for a NULL block)',
        'begin()/end()/free-function size/begin/end of the containers, static_vector::get<I>, tuple sizes other than 3, tuple converting constructors',
        'destructors of temporaries and implicit (member-wise) destructors are not emitted by the translator; the wrappers only use named vector locals',
        'NMTOOLS_DISABLE_STL configuration (the utl types are verified as compiled in the default configuration)',
    ],
)
def U(name, clause, **kw):
    return Unit(name, 'c19', 'verif_' + name.replace('.', '_'), clause=clause, **kw)
SV = 'static_vector == std::vector up to capacity (refusal leaves contents unchanged)'
AR = 'utl::array == std::array'
MB = 'utl::maybe == std::optional (trivial T)'
EI = 'utl::either == std::variant (trivial alternatives)'
MBV = 'utl::maybe<utl::vector> == std::optional<std::vector>: copies independent, self-assignment harmless, no use after free / double free / out-of-bounds access, payload released at end of life'
E2 = 'utl::either == std::variant for a non-trivial alternative: active alternative and value, every alternative object constructed and destroyed exactly once, no operation on raw / destroyed storage'
MBT = 'utl::maybe == std::optional for a non-trivial element type: contents, every payload constructed and destroyed exactly once, no operation on raw / destroyed storage'
TP = 'utl::tuple / tuplev2 == std::tuple'
VE = 'utl::vector == std::vector; copies independent, self-assignment harmless, no leak / double free / out-of-bounds access'
HEAP = dict(extra=['--memory-leak-check'], gi_extra=['--no-malloc-may-fail'], timeout=900)
VO = 'utl::vector: every operation preserves the representation invariant and transforms the element sequence like std::vector'
HEAPOP = dict(gi_extra=['--no-malloc-may-fail'], timeout=900)
HEAPL = dict(gi_extra=['--no-malloc-may-fail'], timeout=2400, tier='thorough')   # three vector constructions with the value-initialising resize loop: 5-14 min on a loaded machine
UNITS = [
    U('sv.default', SV), U('sv.sized', SV), U('sv.variadic', SV), U('sv.copy', SV), U('sv.assign', SV), U('sv.self_assign', SV),
    U('sv.resize', SV), U('sv.resize_fill', SV, unwind=10), U('sv.push_back', SV), U('sv.write', SV), U('sv.write_at', SV),
    U('sv.at', SV), U('sv.index', SV), U('sv.data', SV), U('sv.size', SV),
    U('arr.copy', AR), U('arr.assign', AR), U('arr.write', AR), U('arr.write_at', AR), U('arr.at', AR), U('arr.index', AR),
    U('arr.data', AR), U('arr.size', AR), U('arr.get2', AR),
    U('mb.default', MB), U('mb.nothing', MB), U('mb.value', MB), U('mb.copy', MB), U('mb.assign', MB), U('mb.self_assign', MB),
    U('mb.assign_value', MB), U('mb.assign_nothing', MB), U('mb.write', MB), U('mb.has_value', MB), U('mb.bool', MB),
    U('mb.deref', MB), U('mb.value_of', MB),
    U('ei.default', EI), U('ei.left', EI), U('ei.right', EI), U('ei.copy', EI), U('ei.assign', EI), U('ei.self_assign', EI),
    U('ei.assign_left', EI), U('ei.assign_right', EI), U('ei.probe', EI), U('ei.probe_free', EI),
    U('vec.sized', VE, **HEAP), U('vec.sized_init', VE, **HEAP), U('vec.push5', VE, **HEAP), U('vec.resize', VE, **HEAP),
    U('vec.resize_fill', VE, **HEAP), U('vec.shrink_grow', VE, **HEAP), U('vec.resize_push', VE, **HEAP),
    U('vec.zero_push', VE, **HEAP), U('vec.push_alias', VE, **dict(HEAP, timeout=1500)), U('vec.variadic', VE, **HEAP),
    U('vec.copy', VE, **HEAP), U('vec.assign', VE, **HEAP), U('vec.self_assign', VE, **HEAP),
    # per-operation contracts over the representation invariant (induction over histories); heap shape via is_fresh / was_freed
    Unit('vecop.resize', 'c19', 'nmtools::utl::vector::resize', clause=VO, **HEAPOP),
    Unit('vecop.push_back', 'c19', 'nmtools::utl::vector::push_back', clause=VO, **HEAPOP),
    Unit('vecop.copy_ctor', 'c19', 'nmtools::utl::vector::vector[ctor__rvector]', clause=VO, **HEAPOP),
    Unit('vecop.sized_ctor', 'c19', 'nmtools::utl::vector::vector[ctor__ul]', clause=VO, **HEAPOP),
    Unit('vecop.default_ctor', 'c19', 'vector_ul_allocator_ul__ctor', clause=VO, **HEAPOP),
    Unit('vecop.dtor', 'c19', 'nmtools::utl::vector::~vector', clause=VO, **HEAPOP),
    Unit('vecop.assign', 'c19', 'nmtools::utl::vector::operator=', clause=VO, **HEAPOP),
    Unit('vecop.self_assign', 'c19', 'verif_vecop_self_assign', clause=VO, **HEAPOP),
    Unit('vecop.at', 'c19', 'nmtools::utl::vector::at[at__ul]', clause=VO, **HEAPOP),
    Unit('vecop.index', 'c19', 'nmtools::utl::vector::operator[][op_index__ul]', clause=VO, **HEAPOP),
    Unit('vecop.size', 'c19', 'nmtools::utl::vector::size', clause=VO, **HEAPOP),
    # maybe<T> for a non-trivial T (placement-new specialisation): tracked element type, contents + live-object / dead-object counters
    U('mbt.default', MBT), U('mbt.nothing', MBT), U('mbt.value', MBT), U('mbt.copy', MBT), U('mbt.assign', MBT),
    U('mbt.self_assign', MBT), U('mbt.assign_value', MBT), U('mbt.assign_nothing', MBT), U('mbt.write', MBT), U('mbt.scope', MBT),
    # maybe<utl::vector<size_t>>: heap payload (pointer checks; leak check only for the end-of-life unit)
    U('mbv.copy', MBV, **HEAPL), U('mbv.assign', MBV, **HEAPL), U('mbv.self_assign', MBV, **HEAPL), U('mbv.scope', MBV, **HEAP),
    # either<T,int> for a non-trivial T (specialisation with user-provided copy constructor / empty destructor)
    U('e2.default', E2), U('e2.left', E2), U('e2.right', E2), U('e2.copy', E2), U('e2.assign', E2), U('e2.self_assign', E2),
    U('e2.assign_left', E2), U('e2.assign_right', E2), U('e2.scope', E2),
    U('tp.get', TP), U('tp.copy_get', TP), U('tp.default', TP), U('tp.write', TP), U('tp2.get', TP), U('tp2.copy_write', TP),
]
