# C19 -- the STL-free containers behave like their std counterparts over any history
META = dict(
    level='proof',
    level_text='TODO',
    level_note='TODO',
    trusted_base=[],
    assumptions=[],
    not_covered=[],
)
def U(name, clause, **kw):
    return Unit(name, 'c19', 'verif_' + name.replace('.', '_'), clause=clause, **kw)
SV = 'static_vector == std::vector up to capacity (refusal leaves contents unchanged)'
AR = 'utl::array == std::array'
MB = 'utl::maybe == std::optional (trivial T)'
EI = 'utl::either == std::variant (trivial alternatives)'
TP = 'utl::tuple / tuplev2 == std::tuple'
VE = 'utl::vector == std::vector; copies independent, self-assignment harmless, no leak / double free / out-of-bounds access'
HEAP = dict(extra=['--memory-leak-check'], gi_extra=['--no-malloc-may-fail'])
VO = 'utl::vector: every operation preserves the representation invariant and transforms the element sequence like std::vector'
HEAPOP = dict(gi_extra=['--no-malloc-may-fail'])
UNITS = [
    U('sv.default', SV), U('sv.sized', SV), U('sv.variadic', SV), U('sv.copy', SV), U('sv.assign', SV), U('sv.self_assign', SV),
    U('sv.resize', SV), U('sv.resize_fill', SV, unwind=10), U('sv.push_back', SV), U('sv.write', SV), U('sv.write_at', SV),
    U('sv.at', SV), U('sv.index', SV), U('sv.data', SV), U('sv.size', SV),
    U('arr.copy', AR), U('arr.assign', AR), U('arr.write', AR), U('arr.write_at', AR), U('arr.at', AR), U('arr.index', AR),
    U('arr.data', AR), U('arr.size', AR), U('arr.get2', AR),
    U('mb.default', MB), U('mb.nothing', MB), U('mb.value', MB), U('mb.copy', MB), U('mb.assign', MB), U('mb.self_assign', MB),
    U('mb.assign_value', MB), U('mb.assign_nothing', MB), U('mb.write', MB), U('mb.has_value', MB), U('mb.bool', MB),
    U('mb.deref', MB), U('mb.value_of', MB),
    U('ei.default', EI), U('ei.left', EI), U('ei.right', EI), U('ei.copy', EI), U('ei.assign', EI), U('ei.self_assign', EI),
    U('ei.assign_left', EI), U('ei.assign_right', EI), U('ei.probe', EI), U('ei.probe_free', EI),
    U('vec.sized', VE, **HEAP), U('vec.sized_init', VE, **HEAP), U('vec.push5', VE, **HEAP), U('vec.resize', VE, **HEAP),
    U('vec.resize_fill', VE, **HEAP), U('vec.shrink_grow', VE, **HEAP), U('vec.resize_push', VE, **HEAP),
    U('vec.zero_push', VE, **HEAP), U('vec.variadic', VE, **HEAP),
    U('vec.copy', VE, **HEAP), U('vec.assign', VE, **HEAP), U('vec.self_assign', VE, **HEAP),
    # per-operation contracts over the representation invariant (induction over histories); heap shape via is_fresh / was_freed
    Unit('vecop.resize', 'c19', 'nmtools::utl::vector::resize', clause=VO, **HEAPOP),
    Unit('vecop.push_back', 'c19', 'nmtools::utl::vector::push_back', clause=VO, **HEAPOP),
    Unit('vecop.copy_ctor', 'c19', 'nmtools::utl::vector::vector[ctor__rvector]', clause=VO, **HEAPOP),
    Unit('vecop.sized_ctor', 'c19', 'nmtools::utl::vector::vector[ctor__ul]', clause=VO, **HEAPOP),
    Unit('vecop.default_ctor', 'c19', 'vector_ul_allocator_ul__ctor', clause=VO, **HEAPOP),
    Unit('vecop.dtor', 'c19', 'nmtools::utl::vector::~vector', clause=VO, **HEAPOP),
    Unit('vecop.assign', 'c19', 'nmtools::utl::vector::operator=', clause=VO, **HEAPOP),
    Unit('vecop.self_assign', 'c19', 'verif_vecop_self_assign', clause=VO, **HEAPOP),
    Unit('vecop.at', 'c19', 'nmtools::utl::vector::at[at__ul]', clause=VO, **HEAPOP),
    Unit('vecop.index', 'c19', 'nmtools::utl::vector::operator[][op_index__ul]', clause=VO, **HEAPOP),
    Unit('vecop.size', 'c19', 'nmtools::utl::vector::size', clause=VO, **HEAPOP),
    U('tp.get', TP), U('tp.copy_get', TP), U('tp.default', TP), U('tp.write', TP), U('tp2.get', TP), U('tp2.copy_write', TP),
]
