# C06 -- broadcasting
META = dict(
    level='proof',
    level_text='impl::broadcast_shape (the run-time branch, instantiated for utl::static_vector<size_t,8> operands of symbolic rank 0..8 and arbitrary 64-bit extents) is proved against the NumPy rule written as a C spec: success iff every right-aligned pair of extents is equal or 1, result rank = max rank, result extent = per-axis max. The loop is closed by a loop contract; all comparisons are bit-precise.',
    level_note='Trusted: clang AST, cxx2c rendering, CBMC, std::optional model. The maybe-lifting overloads and the view-level glue (broadcast_arrays) are not under contract.',
    trusted_base=['clang 14 front end', 'engine/cxx2c.py', 'cbmc 6.11.0 --dfcc', 'C model of std::optional / std::array (models in generated prelude)'],
    assumptions=['configuration -DNDEBUG, STL enabled; operand kind utl::static_vector<size_t,8> (result kind hybrid_ndarray<size_t,8,1> as chosen by the library)'],
    explanation='Deciding obligations: impl::broadcast_shape and impl::shape_broadcast_to (real instantiated code) proved equal to the NumPy rule; the algebraic laws (commutative, idempotent, absorbing, scalar-neutral, associative on positive extents) are lemmas over the spec functions for ranks 0..8 and all 64-bit extents. Observation (not a finding under the property as quantified over positive extents): with a zero extent the max rule gives (0,)+(1,) -> (1,) where NumPy gives (0,), and grouping then matters.',
    not_covered=['index::broadcast_to element mapping beyond the bounded unit (rank <= 4, extents <= 4)', 'variadic fold beyond two operands (follows from the two-operand contract + associativity lemma; the maybe-lifting glue is not under contract)', 'compile-time constant / clipped shapes (type level)', 'broadcast_arrays view glue'],
)
UNITS = [
    Unit('broadcast_to_index.bounded', 'c06', 'verif_broadcast_to_index', mode='bp', plain=True, unwind=10, unwind_loops={'.': 7}, timeout=1500, object_bits=12,
         bounded='rank <= 4, extents 1..4 (all loops unwound; the detour through a flat offset needs mixed-radix reasoning that SAT does not do unboundedly)',
         clause='an array broadcast to a shape has at index i the source element at i with stretched and prepended axes dropped'),
    Unit('F.broadcast_shape.bp', 'c06', 'verif_f_broadcast_shape', mode='bp', unwind=10, clause='fixed-size operands (template_for branch): succeeds exactly when aligned extents are equal or 1; per-axis maximum'),
    Unit('C.broadcast_shape.bp', 'c06', 'verif_c_broadcast_shape', mode='bp', unwind=10, waive=[r'arithmetic overflow on (signed to unsigned|unsigned to signed) type conversion'],
         clause='clipped-shape operands (tuple result, template_for over a tuple): same success / failure and extents as every other kind'),
    Unit('F.broadcast_shape32.bp', 'c06', 'verif_f_broadcast_shape32', mode='bp', unwind=10, clause='fixed-size operands of different rank'),
    Unit('shape_broadcast_to.bp', 'c06', 'verif_shape_broadcast_to', mode='bp', unwind=10, clause='broadcast_to succeeds iff each source extent equals the target extent or is 1; stretched/prepended axes are flagged free'),
    Unit('lemma.commutative', 'c06', None, lemma='lemma_bcast_commutative', unwind=10, clause='result does not depend on operand order'),
    Unit('lemma.idempotent', 'c06', None, lemma='lemma_bcast_idempotent', unwind=10, clause='broadcasting a shape with itself changes nothing'),
    Unit('lemma.absorb', 'c06', None, lemma='lemma_bcast_absorb', unwind=10, clause='broadcasting with the result changes nothing'),
    Unit('lemma.scalar', 'c06', None, lemma='lemma_bcast_scalar', unwind=10, clause='scalars broadcast with everything'),
    Unit('lemma.axiswise', 'c06', None, lemma='lemma_bcast_axiswise', unwind=10, clause='result does not depend on grouping (axis-wise form of the rule)'),
    Unit('lemma.comb_associative', 'c06', None, lemma='lemma_comb_associative', unwind=10, clause='result does not depend on grouping (scalar combine associative on positive extents)'),
    Unit('lemma.associative', 'c06', None, lemma='lemma_bcast_associative', unwind=10, tier='thorough', timeout=1800, clause='result does not depend on grouping (monolithic, ranks 0..8)'),
    Unit('broadcast_shape.bp', 'c06', 'verif_broadcast_shape', mode='bp', unwind=10, unwind_loops={'hybrid_ndarray.*resize': 3, 'detail_init_': 3}, clause='succeeds exactly when aligned extents are equal or 1; yields the per-axis maximum'),
]
