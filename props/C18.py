# C18 -- isequal / isclose are exact, shape-aware, symmetric, total comparison oracles
META = dict(level='proof', level_text='', level_note='', trusted_base=[], assumptions=[], not_covered=[])
UNITS = [
    Unit('isequal.sv_sv', 'c18', 'verif_isequal_sv', unwind=10, clause='index arrays: true exactly when same length and all elements equal; symmetric; result independent of storage outside [0,len)'),
    Unit('isequal.refl', 'c18', 'verif_isequal_refl', unwind=10, clause='reflexive'),
    Unit('isequal.sv_arr3', 'c18', 'verif_isequal_sv_arr', unwind=10, clause='bounded vs fixed index array'),
    Unit('isequal.arr3_sv', 'c18', 'verif_isequal_arr_sv', unwind=10, clause='fixed vs bounded index array'),
    Unit('isequal.arr3_arr3', 'c18', 'verif_isequal_arr_arr', unwind=10, clause='fixed vs fixed index array'),
    Unit('isequal.opt_opt', 'c18', 'verif_isequal_opt_opt', unwind=10, clause='two empty optionals equal; empty vs non-empty different; engaged ones compare values'),
    Unit('isequal.opt_sv', 'c18', 'verif_isequal_opt_sv', unwind=10, clause='optional vs plain'),
    Unit('isequal.sv_opt', 'c18', 'verif_isequal_sv_opt', unwind=10, clause='plain vs optional'),
    Unit('isequal.num', 'c18', 'verif_isequal_num', clause='scalars'),
    Unit('isequal.int', 'c18', 'verif_isequal_int', clause='scalars'),
    Unit('isclose.num', 'c18', 'verif_isclose_num', timeout=1500, clause='|a-b| < eps, symmetric'),
    Unit('isclose.scalar', 'c18', 'nmtools::utils::detail::isclose[isclose__rf_rf_f]', timeout=900, clause='scalar kernel == |t-u| < eps (contract used by isclose.fv_fv)'),
    Unit('isclose.fv_fv', 'c18', 'verif_isclose_fv', mode='uf', unwind=10, replace=['nmtools::utils::detail::isclose[isclose__rf_rf_f]'], clause='1-d float arrays: true exactly when same length and all |a[i]-b[i]| < eps; symmetric; total (no trap)'),
]
