# C18 -- isequal / isclose are exact, shape-aware, symmetric, total comparison oracles
META = dict(
    level='proof',
    level_text='Every wrapper postcondition is `result == oracle definition` (same length and all elements equal / all |a[i]-b[i]| < eps, looking only at [0,len) of either operand, both argument orders) and is discharged by CBMC (dfcc) for all inputs of the instantiation: the two element loops (detail::isequal index-array branch, detail::isclose ndarray branch) are closed by loop contracts, everything else is loop-free; index arrays static_vector<size_t,8> (length 0..8 symbolic, all 64-bit values, storage behind size_ nondeterministic), array<size_t,3>, optionals, scalars, static_vector<float,8> with arbitrary float eps. Two defects found by these contracts (length / shape mismatch only guarded by an assert that -DNDEBUG removes: isequal([1,2],[1,2,3]) == true, isclose([x],[]) SIGFPE) were confirmed by native replay and are fixed in /repo (d5a400c, d860e27); the proof now holds for all inputs.',
    level_note='isclose at array level is proved modularly: the scalar kernel detail::isclose(float,float,float) is proved bit-precisely equal to |t-u| < eps (and symmetric) and used through that contract, with the predicate uninterpreted, in the array unit; array-level symmetry of isclose follows from the scalar symmetry + the symmetric form of the definition (not a separate obligation). Trusted: clang AST, cxx2c rendering, C models of std::optional / std::array, CBMC.',
    trusted_base=[
        'clang 14 front end (AST of the instantiated templates)', 'engine/cxx2c.py (C++ AST -> C rendering)',
        'C models of std::optional<T> ({has,val}) and std::array<T,N> ({_M_elems[N]})',
        'cbmc 6.11.0 / goto-instrument --dfcc (contract instrumentation, float bit-blasting, SAT back end)',
    ],
    assumptions=[
        'configuration: -DNDEBUG (asserts compiled out, the baseline build), STL enabled',
        'representation invariant of static_vector operands: size_ <= 8 (precondition)',
        'isclose.fv_fv (mode uf): unsigned long * / % uninterpreted with the axioms of models/prelude.h; scalar closeness uninterpreted, tied to |t-u| < eps by the contract of detail::isclose(float,float,float) proved in unit isclose.scalar',
        'ghost w (first differing position of the scan) is a functional definition assumed in the precondition',
    ],
    not_covered=[
        'ndarray x ndarray branch of detail::isequal (dim/size compared only by nmtools_cassert; same pattern as the recorded defect, not instantiated here)',
        'isclose / isequal on multi-dimensional arrays and views (ndindex over rank > 1), nested arrays',
        'either alternatives other than numbers (index arrays / ndarrays inside an either), tuple alternatives, slice and attribute operands, none/ellipsis, integral constants, dtype comparison',
        'mixed-signedness scalars (compared after the usual arithmetic conversions: isequal(-1, SIZE_MAX) is true)',
        'NMTOOLS_ISCLOSE_NAN_HANDLING / INF_HANDLING configurations; builds without NDEBUG (asserts abort instead of returning false)',
        'compile-time (constexpr / type-level) operands',
    ],
)
UNITS = [
    Unit('isequal.either_num', 'c18', 'verif_isequal_either_num', mode='bp', clause='either operands are compared alternative-by-alternative (either vs plain)'),
    Unit('isequal.num_either', 'c18', 'verif_isequal_num_either', mode='bp', clause='either operands: symmetric (plain vs either)'),
    Unit('isequal.either_either', 'c18', 'verif_isequal_either_either', mode='bp', clause='two eithers are equal iff they hold the same alternative with equal values'),
    Unit('isequal.sv_sv', 'c18', 'verif_isequal_sv', unwind=10, clause='index arrays: true exactly when same length and all elements equal; symmetric; result independent of storage outside [0,len)'),
    Unit('isequal.refl', 'c18', 'verif_isequal_refl', unwind=10, clause='reflexive'),
    Unit('isequal.sv_arr3', 'c18', 'verif_isequal_sv_arr', unwind=10, clause='bounded vs fixed index array'),
    Unit('isequal.arr3_sv', 'c18', 'verif_isequal_arr_sv', unwind=10, clause='fixed vs bounded index array'),
    Unit('isequal.arr3_arr3', 'c18', 'verif_isequal_arr_arr', unwind=10, clause='fixed vs fixed index array'),
    Unit('isequal.opt_opt', 'c18', 'verif_isequal_opt_opt', unwind=10, clause='two empty optionals equal; empty vs non-empty different; engaged ones compare values'),
    Unit('isequal.opt_sv', 'c18', 'verif_isequal_opt_sv', unwind=10, clause='optional vs plain'),
    Unit('isequal.sv_opt', 'c18', 'verif_isequal_sv_opt', unwind=10, clause='plain vs optional'),
    Unit('isequal.num', 'c18', 'verif_isequal_num', clause='scalars'),
    Unit('isequal.int', 'c18', 'verif_isequal_int', clause='scalars'),
    Unit('isclose.num', 'c18', 'verif_isclose_num', timeout=1500, clause='|a-b| < eps, symmetric'),
    Unit('isclose.scalar', 'c18', 'nmtools::utils::detail::isclose[isclose__rf_rf_f]', timeout=900, clause='scalar kernel == |t-u| < eps (contract used by isclose.fv_fv)'),
    Unit('isclose.fv_fv', 'c18', 'verif_isclose_fv', mode='uf', unwind=10, replace=['nmtools::utils::detail::isclose[isclose__rf_rf_f]'], clause='1-d float arrays: true exactly when same length and all |a[i]-b[i]| < eps; symmetric; total (no trap)'),
]
