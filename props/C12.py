# C12 -- SIMD evaluation equals scalar evaluation (index enumeration + loop partition only)
META = dict(level='proof', level_text='wip', level_note='wip', trusted_base=[], assumptions=[], explanation='wip', not_covered=[])
UNITS = []
for N in (4, 8):
    UNITS += [
    Unit('binary_2d_shape_%d.bp' % N, 'c12', 'verif_binary_2d_shape_%d' % N, mode='bp', clause='x'),
    Unit('binary_2d_at_%d.bp' % N, 'c12', 'verif_binary_2d_at_%d' % N, mode='bp', clause='x'),
    Unit('binary_2d_size_%d.uf' % N, 'c12', 'verif_binary_2d_size_%d' % N, mode='uf', clause='x'),
    Unit('lemma.row_cover_%d' % N, 'c12', None, lemma='lemma_row_cover_%d' % N, mode='bp', clause='x'),
    Unit('reduction_h_shape_%d.bp' % N, 'c12', 'verif_reduction_h_shape_%d' % N, mode='bp', clause='x'),
    Unit('reduction_v_shape_%d.bp' % N, 'c12', 'verif_reduction_v_shape_%d' % N, mode='bp', clause='x'),
    Unit('reduction_h_at_%d.uf' % N, 'c12', 'verif_reduction_h_at_%d' % N, mode='uf', clause='x'),
    Unit('reduction_v_at_%d.uf' % N, 'c12', 'verif_reduction_v_at_%d' % N, mode='uf', clause='x'),
    ]
UNITS += [
    Unit('reduction_h_size_4.uf', 'c12', 'verif_reduction_h_size_4', mode='uf', clause='x'),
    Unit('reduction_nd_reshape_h.uf', 'c12', 'verif_reduction_nd_reshape_h', mode='uf', unwind=10, clause='x'),
    Unit('reduction_nd_reshape_v.uf', 'c12', 'verif_reduction_nd_reshape_v', mode='uf', unwind=10, clause='x'),
]
