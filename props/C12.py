# C12 -- SIMD evaluation equals scalar evaluation (index enumeration + packed-loop / tail partition only)
META = dict(
    level='proof',
    level_text='Only the index enumeration and the loop partition of the SIMD evaluators are covered, on the real instantiated code, for '
               'N_ELEM_PACK = 4 and 8: binary_2d_simd_shape / binary_2d_simd_enumerator_t::{size, operator[]}, reduction_2d_shape / '
               'reduction_2d_enumerator_t::operator[] (HORIZONTAL and VERTICAL), reduction_nd_reshape (run-time rank 1..8, loops closed by loop '
               'contracts), outer_simd_shape / outer_simd_enumerator_t::operator[] (1-d x 1-d), matmul_simd_inner (thorough tier) are proved '
               'against a spec of "which lanes of which buffer does item i touch": tag, offset = row base + column, lanes inside the row, items '
               'adjacent and ending exactly at the row end (exact cover, with the spec inverse item_of/lane_of proved two-sided for all 64-bit row '
               'lengths). The real evaluator_t<view, simd_base_t<tag>>::eval_unary (packed loop `(i+N)<=size` + tail from `(size/N)*N`) is proved, '
               'with both loops closed by loop contracts, to produce op(in[k]) at every k < size and to write nothing else, over abstract operands '
               '(n <= 32 elements; a pack = N checked element accesses; op(x) = -x). Intrinsics, float lane semantics and reduction '
               're-association are NOT covered.',
    level_note='Products/quotients of two symbolic extents (row * cols, i / simd_cols) are uninterpreted with sound axioms in the .uf units; arithmetic '
               'with the constant pack width is bit-precise everywhere. The flat statements (offset + lanes <= rows*cols, item index <-> (row, column) '
               'bijection, packed/tail partition over the naturals) follow from the per-row facts by the Lean lemmas in lemmas/c12_rows.lean. The '
               'evaluators other than eval_unary (eval_binary, eval_outer, eval_reduction) are covered only through the enumerators they iterate over, '
               'not as loops; their glue (tag dispatch, pointer arithmetic on real buffers) is trusted.',
    trusted_base=[
        'clang 14 front end (AST of the instantiated templates)', 'engine/cxx2c.py (C++ AST -> C rendering, incl. switch statements and enum tags as int)',
        'cbmc 6.11.0 / goto-instrument --dfcc (contract instrumentation, SAT back end)', 'C models of std::array / std::tuple (generated prelude)',
        'Lean 4.33 kernel (lemmas/c12_rows.lean, core library only) and the reading of `row*cols + col` / `(s/N)*N` as natural-number expressions '
        '(extents below 2^62, so nothing wraps)',
        'abstract operands of eval_unary defined in inst/c12e.cpp (verif_arr / verif_view / verif_tag<128|256>: nmtools::shape, nmtools::data, apply_at, '
        'ufunc_simd_t::{loadu, eval, storeu} as N element-wise checked accesses)',
    ],
    assumptions=[
        'mode uf (this property): unsigned long * / % of two SYMBOLIC operands are uninterpreted functions with the axioms of models/prelude.h plus '
        '`a >= b ==> a / b >= 1` (spec/c12.h c12_uf_div); operations with a literal operand (the pack width) keep the machine operator',
        'ghost cells SR, SC, RB, ORB, LB, RBM, PRE[], SUF[], EXPV[], OLDV[] are functional definitions assumed in the preconditions',
        'enumerator[i] is called with i < size(), stated as i / simd_cols < rows (equivalent for simd_cols >= 1: lemma item_lt_size_iff)',
        'binary_2d: the three shapes are related by NumPy broadcasting of two 2-d shapes (what eval_binary establishes before it builds the enumerator); '
        'extents >= 1 and <= 2^62',
        'reduction VERTICAL: out rows divide into in rows (Ri >= Ro >= 1), same column count',
        'eval_unary: n <= 32 elements, finite or infinite but non-NaN floats (exact float equality), configuration -DNDEBUG, STL enabled',
        'known finding region (operand of shape (1,1), item below the first simd row) is excluded from the proved binary_2d contract after its witness '
        'is replayed on the real code',
    ],
    explanation='ENUMERATORS. For item i = (row SR, column SC) of the simd grid, proved on the real code: binary 2-d - out (PACKED, SR*C + SC*N) for SC < C/N else '
                '(SCALAR, SR*C + (C/N)*N + SC - C/N); each operand is addressed at source row (rows==1 ? 0 : SR) and source column (cols==1 ? 0 : col): PACKED needs '
                'operand cols == C and col + N <= cols, BROADCAST/SCALAR read one element; horizontal reduction - input (PACKED | PAD_k, SR*n + SC*N) with k = N - n%N '
                'padded lanes, N-k valid lanes ending exactly at the row end, ACCUMULATE into out[SR] exactly at the last item of the row, NOP before; vertical reduction - '
                'input row SR accumulates (ACCUMULATE_PACKED | ACCUMULATE) into output row SR / (Ri/Ro) at the same column, packed x n/N then scalar x n%N; outer - out '
                '(PACKED | PAD_k) at SR*B + SC*N, lhs BROADCAST at SR, rhs same tag at SC*N; nd reshape - (prod shape[0..axis], prod shape[axis+1..]) resp. '
                '(prod shape[0..dim-2], shape[dim-1]). EXACT COVER: per row the items are adjacent, start at column 0 and the last ends at the row end (in the post-conditions '
                'for PAD rows; lemma.row_cover_N for packed+scalar rows, including the inverse item_of/lane_of: every column is covered by exactly one item and lane, for all '
                '64-bit row lengths); rows x columns <-> item index is the mixed-radix bijection (Lean item_roundtrip / MixedRadix L1). Hence every output element is written '
                'by exactly one (item, lane) and every access lies inside its buffer (Lean flat_in_bounds). PARTITION. eval_unary (real code, N = 4 and 8): after the packed '
                'loop and the tail, out[k] = op(in[k]) for all k < size, out[k] untouched for k >= size, size field untouched, refused (false, output untouched) when shapes '
                'differ; every lane access is bounds/pointer-checked. The partition arithmetic over the naturals (every k < s lies either in exactly one N-block passing '
                '`i+N <= s` or in the tail [ (s/N)*N, s )) is Lean lemma partition. KNOWN FINDING: an operand of shape (1,1) broadcast against >= 2 output rows is addressed by '
                'the row index (binary_2d_simd, index/ufunc.hpp:73-89) -> out-of-bounds read, confirmed end to end with the simd::vector_128 context (ASan heap-buffer-overflow).',
    not_covered=['intrinsics wrappers simd_op_t / ufunc_simd_t over _mm*/_mm256*/simde and the compiler vector extensions (x86_sse.hpp, x86_avx.hpp, vector_extension.hpp, simde_avx512/)',
                 'bit-identical float lanes (rounding, NaN payloads, signed zeros) of packed vs scalar operations',
                 'reduction re-association (vertical/horizontal accumulation order vs the scalar left fold) and the identity/padding value choice',
                 'eval_binary / eval_outer / eval_reduction as loops (tag dispatch on the enumerated items, PAD lane loops, accumulator handling); eval_binary SAME_SHAPE loop '
                 '(same text as the proved eval_unary loop, not instantiated)',
                 'outer enumerator for operands of rank >= 2 (the switch branches "only works for 2-dim" and the generic stride branch)',
                 'matmul evaluator and the outer matmul enumerator (only matmul_simd_inner, thorough tier)',
                 'column-major operands, compile-time-constant shapes, N_ELEM_PACK other than 4 and 8 (2, 16: same template text)',
                 'extents above 2^62 (the code compares `offset + N > n` with wrapping unsigned arithmetic)'],
)
UNITS = []
for N in (4, 8):
    UNITS += [
    Unit('binary_2d_shape_%d.bp' % N, 'c12', 'verif_binary_2d_shape_%d' % N, mode='bp',
         clause='broadcast binary: simd grid = (out rows, C/N packed + C%%N scalar items per row), N=%d' % N),
    Unit('binary_2d_at_%d.uf' % N, 'c12', 'verif_binary_2d_at_%d' % N, mode='uf', timeout=900,
         clause='broadcast binary, all broadcast patterns, element counts not a multiple of the lane count: item i writes its lanes of the output row and reads the broadcast source elements, inside the buffers, N=%d' % N),
    Unit('binary_2d_size_%d.uf' % N, 'c12', 'verif_binary_2d_size_%d' % N, mode='uf',
         clause='broadcast binary: number of items = rows * items per row, N=%d' % N),
    Unit('lemma.row_cover_%d' % N, 'c12', None, lemma='lemma_row_cover_%d' % N, mode='bp',
         clause='same elements: per row the items are adjacent, start at 0, end at the row end; every column is covered by exactly one item and lane (spec inverse), N=%d' % N),
    Unit('reduction_h_shape_%d.bp' % N, 'c12', 'verif_reduction_h_shape_%d' % N, mode='bp',
         clause='reduction over the last axis: ceil(n/N) items per row, N=%d' % N),
    Unit('reduction_v_shape_%d.bp' % N, 'c12', 'verif_reduction_v_shape_%d' % N, mode='bp',
         clause='reduction over a leading axis: n/N packed + n%%N scalar items per row, N=%d' % N),
    Unit('reduction_h_at_%d.uf' % N, 'c12', 'verif_reduction_h_at_%d' % N, mode='uf',
         clause='reduction over the last axis: packed items + one identity-padded item ending exactly at the row end; accumulate into out[row] exactly once, at the last item, N=%d' % N),
    Unit('reduction_v_at_%d.uf' % N, 'c12', 'verif_reduction_v_at_%d' % N, mode='uf',
         clause='reduction over any leading axis: input row r accumulates into output row r/(Ri/Ro), packed then scalar columns, inside the buffers, N=%d' % N),
    ]
UNITS += [
    Unit('reduction_h_size_4.uf', 'c12', 'verif_reduction_h_size_4', mode='uf', clause='reduction: number of items = rows * items per row'),
    Unit('reduction_nd_reshape_h.uf', 'c12', 'verif_reduction_nd_reshape_h', mode='uf', unwind=10,
         clause='n-d reductions, last axis: regrouped as (product of the leading extents, last extent)'),
    Unit('reduction_nd_reshape_v.uf', 'c12', 'verif_reduction_nd_reshape_v', mode='uf', unwind=10,
         clause='n-d reductions over every other axis: regrouped as (product of extents up to the axis, product of the extents after it)'),
    Unit('eval_binary_4.bounded', 'c12b', 'verif_eval_binary_4', mode='bp', plain=True, unwind=18, unwind_loops={'.': 14}, timeout=1800, object_bits=12,
         bounded='2-d operands with 1..3 rows, 1..6 columns, at most 12 elements each (buffers of 16); unsigned elements; 4 lanes; all loops unwound 14 times',
         waive=[r'arithmetic overflow on (signed to unsigned|unsigned to signed) type conversion'],
         clause='binary ufunc (same-shape and 2-d broadcast cases): a right-shaped output receives op(lhs, rhs) under broadcasting, a wrong-shaped one is refused untouched; no access outside the buffers'),
    Unit('eval_unary_4.bp', 'c12e', 'verif_eval_unary_4', mode='bp', unwind=34,
         clause='element-wise: packed loop + scalar tail give the scalar result at every element, for every element count (also not a multiple of the lane count), and write nothing else, N=4'),
    Unit('eval_unary_8.bp', 'c12e', 'verif_eval_unary_8', mode='bp', unwind=34,
         clause='element-wise: packed loop + scalar tail give the scalar result at every element, for every element count (also not a multiple of the lane count), and write nothing else, N=8'),
]
# constant-trip loops of the std::array<size_t,1|2> instantiation (len(lhs_shape) == len(rhs_shape) == 1, len(indices)-1 == 1); the generic
# stride lambda (lambda_outer_simd_1) is only called from the `default:` branch, unreachable for rank-1 operands
OUTER_LOOPS = {'outer_simd_shape': 3, 'lambda_outer_simd_0': 3, 'lambda_outer_simd_1': 3}
for N in (4, 8):
    UNITS += [
    Unit('outer_shape_%d.bp' % N, 'c12', 'verif_outer_shape_%d' % N, mode='bp', unwind_loops=OUTER_LOOPS,
         clause='outer: simd grid = (lhs extent, ceil(rhs extent / N)), N=%d' % N),
    Unit('outer_at_%d.uf' % N, 'c12', 'verif_outer_at_%d' % N, mode='uf', unwind_loops=OUTER_LOOPS,
         clause='outer: item (r, sc) broadcasts lhs[r] against rhs[sc*N ..] into out[r*B + sc*N ..], packed or padded to the row end, N=%d' % N),
    ]
UNITS += [
    Unit('matmul_inner_size_4.bp', 'c12', 'verif_matmul_inner_size_4', mode='bp', tier='thorough', clause='matmul: ceil(K/N) inner steps per output element'),
    Unit('matmul_inner_at_4.uf', 'c12', 'verif_matmul_inner_at_4', mode='uf', tier='thorough',
         clause='matmul: inner step s of output element o reads lhs row o/cols and rhs^T row o%cols at column s*N, packed or padded to the row end'),
]
LEMMAS = [
    Lemma('rows / partition arithmetic (c12_rows.lean)', 'c12_rows.lean',
          clause='i < rows*cols <=> i/cols < rows; item <-> (row, column) round trip; row < rows and col+w <= cols ==> row*cols+col+w <= rows*cols (never outside its buffers); '
                 'every k < s lies in exactly one packed N-block passing i+N <= s or in the tail [(s/N)*N, s)'),
]
