# C15 -- invalid arguments are reported as Nothing, never as garbage or a crash  (composite: the iff-contracts of the
# checking operations proved under C03/C04/C06/C07/C08, re-used here unit by unit)
META = dict(
    level='proof',
    level_text='For each checking operation the contract is an IFF taken from NumPy: the result is Nothing exactly when NumPy raises, a value otherwise, over the whole symbolic argument space (entries of any sign, axes anywhere in int), with division-by-zero / bounds / overflow / empty-optional-dereference checks on. Covered: broadcast_shape (run-time and fixed-size branches), shape_broadcast_to, ufunc result shape, normalize_axis (scalar and list), shape_reshape (validity iff + crash freedom), moveaxis_to_transpose, shape_pad / pad, shape_roll (axis validity), shape_concatenate, shape_resize / check_shape_resize, and the unwrap(normalize_axis(..)) dereference inside remove_dims / reduction_slices under the preconditions the views establish.',
    level_note='Propagation of an empty optional through views / function composition / eval (detail::eval, lift_indexing: x ? f(*x) : Nothing) is glue of a fixed shape that is not under contract. shape_transpose with explicit axes performs no validation of its own (out-of-range / duplicate axes are undefined behaviour there; validation is left to normalize_axis at the view level): recorded under not_covered, the std::optional model asserts on every dereference of an empty optional in all translated code.',
    explanation='Units are imported from the properties that own the contracts (same spec text, same discharge); see evidence functions_under_contract for the per-unit results.',
    trusted_base=['clang 14 front end', 'engine/cxx2c.py', 'cbmc 6.11.0 --dfcc', 'C model of std::optional (asserts on dereference of an empty optional)'],
    assumptions=['-DNDEBUG, STL enabled; bounded index containers utl::static_vector<_,8> (rank symbolic 0..8) and std::array<_,3>'],
    not_covered=['view-level maybe-lifting glue (lift_indexing, detail::eval) and function composition', 'shape_transpose explicit-axes validation (none exists in the index function)', 'shape_matmul / dot mismatching operand shapes (see C16 when claimed)', 'tile / repeat argument validation (no run-time check exists in the index functions)'],
)
UNITS = (
    import_units('C06', names=['broadcast_shape.bp', 'F.broadcast_shape.bp', 'F.broadcast_shape32.bp', 'shape_broadcast_to.bp'], clause='broadcasting incompatible shapes: Nothing iff some aligned pair of extents is neither equal nor 1')
  + import_units('C07', names=['ufunc_shape.bp'], clause='element-wise operands that do not broadcast: Nothing')
  + import_units('C03', names=['normalize_axis.bp', 'normalize_axes.bp'], clause='out-of-range axes: Nothing iff axis < -ndim or axis >= ndim')
  + import_units('C03', names=['product.contract.uf', 'count_negative_reshape.contract.uf', 'shape_reshape.uf', 'shape_reshape.safe.bp'], clause='reshape with a mismatching element count, more than one -1 or a zero/negative extent: Nothing, never a crash')
  + import_units('C03', names=['moveaxis_to_transpose.bp', 'moveaxis_l2.bp', 'moveaxis_list.bounded'], clause='moveaxis with invalid axes (out of range, repeated after normalisation, length mismatch): Nothing')
  + import_units('C16', names=['shape_matmul.bp'], clause='matmul operand shapes that do not agree (inner extents, batch extents not broadcastable): Nothing')
  + import_units('C04', names=['shape_pad.bp', 'pad.bp', 'shape_roll.bp', 'shape_roll_axes.bp', 'shape_concatenate.bp', 'shape_resize.bp'], clause='invalid pad / roll / concatenate / resize arguments: Nothing iff NumPy raises')
  + import_units('C08', names=['remove_dims.int_true', 'remove_dims.int_false', 'reduction_slices.int_true', 'reduction_slices.int_false', 'reduction_slices.axes'], clause='an empty optional is never dereferenced: unwrap(normalize_axis(..)) is safe under the validated-axis precondition')
)
