# C01 -- multi-index <-> flat offset addressing
META = dict(
    level='proof',
    level_text='Every loop of stride/compute_strides/compute_offset/compute_indices (instantiated for utl::static_vector<size_t,8>, rank 0..8 symbolic, all 64-bit extents) is closed by a loop contract and every function postcondition is discharged by CBMC (dfcc); products/quotients are uninterpreted with sound axioms, bounds/overflow/division checks are on. The mixed-radix bijection over these spec functions is a separate lemma.',
    level_note='Trusted: clang AST, cxx2c rendering, CBMC; UF axioms for * / %; glue between index functions and ndarray operator() is not under contract.',
    trusted_base=[
        'clang 14 front end (AST of the instantiated templates)', 'engine/cxx2c.py (C++ AST -> C rendering)',
        'cbmc 6.11.0 / goto-instrument --dfcc (contract instrumentation, SAT back end)',
        'C++ references are valid and parameters do not alias outputs (harness passes distinct objects)',
    ],
    assumptions=[
        'UF mode: unsigned long * / % are uninterpreted functions constrained by the axioms in models/prelude.h (each a theorem of machine arithmetic)',
        'ghost traces (HP, SO, EI) are functional definitions assumed in the precondition',
        'configuration: -DNDEBUG, STL enabled, shapes/indices of kind utl::static_vector<size_t,8> (rank 0..8 symbolic)',
    ],
    not_covered=['compile-time-constant and tuple index containers (type-level)', 'extents whose product exceeds 2^64'],
)
UNITS = [
    Unit('stride.uf', 'c01', 'verif_stride', mode='uf', unwind=10, clause='strides are the products of the trailing extents'),
    Unit('compute_strides.uf', 'c01', 'verif_compute_strides', mode='uf', unwind=10, clause='strides are the products of the trailing extents'),
    Unit('compute_offset.uf', 'c01', 'verif_compute_offset', mode='uf', unwind=10, clause='offset is the stride-weighted sum of the index'),
    Unit('compute_indices.uf', 'c01', 'verif_compute_indices3', mode='uf', unwind=10, clause='index = (offset / stride) mod extent; inside the shape'),
]
