# C01 -- multi-index <-> flat offset addressing
META = dict(
    level='proof',
    level_text='Every loop of stride/compute_strides/compute_offset/compute_indices (instantiated for utl::static_vector<size_t,8>, rank 0..8 symbolic, all 64-bit extents) is closed by a loop contract and every function postcondition is discharged by CBMC (dfcc); products/quotients are uninterpreted with sound axioms, bounds/overflow/division checks are on. The mixed-radix bijection over these spec functions is a separate lemma.',
    level_note='Trusted: clang AST, cxx2c rendering, CBMC; UF axioms for * / %; glue between index functions and ndarray operator() is not under contract.',
    trusted_base=[
        'textual correspondence between spec_prod/spec_offset in spec/c01.h and prod/offset/indices in lemmas/MixedRadix.lean (about 10 lines each); Lean 4.33 kernel',
        'clang 14 front end (AST of the instantiated templates)', 'engine/cxx2c.py (C++ AST -> C rendering)',
        'cbmc 6.11.0 / goto-instrument --dfcc (contract instrumentation, SAT back end)',
        'C++ references are valid and parameters do not alias outputs (harness passes distinct objects)',
    ],
    assumptions=[
        'UF mode: unsigned long * / % are uninterpreted functions constrained by the axioms in models/prelude.h (each a theorem of machine arithmetic)',
        'ghost traces (HP, SO, EI) are functional definitions assumed in the precondition',
        'configuration: -DNDEBUG, STL enabled, shapes/indices of kind utl::static_vector<size_t,8> (rank 0..8 symbolic)',
    ],
    explanation='CBMC proves: the real stride/compute_strides/compute_offset/compute_indices equal the spec functions spec_prod / spec_offset / (o / stride) % extent for every rank 0..8 and all 64-bit extents (products and quotients uninterpreted + axioms). Lean (core, no Mathlib) proves over the same recursions on natural numbers: offset(indices o d) = o for o < prod d; indices(offset idx d) = idx and offset idx d < prod d for in-bounds idx; offset strictly monotone in the lexicographic order; offsetC idx d = offset (reverse idx) (reverse d). The C<->Lean correspondence of the three recursions is by inspection (trusted) and cross-checked bit-precisely for rank <= 3, extents <= 6 in the thorough tier.',
    not_covered=['compile-time-constant and tuple index containers (type-level)', 'extents whose product exceeds 2^64'],
)
UNITS = [
    Unit('ndindex_at.uf', 'c01', 'verif_ndindex_at', mode='uf', unwind=10, clause='enumerating positions: ndindex(shape)[i] is the multi-index of flat position i, inside the shape'),
    Unit('ndindex_size.uf', 'c01', 'verif_ndindex_size', mode='uf', unwind=10, clause='enumeration length is the element count'),
    Unit('product.uf', 'c01', 'verif_product', mode='uf', unwind=10, clause='element count is the product of the extents'),
    Unit('stride.uf', 'c01', 'verif_stride', mode='uf', unwind=10, clause='strides are the products of the trailing extents'),
    Unit('compute_strides.uf', 'c01', 'verif_compute_strides', mode='uf', unwind=10, clause='strides are the products of the trailing extents'),
    Unit('compute_offset.uf', 'c01', 'verif_compute_offset', mode='uf', unwind=10, clause='offset is the stride-weighted sum of the index'),
    Unit('compute_indices.uf', 'c01', 'verif_compute_indices3', mode='uf', unwind=10, clause='index = (offset / stride) mod extent; inside the shape'),
    Unit('crosscheck.roundtrip_small', 'c01', None, lemma='lemma_roundtrip_small', mode='bp', unwind=10, timeout=900,
         bounded='rank <= 3, extents 1..6 (bit-precise cross-check of the C spec functions against the Lean definitions)', tier='thorough',
         clause='flat -> multi-index -> flat is the identity (bounded cross-check of L1)'),
]
UNITS += import_units('C20', names=['ndc.product', 'ndc.compute_strides', 'ndc.reverse', 'ndc.mk', 'ndc.default', 'ndc.resize'],
                      clause='column-major layout: the offset functor holds the reversed shape and the products of the leading extents (same logical element in both layouts, with lemma L2)')
LEMMAS = [
    Lemma('L1+L2 mixed radix (MixedRadix.lean)', 'MixedRadix.lean', clause='round trips both ways are the identity; produced indices lie inside the shape; enumeration visits every multi-index exactly once in row-major order (offset strictly monotone w.r.t. lexicographic order); column-major offset = row-major offset of the reversed index/shape'),
]
