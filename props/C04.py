# C04 -- selecting / replicating / joining / generating views (index-function level)
META = dict(
    level='proof',
    level_text='TODO',
    level_note='TODO',
    trusted_base=[], assumptions=[], not_covered=[],
)
HN = {'hybrid_ndarray.*resize': 3, 'detail_init_': 3}   # constant-trip (rank-1) helper loops of hybrid_ndarray<T,8,1>
UNITS = [
    Unit('shape_tile.uf', 'c04', 'verif_shape_tile', mode='uf', unwind=10, unwind_loops=HN, clause='tile: shape'),
    Unit('tile.uf', 'c04', 'verif_tile', mode='uf', unwind=10, unwind_loops=HN, clause='tile: source index'),
    Unit('shape_roll.bp', 'c04', 'verif_shape_roll', mode='bp', unwind=10, unwind_loops=HN, clause='roll: shape'),
    Unit('roll.bp', 'c04', 'verif_roll', mode='bp', unwind=10, unwind_loops=HN, clause='roll: source index'),
    Unit('shape_pad.bp', 'c04', 'verif_shape_pad', mode='bp', unwind=10, unwind_loops=HN, clause='pad: shape'),
    Unit('pad.bp', 'c04', 'verif_pad', mode='bp', unwind=10, unwind_loops=HN, clause='pad: source index or fill'),
    Unit('shape_concatenate.bp', 'c04', 'verif_shape_concatenate', mode='bp', unwind=10, unwind_loops=HN, clause='concatenate: shape'),
    Unit('concatenate.bp', 'c04', 'verif_concatenate', mode='bp', unwind=10, unwind_loops=HN, clause='concatenate: operand selection and source index'),
    Unit('shape_repeat.uf', 'c04', 'verif_shape_repeat', mode='uf', unwind=10, unwind_loops=HN, clause='repeat: shape'),
    Unit('repeat.uf', 'c04', 'verif_repeat', mode='uf', unwind=10, unwind_loops=HN, clause='repeat: source index'),
]
