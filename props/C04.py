# C04 -- selecting / replicating / joining / generating views (index-function level)
META = dict(
    level='proof',
    level_text='TODO',
    level_note='TODO',
    trusted_base=[], assumptions=[], not_covered=[],
)
HN = {'hybrid_ndarray.*resize': 3, 'detail_init_': 3}   # constant-trip (rank-1) helper loops of hybrid_ndarray<T,8,1>
UNITS = [
    Unit('shape_tile.uf', 'c04', 'verif_shape_tile', mode='uf', unwind=10, unwind_loops=HN, clause='tile: shape'),
    Unit('tile.uf', 'c04', 'verif_tile', mode='uf', unwind=10, unwind_loops=HN, clause='tile: source index'),
    Unit('shape_roll.bp', 'c04', 'verif_shape_roll', mode='bp', unwind=10, unwind_loops=HN, clause='roll: shape'),
    Unit('roll.uf', 'c04', 'verif_roll', mode='uf', unwind=10, unwind_loops=HN, timeout=1200, clause='roll: source index'),
    Unit('shape_pad.bp', 'c04', 'verif_shape_pad', mode='bp', unwind=10, unwind_loops=HN, clause='pad: shape'),
    Unit('pad.bp', 'c04', 'verif_pad', mode='bp', unwind=10, unwind_loops=HN, clause='pad: source index or fill'),
    Unit('shape_concatenate.bp', 'c04', 'verif_shape_concatenate', mode='bp', unwind=10, unwind_loops=HN, clause='concatenate: shape'),
    Unit('concatenate.bp', 'c04', 'verif_concatenate', mode='bp', unwind=10, unwind_loops=HN, clause='concatenate: operand selection and source index'),
    Unit('shape_repeat.uf', 'c04', 'verif_shape_repeat', mode='uf', unwind=10, unwind_loops=HN, clause='repeat: shape'),
    Unit('repeat.uf', 'c04', 'verif_repeat', mode='uf', unwind=10, unwind_loops=HN, clause='repeat: source index'),
    Unit('shape_take.bp', 'c04', 'verif_shape_take', mode='bp', unwind=10, unwind_loops=HN, clause='take: shape'),
    Unit('take.bp', 'c04', 'verif_take', mode='bp', unwind=10, unwind_loops=HN, clause='take: source index (incl. negative entries of the index list)'),
    Unit('shape_resize.bp', 'c04', 'verif_shape_resize', mode='bp', unwind=10, unwind_loops=HN, clause='resize: shape / validity'),
    Unit('resize.uf', 'c04', 'verif_resize', mode='uf', unwind=10, unwind_loops=HN, clause='resize: nearest-neighbour source index'),
    Unit('shape_expand.uf', 'c04', 'verif_shape_expand', mode='uf', unwind=10, unwind_loops=HN, clause='expand: shape'),
    Unit('shape_diagonal.bp', 'c04', 'verif_shape_diagonal', mode='bp', unwind=10, unwind_loops=HN, clause='diagonal: shape'),
    Unit('diagonal.bp', 'c04', 'verif_diagonal', mode='bp', unwind=10, unwind_loops=HN, clause='diagonal: source index'),
    Unit('shape_tril.bp', 'c04', 'verif_shape_tril', mode='bp', unwind=10, unwind_loops=HN, clause='tril: shape'),
    Unit('tril.bp', 'c04', 'verif_tril', mode='bp', unwind=10, unwind_loops=HN, clause='tril: predicate j-i<=k and source index'),
    Unit('shape_triu.bp', 'c04', 'verif_shape_triu', mode='bp', unwind=10, unwind_loops=HN, clause='triu: shape'),
    Unit('triu.bp', 'c04', 'verif_triu', mode='bp', unwind=10, unwind_loops=HN, clause='triu: predicate j-i>=k and source index'),
    Unit('eye.bp', 'c04', 'verif_eye', mode='bp', unwind=10, unwind_loops=HN, clause='eye: one iff j-i==k'),
    Unit('tri.bp', 'c04', 'verif_tri', mode='bp', unwind=10, unwind_loops=HN, clause='tri: one iff j-i<=k'),
]
LEMMAS = [
    Lemma('c04_roll_mod', 'c04_roll_mod.lean', clause='roll: the executable source-coordinate formula of the contract equals the mathematical modulo (idx - shift) mod n for every shift'),
]
