# C04 -- selecting / replicating / joining / generating views (index-function level)
META = dict(
    level='proof',
    level_text='For tile, repeat (scalar repeats and per-element repeats given as an index array, integer axis), roll, pad, concatenate, take, resize, expand (shape), diagonal, tril, triu, eye and tri the '
               'shape function and the index function the view calls (instantiated for utl::static_vector<size_t,8>, rank 0..8 symbolic, '
               'int axis / shift / offset / k) are proved by CBMC code contracts to return NumPy\'s resp. the documented shape and, for every '
               'destination index inside that shape, the designated source index, which lies inside the source shape (or Nothing exactly '
               'for fill positions). Every code loop is closed by a loop contract (per-element repeat: index::sum, index::cumsum, index::where and the axis loop of index::repeat; '
               'an additional bounded unit repeat_each.bounded re-checks the same contract with all loops unwound on rank <= 4, len(repeats) <= 5, so that a recoded search along the axis is still examined); products, quotients and remainders are uninterpreted '
               'with sound axioms where a value equality needs them; the roll formula is tied to the mathematical modulo by a Lean lemma. '
               'Ten genuine defects (roll shift magnitude, negative axes in concatenate/repeat/take, negative take entries, resize float '
               'round trip, diagonal with negative / excessive offset) are recorded as region findings and excluded; the contract holds on the complement.',
    level_note='Index-function level: the view glue view(idx) = src(X(idx)) and view.shape() = shape_X(...) is read off the view headers and trusted. '
               'Trusted: clang AST, cxx2c rendering, CBMC/dfcc, Lean kernel, UF axioms for * / % (unsigned long) and for int % (spec/c04.h). '
               'roll.uf needs about 170 s on the unfixed tree (6 s once the shift is reduced).',
    trusted_base=[
        'clang 14 front end (AST of the instantiated templates)', 'engine/cxx2c.py (C++ AST -> C rendering)',
        'cbmc 6.11.0 / goto-instrument --dfcc (contract instrumentation, SAT back end)', 'Lean 4.33 kernel (lemmas/c04_roll_mod.lean, core library only)',
        'C models of std::optional / std::tuple / std::array (generated struct {has,val} / {e0,..} / {_M_elems})',
        'view glue read from the view headers: which index function a view calls with which arguments (inst/c04.cpp comments)',
        'C++ references are valid and parameters do not alias outputs (harness passes distinct objects)',
    ],
    assumptions=[
        'UF mode: unsigned long * / % are uninterpreted functions constrained by the axioms in models/prelude.h; int % is uninterpreted with the axioms in spec/c04.h (MOD_i); each axiom is a theorem of machine arithmetic',
        'arithmetic facts assumed as precondition instances (theorems, evaluated natively on every replay): r != 0 && a < s*r ==> a/r < s (repeat); i < d && s >= 1 && s*i fits ==> s*i/d < s (resize)',
        'ghost arrays (EST, ETI, PIN, PEX, CEQ, CSH, CBX, CCP, RSH, RPX, RCS, RJ, TSH, TKX, RZP, RZQ, XSH, DSH, DIX) are functional definitions assumed in the precondition',
        'per-element repeats: len(repeats) == shape[axis] (NumPy raises ValueError otherwise; nmtools_assert in shape_repeat, compiled out under -DNDEBUG: argument validation is not claimed), every entry <= 2^60 so that the sum of the at most 8 entries does not wrap; entries equal to 0 are allowed',
        'destination indices lie inside the view shape, arguments are those the shape function accepts (valid axis -ndim <= axis < ndim, valid take entries -n <= e < n, compatible concatenate shapes)',
        'magnitudes: extents / pad widths <= 2^61 (pad, concatenate, take); rolled extent <= 2^30 and diagonal / tril / triu / eye / tri extents and |k| <= 2^30 (nm_index_t = int arithmetic of the code); resize extents < 2^32 (src*idx fits 64 bits); extent products of tile / repeat / expand are machine products (no overflow claim)',
        'out-of-range integer conversions wrap (implementation-defined in C++17, modular on gcc/clang/msvc, defined in C++20): conversion check disabled in nmtools::at, normalize_axis, index::tile, shape_tile lambda, normalize_roll_index (contracts/c04.spec @modular_conversions)',
        'configuration: -DNDEBUG, STL enabled, index arrays of kind utl::static_vector<size_t,8> (take index list: static_vector<int,8>)',
    ],
    not_covered=[
        'view-only routines without an index function: where, full/zeros/ones(_like), element values of arange/linspace (start + i*step in floating point)',
        'stack/hstack/vstack/dstack/column_stack as compositions of expand_dims/concatenate/reshape (only the helpers hstack_axis and shape_vstack and the concatenate stage are under contract)',
        'index::expand source-index function (returns nmtools_either = std::variant: no C model); only shape_expand is covered',
        'split (view::detail::split_args returns nested std::vector for run-time shapes), compress (nonzero/where), sliding_window, diagflat, arange_shape, linspace_shape (std::vector result)',
        'repeat with axis=None (scalar repeats; NumPy allows per-element repeats there too, nmtools does not), per-element repeats in other containers than utl::static_vector<size_t,8> (std::array, std::vector, compile-time lists), rejection of len(repeats) != shape[axis] (assertion only); concatenate with axis=None, take with axis=None',
        'roll with a list of axes: only the shape / axis validity (shape_roll) is covered; the index variant (loop over the axes, normalize_roll_length) exceeded the solver budget (observed natively, not under contract: repeated axes do not accumulate, shape=(5) shift=(1,1) axis=(0,0) idx=(0) -> 4, NumPy 3); the axis=None index variant of index::roll is not used by view::roll (flatten + axis 0)',
        'compile-time-constant, fixed-size (std::array) and dynamic (std::vector) index containers; ranks above 8',
        'extents beyond the magnitude assumptions (int index arithmetic of roll / diagonal / tri*, float-free resize products >= 2^64)',
    ],
)
HN = {'hybrid_ndarray.*resize': 3, 'detail_init_': 3}   # constant-trip (rank-1) helper loops of hybrid_ndarray<T,8,1>
UNITS = [
    # concrete-geometry bounded units: the real selecting / replicating / joining views end to end
    Unit('k.tile.bounded', 'c04k', 'verif_k_tile', mode='bp', plain=True, unwind=14, unwind_loops={'.': 14}, timeout=1500, object_bits=12,
         bounded='one concrete geometry, symbolic int elements, all loops unwound 14 times', waive=[r'arithmetic overflow on (signed to unsigned|unsigned to signed) type conversion'],
         clause='tile reps (2,1) of a (2,3) array: shape and every element as NumPy'),
    Unit('k.repeat_axis.bounded', 'c04k', 'verif_k_repeat_axis', mode='bp', plain=True, unwind=14, unwind_loops={'.': 14}, timeout=1500, object_bits=12,
         bounded='one concrete geometry, symbolic int elements, all loops unwound 14 times', waive=[r'arithmetic overflow on (signed to unsigned|unsigned to signed) type conversion'],
         clause='repeat 2 along axis 0: shape and every element as NumPy'),
    Unit('k.roll_axis.bounded', 'c04k', 'verif_k_roll_axis', mode='bp', plain=True, unwind=14, unwind_loops={'.': 14}, timeout=1500, object_bits=12,
         bounded='one concrete geometry, symbolic int elements, all loops unwound 14 times', waive=[r'arithmetic overflow on (signed to unsigned|unsigned to signed) type conversion'],
         clause='roll by 1 along axis 1: shape and every element as NumPy'),
    Unit('k.roll_flat.bounded', 'c04k', 'verif_k_roll_flat', mode='bp', plain=True, unwind=14, unwind_loops={'.': 14}, timeout=1500, object_bits=12,
         bounded='one concrete geometry, symbolic int elements, all loops unwound 14 times', waive=[r'arithmetic overflow on (signed to unsigned|unsigned to signed) type conversion'],
         clause='roll by 2 with axis None (flattened order, shape kept): shape and every element as NumPy'),
    Unit('k.pad.bounded', 'c04k', 'verif_k_pad', mode='bp', plain=True, unwind=14, unwind_loops={'.': 14}, timeout=1500, object_bits=12,
         bounded='one concrete geometry, symbolic int elements, all loops unwound 14 times', waive=[r'arithmetic overflow on (signed to unsigned|unsigned to signed) type conversion'],
         clause='pad widths before (0,1) / after (1,0) with zeros: shape and every element as NumPy'),
    Unit('k.take.bounded', 'c04k', 'verif_k_take', mode='bp', plain=True, unwind=14, unwind_loops={'.': 14}, timeout=1500, object_bits=12,
         bounded='one concrete geometry, symbolic int elements, all loops unwound 14 times', waive=[r'arithmetic overflow on (signed to unsigned|unsigned to signed) type conversion'],
         clause='take indices (2,0) along axis 1: shape and every element as NumPy'),
    Unit('k.diagonal.bounded', 'c04k', 'verif_k_diagonal', mode='bp', plain=True, unwind=14, unwind_loops={'.': 14}, timeout=1500, object_bits=12,
         bounded='one concrete geometry, symbolic int elements, all loops unwound 14 times', waive=[r'arithmetic overflow on (signed to unsigned|unsigned to signed) type conversion'],
         clause='diagonal with offset 1 of a (2,3) array: shape and every element as NumPy'),
    Unit('k.tril.bounded', 'c04k', 'verif_k_tril', mode='bp', plain=True, unwind=14, unwind_loops={'.': 14}, timeout=1500, object_bits=12,
         bounded='one concrete geometry, symbolic int elements, all loops unwound 14 times', waive=[r'arithmetic overflow on (signed to unsigned|unsigned to signed) type conversion'],
         clause='tril k=0: shape and every element as NumPy'),
    Unit('k.triu.bounded', 'c04k', 'verif_k_triu', mode='bp', plain=True, unwind=14, unwind_loops={'.': 14}, timeout=1500, object_bits=12,
         bounded='one concrete geometry, symbolic int elements, all loops unwound 14 times', waive=[r'arithmetic overflow on (signed to unsigned|unsigned to signed) type conversion'],
         clause='triu k=1: shape and every element as NumPy'),

    Unit('shape_tile.uf', 'c04', 'verif_shape_tile', mode='uf', unwind=10, unwind_loops=HN, clause='tile: shape'),
    Unit('tile.uf', 'c04', 'verif_tile', mode='uf', unwind=10, unwind_loops=HN, clause='tile: source index'),
    Unit('shape_roll.bp', 'c04', 'verif_shape_roll', mode='bp', unwind=10, unwind_loops=HN, clause='roll: shape'),
    Unit('roll.uf', 'c04', 'verif_roll', mode='uf', unwind=10, unwind_loops=HN, timeout=1200, clause='roll: source index'),
    Unit('shape_pad.bp', 'c04', 'verif_shape_pad', mode='bp', unwind=10, unwind_loops=HN, clause='pad: shape'),
    Unit('pad.bp', 'c04', 'verif_pad', mode='bp', unwind=10, unwind_loops=HN, clause='pad: source index or fill'),
    Unit('shape_concatenate_none.bounded', 'c04n', 'verif_shape_concatenate_none', mode='bp', plain=True, unwind=10, unwind_loops={'.': 10}, timeout=900, object_bits=12,
         bounded='ranks <= 3, extents 1..6, all loops unwound 10 times', waive=[r'arithmetic overflow on (signed to unsigned|unsigned to signed) type conversion'],
         clause='concatenate with axis=None: any two shapes (also of different rank) are accepted, the result is 1-d with numel(a)+numel(b) elements'),
    Unit('shape_concatenate.bp', 'c04', 'verif_shape_concatenate', mode='bp', unwind=10, unwind_loops=HN, clause='concatenate: shape'),
    Unit('concatenate.bp', 'c04', 'verif_concatenate', mode='bp', unwind=10, unwind_loops=HN, clause='concatenate: operand selection and source index'),
    Unit('shape_repeat.uf', 'c04', 'verif_shape_repeat', mode='uf', unwind=10, unwind_loops=HN, clause='repeat: shape'),
    Unit('repeat.uf', 'c04', 'verif_repeat', mode='uf', unwind=10, unwind_loops=HN, clause='repeat: source index'),
    Unit('shape_repeat_each.bp', 'c04', 'verif_shape_repeat_each', mode='bp', unwind=10, unwind_loops=HN, clause='repeat (per-element repeats): shape[axis] = sum(repeats)'),
    Unit('repeat_each.bp', 'c04', 'verif_repeat_each', mode='bp', unwind=10, unwind_loops=HN, object_bits=12, clause='repeat (per-element repeats): source index = the position j with cumsum[j-1] <= i < cumsum[j]'),
    Unit('repeat_each.bounded', 'c04', 'verif_repeat_each_b', mode='bp', plain=True, unwind=10, unwind_loops={'.': 6}, object_bits=12, timeout=900,
         bounded='rank <= 4, repeats arrays of length <= 5: every loop unwound; same contract as repeat_each.bp, independent of how the search along the axis is coded',
         clause='repeat (per-element repeats): source index = the position j with cumsum[j-1] <= i < cumsum[j]'),
    Unit('shape_take.bp', 'c04', 'verif_shape_take', mode='bp', unwind=10, unwind_loops=HN, clause='take: shape'),
    Unit('take.bp', 'c04', 'verif_take', mode='bp', unwind=10, unwind_loops=HN, clause='take: source index (incl. negative entries of the index list)'),
    Unit('shape_resize.bp', 'c04', 'verif_shape_resize', mode='bp', unwind=10, unwind_loops=HN, clause='resize: shape / validity'),
    Unit('resize.uf', 'c04', 'verif_resize', mode='uf', unwind=10, unwind_loops=HN, clause='resize: nearest-neighbour source index'),
    Unit('shape_expand.uf', 'c04', 'verif_shape_expand', mode='uf', unwind=10, unwind_loops=HN, clause='expand: shape'),
    Unit('shape_diagonal.bp', 'c04', 'verif_shape_diagonal', mode='bp', unwind=10, unwind_loops=HN, clause='diagonal: shape'),
    Unit('diagonal.bp', 'c04', 'verif_diagonal', mode='bp', unwind=10, unwind_loops=HN, clause='diagonal: source index'),
    Unit('shape_tril.bp', 'c04', 'verif_shape_tril', mode='bp', unwind=10, unwind_loops=HN, clause='tril: shape'),
    Unit('tril.bp', 'c04', 'verif_tril', mode='bp', unwind=10, unwind_loops=HN, clause='tril: predicate j-i<=k and source index'),
    Unit('shape_triu.bp', 'c04', 'verif_shape_triu', mode='bp', unwind=10, unwind_loops=HN, clause='triu: shape'),
    Unit('triu.bp', 'c04', 'verif_triu', mode='bp', unwind=10, unwind_loops=HN, clause='triu: predicate j-i>=k and source index'),
    Unit('eye.bp', 'c04', 'verif_eye', mode='bp', unwind=10, unwind_loops=HN, clause='eye: one iff j-i==k'),
    Unit('tri.bp', 'c04', 'verif_tri', mode='bp', unwind=10, unwind_loops=HN, clause='tri: one iff j-i<=k'),
    Unit('shape_roll_axes.bp', 'c04', 'verif_shape_roll_axes', mode='bp', unwind=10, unwind_loops=HN, clause='roll (several axes): shape / axis validity'),
    Unit('hstack_axis.bp', 'c04', 'verif_hstack_axis', mode='bp', unwind=10, unwind_loops=HN, clause='hstack: joining axis'),
    Unit('shape_vstack.bp', 'c04', 'verif_shape_vstack', mode='bp', unwind=10, unwind_loops=HN, clause='vstack: promoted operand shape'),
]
LEMMAS = [
    Lemma('c04_roll_mod', 'c04_roll_mod.lean', clause='roll: the executable source-coordinate formula of the contract equals the mathematical modulo (idx - shift) mod n for every shift'),
]
