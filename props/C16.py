# C16 -- linear algebra: shapes / validity / index helpers
META = dict(
    level='proof',
    level_text='Only the shape, validity and index-helper layer of the linear-algebra routines is covered, not the element values. '
               'Proved for every input of the instantiation (ranks 1..8 symbolic, all positive 64-bit extents; loops closed by loop contracts, bit-precise): '
               'index::shape_matmul equals the NumPy matmul shape rule (Nothing iff the contracted extents differ or the batch parts do not broadcast; else broadcast(batch) ++ (n, m), incl. 1-d promotion on either side); '
               'index::matmul (element selection of matmul_t) yields in-bounds slices selecting row i of the broadcast left batch element and column j of the right one (fixed-rank kinds 2x2, 3x3, 4x2, 2x4, 4x3); '
               'the argument helpers of the matmulv2 / dot / inner / tensordot / kron view pipelines produce exactly the permutation / shape that the pipeline needs to compute the NumPy result '
               '(position-wise characterisation; equal element count and "is a permutation" are corollaries).',
    level_note='The defining sum of products (a composition over a 4..6 stage view pipeline: tile/reshape/transpose/multiply/sum) is NOT verified: '
               'per-function contracts state what each stage argument is, not that the composed views compute the sum. Trusted: clang AST, cxx2c rendering, CBMC, C models of std::optional/tuple/array.',
    trusted_base=['clang 14 front end (AST of the instantiated templates)', 'engine/cxx2c.py (C++ AST -> C rendering)',
                  'cbmc 6.11.0 / goto-instrument --dfcc (contract instrumentation, SAT back end)',
                  'C models of std::optional / std::tuple / std::array (generated prelude)',
                  'spec/c16.h: the NumPy rules written as C predicates (matmul shape rule; broadcast macros shared textually with spec/c06.h)'],
    assumptions=['configuration -DNDEBUG, STL enabled; shapes of kind utl::static_vector<size_t,8> (rank symbolic) resp. std::array<size_t,N> for the slice helper; '
                 'number of dimensions passed as clipped_size_t<8> (the kind that yields bounded results; a plain size_t yields std::vector results, not modelled)',
                 'operand ranks >= 1 (matmul/dot/inner of 0-d operands is outside the property; shape_matmul reads ashape[-1] without a rank check)',
                 'extents >= 1 (the property quantifies over positive extents; with a 0 extent in a batch axis the library\'s max rule differs from NumPy, see C06)',
                 'tensordot explicit axes: in range and pairwise distinct (as NumPy requires; the view unwraps normalize_axis unchecked); lhs_dim + rhs_dim - n <= 15 (capacity of the result type chosen by the library)',
                 'kron_dst_reshape: products are uninterpreted (mode uf) -- the result extent is literally the product term of the aligned extents',
                 'ghost traces (CNT, KRP) are functional definitions assumed in the precondition'],
    not_covered=['element values: result elements equal the defining sums of products over the contracted index ranges (composition over the view pipeline; outside per-function contracts)',
                 'index::matmul for bounded-rank shapes (slice element type std::variant, not modelled) -- covered for fixed ranks >= 2 only',
                 'matmul_t (first implementation) with a 1-d operand: not reachable by a contract (fixed rank 1: index::matmul does not compile -- template_reduce<len-2> with len = 1; '
                 'bounded rank: observed natively, outside the proof: index::matmul({1},{3},{3,2},{2}) writes l_slices[-2] of a length-1 vector, AddressSanitizer stack-buffer-overflow). '
                 'shape_matmul and the matmulv2 helpers do handle 1-d operands (proved); natively matmulv2((3,),(3,2)) = [22 28] as numpy',
                 'index::kron_dst_transpose (recursive; its instantiation chain ends in std::vector results, not modelled)',
                 'outer: one bounded concrete-geometry unit (outer_2_3.bounded: the real view, (2)x(3), symbolic floats, float * uninterpreted); vecdot, trace: no index helper of their own (compositions of broadcasting multiply / sum / diagonal: C06, C08, C04). '
                 'Whole-view bounded checks of matmul, dot (1-d lhs) and trace (default axes) were tried: matmul_t goes through dynamic (std::variant) slices, matmulv2 / dot / trace extract but their model checks do not finish in 15-25 min (the run-time index arithmetic of the tile / reshape / transpose pipeline is not removed by constant propagation); consequently the seeded changes C16-4 (trace default axes) and C16-5 (dot fast path for a fixed-length 1-d lhs) are NOT detected',
                 'maybe-lifting overloads and compile-time (constant index) branches (type level)',
                 'both matmul implementations computing equal elements'],
)
UNITS = [
    # concrete-geometry bounded units: the real views end to end, symbolic float elements, float + and * uninterpreted (mode fuf)
    Unit('outer_2_3.bounded', 'c16k', 'verif_outer_2_3', mode='fuf', plain=True, unwind=8, unwind_loops={'.': 8}, timeout=1500, object_bits=12,
         bounded='one concrete geometry, symbolic float elements, all loops unwound 8 times', waive=[r'arithmetic overflow on (signed to unsigned|unsigned to signed) type conversion'],
         clause='outer of two vectors'),

    Unit('split.bp', 'c16', 'verif_split', mode='bp', unwind=10, clause='helper'),
    Unit('shape_matmul.bp', 'c16', 'verif_shape_matmul', mode='bp', unwind=10, unwind_loops={'hybrid_ndarray.*resize': 3, 'detail_init_': 3}, object_bits=12, clause='matmul shape'),
    Unit('matmul_slices_22.bp', 'c16', 'verif_matmul_slices_22', mode='bp', unwind=10, clause='matmul element selection: row/column slices of the broadcast batch element (2-d x 2-d)'),
    Unit('matmul_slices_33.bp', 'c16', 'verif_matmul_slices_33', mode='bp', unwind=10, clause='matmul element selection: row/column slices of the broadcast batch element (3-d x 3-d, broadcast batch axis)'),
    Unit('matmul_slices_42.bp', 'c16', 'verif_matmul_slices_42', mode='bp', unwind=10, clause='matmul element selection: row/column slices of the broadcast batch element (4-d x 2-d)'),
    Unit('matmul_slices_24.bp', 'c16', 'verif_matmul_slices_24', mode='bp', unwind=10, clause='matmul element selection: row/column slices of the broadcast batch element (2-d x 4-d)'),
    Unit('matmul_slices_43.bp', 'c16', 'verif_matmul_slices_43', mode='bp', unwind=10, clause='matmul element selection: row/column slices of the broadcast batch element (4-d x 3-d, batch parts of different rank)'),
    Unit('matmul_rhs_transpose.bp', 'c16', 'verif_matmul_rhs_transpose', mode='bp', unwind=10, clause='matmul (pipeline form): right operand axes = identity with the last two exchanged'),
    Unit('matmul_lhs_tile.bp', 'c16', 'verif_matmul_lhs_tile', mode='bp', unwind=10, clause='matmul (pipeline form): left operand is repeated m times along its last axis'),
    Unit('matmul_lhs_reshape.bp', 'c16', 'verif_matmul_lhs_reshape', mode='bp', unwind=10, clause='matmul (pipeline form): tiled left operand reshaped to (..A.., n, m, k)'),
    Unit('matmul_rhs_reshape.bp', 'c16', 'verif_matmul_rhs_reshape', mode='bp', unwind=10, clause='matmul (pipeline form): transposed right operand reshaped to (..B.., 1, m, k)'),
    Unit('dot_rhs_transpose.bp', 'c16', 'verif_dot_rhs_transpose', mode='bp', unwind=10, clause='dot: right operand axes = identity with the last two exchanged'),
    Unit('dot_lhs_tile.bp', 'c16', 'verif_dot_lhs_tile', mode='bp', unwind=10, clause='dot: left operand repeated m times along its last axis'),
    Unit('dot_lhs_reshape.bp', 'c16', 'verif_dot_lhs_reshape', mode='bp', unwind=10, clause='dot: left operand reshaped to (..A.., 1.., m, k)'),
    Unit('inner_lhs_reshape.bp', 'c16', 'verif_inner_lhs_reshape', mode='bp', unwind=10, clause='inner: left operand reshaped to (..A.., 1.., k)'),
    Unit('tensordot_lhs_transpose_n.bp', 'c16', 'verif_tensordot_lhs_transpose_n', mode='bp', unwind=10, clause='tensordot (integer axes): left operand is not transposed'),
    Unit('tensordot_rhs_transpose_n.bp', 'c16', 'verif_tensordot_rhs_transpose_n', mode='bp', unwind=10, clause='tensordot (integer axes): right operand axes rotated so the contracted first n come last'),
    Unit('tensordot_lhs_reshape.bp', 'c16', 'verif_tensordot_lhs_reshape', mode='bp', unwind=10, clause='tensordot: left operand reshaped to (a[:-n], 1.., a[-n:])'),
    Unit('kron_lhs_reshape.bp', 'c16', 'verif_kron_lhs_reshape', mode='bp', unwind=10, clause='kron: left operand reshaped to (a.., 1 x rdim)'),
    Unit('kron_dst_reshape.uf', 'c16', 'verif_kron_dst_reshape', mode='uf', unwind=10, clause='kron: result extent = product of the right-aligned extents'),
    Unit('tensordot_lhs_transpose.bp', 'c16', 'verif_tensordot_lhs_transpose', mode='bp', unwind=10, clause='tensordot (explicit axes): left operand axes = non-contracted in increasing order, then the contracted ones in the given order'),
    Unit('tensordot_rhs_transpose.bp', 'c16', 'verif_tensordot_rhs_transpose', mode='bp', unwind=10, clause='tensordot (explicit axes): right operand axes = non-contracted in increasing order, then the contracted ones in the given order'),
]
UNITS += import_units('C04', names=['shape_diagonal.bp', 'diagonal.bp'], clause='trace: the diagonal it sums has the NumPy length for every offset (also negative, non-square) and addresses a[i][i+offset]')
