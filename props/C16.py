# C16 -- linear algebra: shapes / validity / index helpers
META = dict(level='proof', level_text='wip', level_note='wip', trusted_base=[], assumptions=[], not_covered=[])
UNITS = [
    Unit('split.bp', 'c16', 'verif_split', mode='bp', unwind=10, clause='helper'),
    Unit('shape_matmul.bp', 'c16', 'verif_shape_matmul', mode='bp', unwind=10, unwind_loops={'hybrid_ndarray.*resize': 3, 'detail_init_': 3}, object_bits=12, clause='matmul shape'),
]
