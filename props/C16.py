# C16 -- linear algebra: shapes / validity / index helpers
META = dict(level='proof', level_text='wip', level_note='wip', trusted_base=[], assumptions=[], not_covered=[])
UNITS = [
    Unit('split.bp', 'c16', 'verif_split', mode='bp', unwind=10, clause='helper'),
    Unit('shape_matmul.bp', 'c16', 'verif_shape_matmul', mode='bp', unwind=10, unwind_loops={'hybrid_ndarray.*resize': 3, 'detail_init_': 3}, object_bits=12, clause='matmul shape'),
    Unit('matmul_slices_22.bp', 'c16', 'verif_matmul_slices_22', mode='bp', unwind=10, clause='matmul element selection: row/column slices of the broadcast batch element (2-d x 2-d)'),
    Unit('matmul_slices_33.bp', 'c16', 'verif_matmul_slices_33', mode='bp', unwind=10, clause='matmul element selection: row/column slices of the broadcast batch element (3-d x 3-d, broadcast batch axis)'),
    Unit('matmul_slices_42.bp', 'c16', 'verif_matmul_slices_42', mode='bp', unwind=10, clause='matmul element selection: row/column slices of the broadcast batch element (4-d x 2-d)'),
    Unit('matmul_slices_24.bp', 'c16', 'verif_matmul_slices_24', mode='bp', unwind=10, clause='matmul element selection: row/column slices of the broadcast batch element (2-d x 4-d)'),
    Unit('matmul_slices_43.bp', 'c16', 'verif_matmul_slices_43', mode='bp', unwind=10, clause='matmul element selection: row/column slices of the broadcast batch element (4-d x 3-d, batch parts of different rank)'),
]
