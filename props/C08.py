# C08 -- reductions and accumulations fold exactly the addressed elements, in order (index functions + the fold loops)
META = dict(
    level='proof',
    level_text='Result shape, element selection and fold order of reductions are proved at the level of the index functions and of the fold '
               'loops: index::remove_dims (axis int / two axes / None; keepdims True, False and run-time) equals the NumPy result shape; '
               'index::reduction_slices (axis int with keepdims True / False / run-time, axis list with run-time keepdims) selects, per source '
               'axis, the full range on reduced axes and the single position taken from the result index on the others; both overloads of '
               'view::reducer_t::operator() compute the left fold in increasing index order for an abstract (uninterpreted) binary op. '
               'Shapes are utl::static_vector<size_t,8> of symbolic rank 0..8 and arbitrary 64-bit extents; every code loop is closed by a loop '
               'contract, all obligations are discharged bit-precisely by CBMC (dfcc) together with bounds / overflow / conversion checks '
               'and the dereference of the optional returned by normalize_axis.',
    level_note='Trusted: clang AST, cxx2c rendering (cross-checked by translation validation on every run), CBMC, the C models of '
               'std::optional / std::array. The view glue between the pieces (apply_slice, view::flatten, view::reduce dispatch, the slice loop '
               'inside accumulate_t::operator()) is not under contract.',
    trusted_base=[
        'clang 14 front end (AST of the instantiated templates)', 'engine/cxx2c.py (C++ AST -> C rendering)',
        'cbmc 6.11.0 / goto-instrument --dfcc (contract instrumentation, SAT back end)',
        'C models of std::optional (dereference asserts has_value) and std::array in the generated prelude',
        'C++ references are valid and parameters do not alias outputs (harness passes distinct objects)',
    ],
    assumptions=[
        'precondition of remove_dims / reduction_slices: every axis lies in [-dim, dim) and, for a list of axes, the normalised axes are pairwise '
        'distinct (NumPy raises AxisError / "duplicate value in axis"; the views hand the user\'s axis on unchecked -- view/ufunc.hpp: '
        '"TODO: error handling for duplicate axis" -- and the property quantifies over subsets of axes)',
        'precondition of reduction_slices: the result index has one entry per result axis (len = dim with keepdims, dim - #reduced without)',
        'precondition of the fold without initial value: the operand is non-empty (NumPy: reduction of an empty operand without identity is an error)',
        'remove_dims(shape, int, run-time bool): rank 8 with keepdims=true is excluded -- the library chooses the capacity-7 result vector for '
        'a run-time keepdims, resize(8) is then silently ignored and the 8th store is out of bounds (confirmed natively). No view reaches this '
        'instantiation: view::reduce dispatches a run-time keepdims to the True / False instantiations, which are proved without exclusion',
        'the abstract op is an uninterpreted function: pure (same arguments -> same result), otherwise unconstrained (not associative, not commutative)',
        'ghost traces RED / KEPT / FT are functional definitions assumed in the precondition',
        'configuration: -DNDEBUG, STL enabled, kind utl::static_vector<size_t,8> (rank 0..8 symbolic), fold operand utl::static_vector<long,8>',
    ],
    explanation='remove_dims: with keepdims the rank is unchanged and exactly the reduced axes have extent 1; without, the surviving axes keep '
                'their order (source axis g lands at position #{kept axes below g}) and the rank is dim - #axes. reduction_slices: for every source '
                'axis g, reduced -> [0, shape[g]); kept -> [idx[r(g)], idx[r(g)]+1) with r(g) = g (keepdims) or #{kept axes below g}: exactly the source '
                'elements whose non-reduced coordinates equal the result index. reducer_t: result == op(...op(op(x0,x1),x2)...,xn-1), resp. starting from '
                'the initial value, for an uninterpreted op -- any change of order, operand position, start or end index changes the term.',
    not_covered=[
        'mean / var / stddev / vector_norm / trace compositions (mean_divisor, var) and the named wrappers sum / prod / amax / amin / cumsum / cumprod',
        'dtype / result element type (a decltype fact)',
        'accumulate: the prefix-range slice loop lives inside accumulate_t::operator() (no index function); only the bounded unit accumulate_add_dtype.bounded '
        '(one concrete 1-d geometry, run-time shape kind) exercises it; its fold is the reducer_t loop proved here',
        'the glue of reduce_t::operator(): apply_slice (C05), view::flatten in C order (C03 / C01), view::reduce dispatch incl. either for run-time keepdims: '
        'exercised only by the bounded units reduce_add_*_initial.bounded (one concrete 2x3 geometry each), not proved in general',
        'remove_dims with a run-time-length axis list (utl::static_vector<int,8>) or axis=None on bounded shapes: the library returns std::vector, '
        'for which the translator has no model; list axes are covered for the fixed-length kind nmtools_array<int,2> and in reduction_slices',
        'compile-time constant shapes / axes (type level)',
    ],
)
UNITS = [
    # concrete-geometry bounded units: the real reduce / accumulate views end to end (decorator, reduce_t / accumulate_t, slicing, flatten, evaluator)
    Unit('reduce_add_all_initial.bounded', 'c08k', 'verif_reduce_add_all_initial', mode='bp', plain=True, unwind=8, unwind_loops={'.': 8}, timeout=1500, object_bits=12,
         bounded='2x3 int array, symbolic elements in [-1e5, 1e5], all loops unwound 8 times', waive=[r'arithmetic overflow on (signed to unsigned|unsigned to signed) type conversion'],
         clause='reduction over all axes with an initial value folds initial and every element'),
    Unit('reduce_add_axes_initial.bounded', 'c08k', 'verif_reduce_add_axes_initial', mode='bp', plain=True, unwind=8, unwind_loops={'.': 8}, timeout=1500, object_bits=12,
         bounded='2x3 int array of fixed rank, explicit axes (0,1), symbolic elements in [-1e5, 1e5], all loops unwound 8 times', waive=[r'arithmetic overflow on (signed to unsigned|unsigned to signed) type conversion'],
         clause='reduction over an explicit list of all axes with an initial value (number-valued view) folds initial and every element'),
    Unit('reduce_add_axis0_initial.bounded', 'c08k', 'verif_reduce_add_axis0_initial', mode='bp', plain=True, unwind=8, unwind_loops={'.': 8}, timeout=1500, object_bits=12,
         bounded='2x3 int array, symbolic elements in [-1e5, 1e5], all loops unwound 8 times', waive=[r'arithmetic overflow on (signed to unsigned|unsigned to signed) type conversion'],
         clause='reduction over one axis with an initial value: each output folds initial and exactly the addressed elements'),
    Unit('accumulate_add_dtype.bounded', 'c08k', 'verif_accumulate_add_dtype', mode='bp', plain=True, unwind=8, unwind_loops={'.': 8}, timeout=1500, object_bits=12,
         bounded='4 signed chars, every value, all loops unwound 8 times', waive=[r'arithmetic overflow on (signed to unsigned|unsigned to signed) type conversion'],
         clause='accumulate with a wider dtype forms the running fold in that type'),
    Unit('remove_dims.int_true', 'c08', 'verif_remove_dims_int_true', mode='bp', unwind=10, clause='NumPy result shape, one axis, keepdims=True (as the views instantiate it): rank kept, reduced axis has extent 1'),
    Unit('remove_dims.int_false', 'c08', 'verif_remove_dims_int_false', mode='bp', unwind=10, clause='NumPy result shape, one axis, keepdims=False: that axis removed, order of the others kept'),
    Unit('remove_dims.int_bool', 'c08', 'verif_remove_dims_int_bool', mode='bp', unwind=10, clause='NumPy result shape, one axis, run-time keepdims (direct index-level call)'),
    Unit('remove_dims.ax2_true', 'c08', 'verif_remove_dims_ax2_true', mode='bp', unwind=10, clause='NumPy result shape, several axes (positive or negative, any order), keepdims=True'),
    Unit('remove_dims.ax2_false', 'c08', 'verif_remove_dims_ax2_false', mode='bp', unwind=10, clause='NumPy result shape, several axes, keepdims=False: those axes removed, order kept'),
    Unit('remove_dims.none_true', 'c08', 'verif_remove_dims_none_true', mode='bp', unwind=10, clause='NumPy result shape, all axes (None), keepdims=True: all ones'),
    Unit('reduction_slices.int', 'c08', 'verif_reduction_slices_int', mode='bp', unwind=10, clause='exactly the source elements whose non-reduced coordinates match the result index (one axis, run-time keepdims)'),
    Unit('reduction_slices.int_true', 'c08', 'verif_reduction_slices_int_true', mode='bp', unwind=10, clause='the same, keepdims=True as reduce_t::operator() passes it'),
    Unit('reduction_slices.int_false', 'c08', 'verif_reduction_slices_int_false', mode='bp', unwind=10, clause='the same, keepdims=False as reduce_t::operator() passes it'),
    Unit('reduction_slices.axes', 'c08', 'verif_reduction_slices_axes', mode='bp', unwind=10, clause='exactly the source elements whose non-reduced coordinates match the result index (any list of valid axes, negative / unsorted included)'),
    Unit('fold', 'c08', 'verif_fold', mode='bp', unwind=10, clause='left fold in increasing index order starting from the first element (no initial value); also the running fold of accumulate'),
    Unit('fold_init', 'c08', 'verif_fold_init', mode='bp', unwind=10, clause='left fold in increasing index order starting from the initial value'),
]
