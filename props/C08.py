META = dict(level='proof', level_text='wip', level_note='wip', trusted_base=[], assumptions=[], not_covered=[])
UNITS = [
    Unit('remove_dims.int_true', 'c08', 'verif_remove_dims_int_true', mode='bp', unwind=10),
]
