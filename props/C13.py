# C13 -- per-thread device kernel body reproduces host evaluation for any launch geometry (kernel-helper arithmetic only)
META = dict(
    level='proof',
    level_text='Only the kernel-helper arithmetic of eval/kernel_helper.hpp is covered, on the real instantiated code: '
               'array::compute_offset(thread, block, block_size) = block.x*block_size.x + thread.x (product uninterpreted; bit-precise no-wrap for '
               'launch extents < 2^32); array::create_vector<0>/<3>(ptr, dim) copies exactly the first dim entries into a vector of length dim '
               '(loop closed by a loop contract; capacity bound dim <= NMTOOLS_KERNEL_MAX_DIM = 8 - violated by the callers, see the known finding); '
               'array::assign_result, instantiated with abstract flat output / result views (buffers of n <= 32 elements), writes out[idx] = rhs(idx) '
               'and nothing else when idx < size, and nothing at all when idx >= size. Injectivity / coverage of the id map over a grid is a Lean lemma '
               '(natural numbers) with a bounded bit-precise cross-check. Schedule independence is an argument over these proved frames, not a model '
               'of concurrent execution.',
    level_note='CBMC contracts are sequential: threads, warps, memory models and data races are not modelled; the conclusion "any order, interleaving or '
               'duplication gives the same output" rests on the proved per-thread frame (writes only out[idx], reads only rhs(idx) and the unwritten '
               'inputs) together with the injectivity lemma. The abstract flat views replace view::mutable_flatten / view::flatten / nmtools::size of '
               'the real device_array (their index arithmetic is C01/C03/C20 territory); get_function_composition / operands and the per-backend '
               'launch code are not covered.',
    trusted_base=[
        'clang 14 front end (AST of the instantiated templates)', 'engine/cxx2c.py (C++ AST -> C rendering)',
        'cbmc 6.11.0 / goto-instrument --dfcc (contract instrumentation, SAT back end)',
        'Lean 4.33 kernel (lemmas/c13_grid.lean, core library only); correspondence between block*block_size+thread over the naturals and the machine '
        'expression (no wrap: unit compute_offset.nowrap.bp for extents < 2^32; bounded bit-precise cross-checks of injectivity and coverage)',
        'abstract operands of assign_result defined in inst/c13.cpp (verif_out / verif_rhs with nmtools::size, view::mutable_flatten, view::flatten, '
        'operator()(idx) = element idx): the real views are assumed to implement "flat element idx" (C01 round trip + C03 reshape + C20 offset)',
    ],
    assumptions=[
        'UF mode (compute_offset.uf, assign_result.uf): unsigned long * is an uninterpreted function constrained by the axioms in models/prelude.h',
        'ghost IDX is the functional definition block.x*block_size.x + thread.x assumed in the precondition',
        'configuration -DNDEBUG, STL enabled, no device macros (kernel_helper.hpp is host-compilable as is); NMTOOLS_KERNEL_MAX_DIM default 8; '
        'kernel_size<size_t>; output / result of at most 32 elements (symbolic size), int elements',
        'create_vector: the (pointer, dim) pair is the data() of a by-value 16-entry container, dim <= 16 readable entries; the known-finding region '
        'dim > 8 is excluded from the proved contract (requires !(region)) after its witness is replayed on the real code',
    ],
    explanation='Per thread (proved on the real code): idx = block*block_size + thread (compute_offset.uf; nothing wraps for 32-bit launch extents, '
                'compute_offset.nowrap.bp); assign_result reads size(out) and rhs(idx) only, and if idx < size assigns exactly the one cell out[idx] = rhs(idx) '
                '(postcondition with a universally quantified ghost position g: every cell g != idx, also beyond size, keeps its value; the size field is '
                'unchanged); if idx >= size it assigns nothing (assign_result.uf; bounds/pointer checks on every access). Over the grid (Lean, naturals, '
                'lemmas/c13_grid.lean): grid_injective - two threads (b1,t1) != (b2,t2) with t1,t2 < block_size have different idx; grid_recover - (b,t) = '
                '(idx / bs, idx % bs); grid_cover - every idx < grid*bs is the id of the legal thread (idx / bs, idx % bs), so a 1-d launch with '
                'grid*bs >= size runs a thread for every output element; grid_block_range - ids of a block are contiguous. Both are cross-checked '
                'bit-precisely on the machine expression for block size <= 33, <= 255 blocks (bounded units, not counted as proof). '
                'SCHEDULE INDEPENDENCE (argument over the contracts): let T be the multiset of executed threads containing every thread of the grid at least once. '
                'By the frame, thread (b,t) writes at most the cell out[idx(b,t)] and reads only rhs and size(out), which no thread writes (rhs is a different object; '
                'the size field is in every frame). By injectivity distinct threads have distinct cells, so no thread reads or writes a cell another thread writes; '
                'the value written, rhs(idx), does not depend on the state of out. Hence every sequential order of T - ascending, descending, interleaved, random, '
                'with repetitions (a repeated thread rewrites the same value) - ends with out[k] = rhs(k) for k < size (coverage) and out untouched elsewhere '
                '(guard), which is host evaluation of the flat view. Concurrency itself (simultaneous execution, memory model) is not modelled; under any memory '
                'model in which race-free programs are sequentially consistent the same conclusion holds because the per-thread footprints are disjoint. '
                'Reconstruction of operands: create_vector copies dim entries (create_vector.bp, create_vector_fixed3.bp) provided dim <= 8; KNOWN FINDING: '
                'for dim > 8 (output rank > 8 passed by the CUDA/HIP/SYCL kernels, pad_size = 2*rank > 8 in the OpenCL pad kernel) the static_vector refuses the '
                'resize and the copy loop overruns the buffer (confirmed on the real code).',
    not_covered=['create_array(ptr, shape_ptr, dim): only the SHAPE of the rebuilt read-only operand is checked, bounded (dim 1..4 quick, 1..8 thorough; extents < 2^63), '
                 'not its elements (reshape over a pointer ref: C03) and not the fixed-dimension kinds (DIM > 0)',
                 'get_function_composition / get_function_operands (C14, template plumbing)',
                 'per-backend launch code (cuda/hip/sycl/opencl context.hpp: buffer allocation, copies, grid computation thread_size = ceil(size/warp)*warp)',
                 'concurrency itself: simultaneous execution, warps, memory model, atomics',
                 'device_array / create_mutable_array object construction and the real mutable_flatten / flatten views (abstracted; index arithmetic '
                 'is the subject of C01/C03/C20)',
                 'functional apply of the function composition on the device (fn::apply)',
                 '3-d launches (compute_offset uses only the x components; y/z are ignored by the code)'],
)
UNITS = [
    Unit('create_array_shape4.bounded', 'c13', 'verif_create_array_shape4', mode='uf', unwind=10, unwind_loops={'.': 6}, plain=True, object_bits=12, timeout=1500, waive=[r'arithmetic overflow on (signed to unsigned|unsigned to signed) type conversion'], bounded='all loops unwound 6 times (dim <= 4)', clause='the operand rebuilt from (pointer, shape pointer, dim) has exactly the given extents in order'),
    Unit('create_array_shape.bounded', 'c13', 'verif_create_array_shape', mode='uf', unwind=10, unwind_loops={'.': 10}, plain=True, tier='thorough', object_bits=12, timeout=1500, waive=[r'arithmetic overflow on (signed to unsigned|unsigned to signed) type conversion'], bounded='all loops unwound 10 times (dim <= 8)', clause='the operand rebuilt from (pointer, shape pointer, dim) has exactly the given extents in order'),
    Unit('compute_offset.uf', 'c13', 'verif_compute_offset', mode='uf',
         clause='global id of a thread = block * block_size + thread'),
    Unit('compute_offset.nowrap.bp', 'c13', 'verif_compute_offset_nowrap', mode='bp', uchecks=True,
         clause='any block size / grid: the id computation does not wrap for launch extents below 2^32 (unsigned-overflow checks)'),
    Unit('create_vector.bp', 'c13', 'verif_create_vector', mode='bp',
         clause='rebuilding a shape from a raw (pointer, dim) pair copies exactly dim entries and stays within the capacity'),
    Unit('create_vector_fixed3.bp', 'c13', 'verif_create_vector_fixed3', mode='bp',
         clause='rebuilding a fixed-rank shape from a raw (pointer, dim) pair copies exactly dim entries'),
    Unit('assign_result.uf', 'c13', 'verif_assign_result', mode='uf',
         clause='a thread with id < size writes exactly out[id] = rhs(id); threads whose global id is not below the output size write nothing'),
    Unit('crosscheck.grid_injective_small', 'c13', None, lemma='lemma_grid_injective_small', mode='bp',
         bounded='block ids <= 255, block size <= 33 (bit-precise cross-check of the Lean lemma on the machine expression)',
         clause='distinct threads have distinct ids (bounded cross-check of L3)'),
    Unit('crosscheck.grid_cover_small', 'c13', None, lemma='lemma_grid_cover_small', mode='bp',
         bounded='grid <= 255 blocks, block size 1..33 (bit-precise cross-check of the Lean lemma on the machine expression)',
         clause='a launch whose thread count is at least the output size has a thread for every element (bounded cross-check of L3)'),
]
LEMMAS = [
    Lemma('L3 launch grid (c13_grid.lean)', 'c13_grid.lean',
          clause='for any block size and grid: distinct (block, thread) pairs with thread < block_size have distinct ids; the pair is recovered by / and %; '
                 'every id below grid*block_size belongs to exactly one legal thread'),
]
