/* C20 spec predicates: the generic ndarray_t<static_vector<float,6>, static_vector<size_t,4>> (row-major) keeps its invariant
 * under construction / resize / copy / assign; a refused resize returns false and leaves the WHOLE object unchanged.
 * The object state is the 5-tuple (data_, shape_, strides_, offset_.shape_, offset_.strides_).
 * Written against field names that exist both in the real C++ class and in the generated C struct. */
#include "spec/abi.h"
#define C20_DIM 4UL   /* capacity of the shape / stride vectors */
#define C20_BUF 6UL   /* capacity of the element buffer */

/* ghost index (universally quantified position) */
GHOST(unsigned long, g)
/* ghost traces of the folds computed by index::product / index::stride over the shape argument S:
 *   PP[j]    = S[0] * ... * S[j-1]          (left fold from 1, as index::product)
 *   HP(k,j)  = S[k+1] * ... * S[j-1]        (left fold from 1, as index::stride) */
GHOST_ARR(unsigned long, PP, 6)
GHOST_ARR(unsigned long, HPv, 36)
#define HP(k, j) HPv[(k) * 6UL + (j)]

#include "spec/c20_common.h"

/* ---------------------------------------------------------------- verif_nd_mk: object with exactly the given state */
static inline int pre_verif_nd_mk(fb6_t data, sv4_t shape, sv4_t strides, sv4_t oshape, sv4_t ostrides)
{ return c20_rep(data, shape, strides, oshape, ostrides); }
static inline int post_verif_nd_mk(fb6_t data, sv4_t shape, sv4_t strides, sv4_t oshape, sv4_t ostrides, nd_t ret)
{
  int ok = SV_LEN(ret.data_) == SV_LEN(data) && SV_LEN(ret.shape_) == SV_LEN(shape) && SV_LEN(ret.strides_) == SV_LEN(strides)
        && SV_LEN(ret.offset_.shape_) == SV_LEN(oshape) && SV_LEN(ret.offset_.strides_) == SV_LEN(ostrides);
  for (unsigned long t = 0; t < C20_BUF; t++)
    ok = ok && c20_feq(SV_AT(ret.data_, t), SV_AT(data, t));
  for (unsigned long t = 0; t < C20_DIM; t++)
    ok = ok && SV_AT(ret.shape_, t) == SV_AT(shape, t) && SV_AT(ret.strides_, t) == SV_AT(strides, t)
            && SV_AT(ret.offset_.shape_, t) == SV_AT(oshape, t) && SV_AT(ret.offset_.strides_, t) == SV_AT(ostrides, t);
  return ok;
}

/* ---------------------------------------------------------------- default construction => Inv */
static inline int pre_verif_nd_default(void)
{ return c20_traces_default(); }
static inline int post_verif_nd_default(nd_t ret)
{ return C20_INV_OF(ret); }

/* ---------------------------------------------------------------- resize
 * accepted => Inv(new) and shape_ == argument;  refused => the whole object is unchanged */
static inline int pre_verif_nd_resize(fb6_t data, sv4_t shape, sv4_t strides, sv4_t oshape, sv4_t ostrides, sv4_t new_shape)
{ return c20_rep(data, shape, strides, oshape, ostrides) && SV_LEN(new_shape) <= C20_DIM && c20_traces(new_shape); }
static inline int post_verif_nd_resize(fb6_t data, sv4_t shape, sv4_t strides, sv4_t oshape, sv4_t ostrides, sv4_t new_shape, nd_res_t ret)
{
  if (ret.ok)
    return C20_INV_OF(ret.a) && c20_same4(ret.a.shape_, new_shape)
        && IMPLIES(g < SV_LEN(new_shape), SV_AT(ret.a.strides_, g) == HP(g, SV_LEN(new_shape)))
        && SV_LEN(ret.a.data_) == PP[SV_LEN(new_shape)];
  return C20_SAME_OF(ret.a, data, shape, strides, oshape, ostrides);
}
/* region of the recorded defect: the request does not fit the buffer (refused) and changes the dimension */
#define C20_REFUSED_DIM_CHANGE(shape, new_shape) (c20_numel(new_shape) > C20_BUF && SV_LEN(new_shape) != SV_LEN(shape))

/* ---------------------------------------------------------------- copy construction / assignment: same state */
static inline int pre_verif_nd_copy(fb6_t data, sv4_t shape, sv4_t strides, sv4_t oshape, sv4_t ostrides)
{ return c20_rep(data, shape, strides, oshape, ostrides); }
static inline int post_verif_nd_copy(fb6_t data, sv4_t shape, sv4_t strides, sv4_t oshape, sv4_t ostrides, nd_t ret)
{ return C20_SAME_OF(ret, data, shape, strides, oshape, ostrides); }
static inline int pre_verif_nd_assign(fb6_t data, sv4_t shape, sv4_t strides, sv4_t oshape, sv4_t ostrides,
                                      fb6_t data2, sv4_t shape2, sv4_t strides2, sv4_t oshape2, sv4_t ostrides2)
{ return c20_rep(data, shape, strides, oshape, ostrides) && c20_rep(data2, shape2, strides2, oshape2, ostrides2); }
static inline int post_verif_nd_assign(fb6_t data, sv4_t shape, sv4_t strides, sv4_t oshape, sv4_t ostrides,
                                       fb6_t data2, sv4_t shape2, sv4_t strides2, sv4_t oshape2, sv4_t ostrides2, nd_t ret)
{ return C20_SAME_OF(ret, data2, shape2, strides2, oshape2, ostrides2); }
