/* Access layer shared by contracts (CBMC, generated C structs) and native replay (real C++ types).
 * Spec predicates are written once against these macros. */
#ifndef VERIF_ABI_H
#define VERIF_ABI_H
#define CAP 8UL
#ifdef VERIF_NATIVE
  #define SV_LEN(v)   ((unsigned long)(v).size())
  #define SV_AT(v, i) ((v)[(int)(i)])
  #define OPT_HAS(o)  ((o).has_value())
  #define OPT_VAL(o)  (*(o))
  #define MUL_ul(a, b) ((unsigned long)(a) * (unsigned long)(b))
  #define DIV_ul(a, b) ((unsigned long)(a) / (unsigned long)(b))
  #define MOD_ul(a, b) ((unsigned long)(a) % (unsigned long)(b))
#else
  #define SV_LEN(v)   ((v).size_)
  #define SV_AT(v, i) ((v).buffer.buffer[i])
  #define OPT_HAS(o)  ((o).has)
  #define OPT_VAL(o)  ((o).val)
#endif
/* functional definition of a ghost cell: an equation for the verifier, an assignment natively */
#ifdef VERIF_NATIVE
  #define GHOST_DEF(cell, val) (((cell) = (val)), 1)
#else
  #define GHOST_DEF(cell, val) ((cell) == (val))
#endif
#define GHOST(t, n) t n;
#define GHOST_ARR(t, n, k) t n[k];
#define IMPLIES(a, b) (!(a) || (b))
#endif
/* 1-d hybrid_ndarray<T,N,1> used by the library as a bounded index array */
#ifndef HN_LEN
#ifdef VERIF_NATIVE
  #define HN_LEN(v)   ((unsigned long)nmtools::len(v))
  #define HN_AT(v, i) (nmtools::at((v), (unsigned long)(i)))
#else
  #define HN_LEN(v)   ((v).shape_._M_elems[0])
  #define HN_AT(v, i) ((v).buffer_._M_elems[i])
#endif
#endif
/* std::array<T,N> (nmtools_array) element access; float absolute value for spec predicates (C18) */
#ifndef ARR_AT
#ifdef VERIF_NATIVE
  #define ARR_AT(a, i) ((a)[(i)])
  #define SPEC_FABSF(x) (__builtin_fabsf(x))
#else
  #define ARR_AT(a, i) ((a)._M_elems[i])
  #define SPEC_FABSF(x) (__CPROVER_fabsf(x))
#endif
#endif
/* std::tuple<...> (nmtools_tuple) element k (literal 0,1,2,..): C model {e0,e1,..} */
#ifndef TUP_GET
#ifdef VERIF_NATIVE
  #define TUP_GET(t, k) (std::get<k>(t))
#else
  #define TUP_GET(t, k) ((t).e##k)
#endif
#endif
/* std::tuple model */
#ifndef TUP_GET
#ifdef VERIF_NATIVE
  #define TUP_GET(t, i) (std::get<i>(t))
#else
  #define TUP_GET(t, i) ((t).e##i)
#endif
#endif
/* macro-expanded universal quantifier over the CAP=8 positions (P is a one-argument macro) */
#ifndef ALL8
#define ALL8(P) (P(0UL) && P(1UL) && P(2UL) && P(3UL) && P(4UL) && P(5UL) && P(6UL) && P(7UL))
#define ANY8(P) (P(0UL) || P(1UL) || P(2UL) || P(3UL) || P(4UL) || P(5UL) || P(6UL) || P(7UL))
#endif
