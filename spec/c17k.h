/* C17 spec, concrete-geometry bounded units (inst/c17k.cpp): direct nested-loop definitions for the concrete geometry; float + and * are
 * uninterpreted (unit mode 'fuf'), sums are left folds in row-major order of the window. */
#include "spec/abi.h"
#include "spec/mathuf.h"
#define A(a, b) FOP_add_f(a, b)
#define M(a, b) FOP_mul_f(a, b)
#ifdef VERIF_NATIVE
static inline int c17k_same(float a, float b) { if (a == b || (a != a && b != b)) return 1; float d = a - b; if (d < 0) d = -d; float m = a < 0 ? -a : a; float n = b < 0 ? -b : b; if (n > m) m = n; if (m < 1.0f) m = 1.0f; return d <= 1e-4f * m; }
#else
static inline int c17k_same(float a, float b) { return a == b || (a != a && b != b); }
#endif
static inline int c17k_nonan9(fb9_t x) { int ok = SV_LEN(x) == 9UL; for (unsigned long t = 0; t < 9; t++) ok = ok && SV_AT(x, t) == SV_AT(x, t); return ok; }
/* max_pool2d kernel 2, stride 2, ceil mode on 3x3: windows {0,1,3,4}, {2,5}, {6,7}, {8} (clipped at the border); NaN-free input */
static inline float c17k_mx(float a, float b) { return a > b ? a : b; }
static inline int pre_verif_max_pool_3x3_ceil(fb9_t in) { return c17k_nonan9(in); }
static inline int post_verif_max_pool_3x3_ceil(fb9_t in, fb4_t ret)
{
  return SV_LEN(ret) == 4UL
      && SV_AT(ret, 0) == c17k_mx(c17k_mx(c17k_mx(SV_AT(in, 0), SV_AT(in, 1)), SV_AT(in, 3)), SV_AT(in, 4))
      && SV_AT(ret, 1) == c17k_mx(SV_AT(in, 2), SV_AT(in, 5))
      && SV_AT(ret, 2) == c17k_mx(SV_AT(in, 6), SV_AT(in, 7))
      && SV_AT(ret, 3) == SV_AT(in, 8);
}
#undef A
#undef M
