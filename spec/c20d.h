/* C20 spec predicates, legacy dynamic_ndarray<float> (state = data, shape_, strides_, numel_): after every resize overload
 *   shape_ == the requested shape, strides_ == its row-major strides (every position), numel_ == data.size() == product of the
 *   extents, and the recomputing accessors strides() / numel() / dim() agree with the cached members.
 * std::vector is a bounded model of capacity 8 in the extracted C, hence the requests are limited to <= 8 dimensions and <= 8 elements. */
#include "spec/abi.h"
GHOST(unsigned long, g)
GHOST_ARR(unsigned long, PP, 10)
GHOST_ARR(unsigned long, HPv, 100)
#define HP(k, j) HPv[(k) * 10UL + (j)]
#define C20D_CAP 8UL

static inline int c20d_traces(sv_t s)
{
  int ok = GHOST_DEF(PP[0], 1UL);
  for (unsigned long t = 0; t < CAP; t++)
    ok = ok && GHOST_DEF(PP[t + 1], t < SV_LEN(s) ? MUL_ul(PP[t], SV_AT(s, t)) : PP[t]);
  for (unsigned long k = 0; k < CAP; k++) {
    ok = ok && GHOST_DEF(HP(k, k + 1), 1UL);
    for (unsigned long j = 0; j < CAP; j++)
      if (j > k) ok = ok && GHOST_DEF(HP(k, j + 1), j < SV_LEN(s) ? MUL_ul(HP(k, j), SV_AT(s, j)) : HP(k, j));
  }
  return ok;
}
static inline int c20d_same(sv_t x, sv_t y)
{ return SV_LEN(x) == SV_LEN(y) && IMPLIES(g < SV_LEN(y), SV_AT(x, g) == SV_AT(y, g)); }
static inline int c20d_pre(sv_t shape0, sv_t strides0, unsigned long dsize0, sv_t new_shape)
{
  return SV_LEN(shape0) <= CAP && SV_LEN(strides0) <= CAP && dsize0 <= C20D_CAP && SV_LEN(new_shape) <= CAP
      && c20d_traces(new_shape) && PP[SV_LEN(new_shape)] <= C20D_CAP;
}
static inline int c20d_post(sv_t new_shape, dy_obs_t r)
{
  unsigned long n = SV_LEN(new_shape);
  return c20d_same(r.shape, new_shape) && r.dim == n
      && SV_LEN(r.strides) == n && IMPLIES(g < n, SV_AT(r.strides, g) == HP(g, n))
      && SV_LEN(r.strides_fn) == n && IMPLIES(g < n, SV_AT(r.strides_fn, g) == HP(g, n))
      && r.numel == PP[n] && r.numel_fn == PP[n] && r.dsize == PP[n];
}
static inline int pre_verif_dy_resize_sv(sv_t shape0, sv_t strides0, unsigned long numel0, unsigned long dsize0, sv_t new_shape)
{ return c20d_pre(shape0, strides0, dsize0, new_shape); }
static inline int post_verif_dy_resize_sv(sv_t shape0, sv_t strides0, unsigned long numel0, unsigned long dsize0, sv_t new_shape, dy_obs_t ret)
{ return c20d_post(new_shape, ret); }
static inline int pre_verif_dy_resize_lv(sv_t shape0, sv_t strides0, unsigned long numel0, unsigned long dsize0, sv_t new_shape)
{ return c20d_pre(shape0, strides0, dsize0, new_shape); }
static inline int post_verif_dy_resize_lv(sv_t shape0, sv_t strides0, unsigned long numel0, unsigned long dsize0, sv_t new_shape, dy_obs_t ret)
{ return c20d_post(new_shape, ret); }
static inline int pre_verif_dy_resize_2(sv_t shape0, sv_t strides0, unsigned long numel0, unsigned long dsize0, sv_t new_shape)
{ return SV_LEN(new_shape) == 2UL && c20d_pre(shape0, strides0, dsize0, new_shape); }
static inline int post_verif_dy_resize_2(sv_t shape0, sv_t strides0, unsigned long numel0, unsigned long dsize0, sv_t new_shape, dy_obs_t ret)
{ return c20d_post(new_shape, ret); }
