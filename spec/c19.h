/* C19 spec predicates: the STL-free containers against their std:: counterparts.
 *
 * Method: representation invariant Inv + abstract view (the element sequence [0,size) / the active alternative) and, per public
 * operation, a contract  requires Inv(old)  ensures Inv(new) && view(new) == std_op(view(old), args)  over the WHOLE view
 * (ghost index g = "for all positions").  Histories follow by induction over the operations.
 * In the predicates the by-value parameters denote the PRE-state (dfcc evaluates ensures over the caller's copies; natively the
 * arguments are passed by value), `ret` is the object after the operation.
 */
#include "spec/abi.h"

GHOST(unsigned long, g)

#define ARRN 4UL
#ifdef VERIF_NATIVE
  #include <cstring>
  /* raw views of the real objects (layout: union at offset 0, int tag at offset 8; checked below) */
  static inline int verif_peek_i(const void *p, unsigned long off) { int t; std::memcpy(&t, (const char *)p + off, sizeof t); return t; }
  static inline unsigned long verif_peek_ul(const void *p, unsigned long off) { unsigned long t; std::memcpy(&t, (const char *)p + off, sizeof t); return t; }
  static_assert(sizeof(mb_t) == 16 && sizeof(ei_t) == 16, "layout of utl::maybe / utl::either assumed by the replay glue");
  #define UA_AT(a, i)  ((a)[(int)(i)])
  #define MB_TAG(m)    verif_peek_i(&(m), 8)
  #define MB_VAL(m)    verif_peek_ul(&(m), 0)
  #define EI_TAG(e)    verif_peek_i(&(e), 8)
  #define EI_LEFT(e)   verif_peek_ul(&(e), 0)
  #define EI_RIGHT(e)  verif_peek_i(&(e), 0)
  /* replay glue: the generated C structs carry a 1-byte member for the empty CRTP base, the real classes use the empty-base
   * optimisation; convert field-wise instead of bytewise */
  template <class T, class R> static T from_raw(const R &r);
  template <> ei_t from_raw<ei_t, cgen::either_ul_i_v>(const cgen::either_ul_i_v &r)
  { ei_t e; std::memcpy((char *)&e, &r._f0, 8); std::memcpy((char *)&e + 8, &r.tag, 4); return e; }
  template <> mb_t from_raw<mb_t, cgen::maybe_ul_v>(const cgen::maybe_ul_v &r)
  { mb_t m; std::memcpy((char *)&m, &r._base0._f0, 8); std::memcpy((char *)&m + 8, &r._base0.tag, 4); return m; }
#else
  #define UA_AT(a, i)  ((a).buffer[i])
  #define MB_TAG(m)    ((int)(m)._base0.tag)
  #define MB_VAL(m)    ((m)._base0._f0.left)
  #define EI_TAG(e)    ((int)(e).tag)
  #define EI_LEFT(e)   ((e)._f0.left)
  #define EI_RIGHT(e)  ((e)._f0.right)
#endif

/* ghost position inside [0,n) (and inside the storage, so that the predicate itself never reads out of bounds) */
#define G_IN(n) (g < (n) && g < CAP)

/* =============================================================== utl::static_vector<size_t,8>  ~  std::vector<size_t> up to capacity */
static inline int sv_inv(sv_t v) { return SV_LEN(v) <= CAP; }
/* same view: equal length and equal elements on [0,len) */
#define SV_SAME(a, b) (SV_LEN(a) == SV_LEN(b) && IMPLIES(G_IN(SV_LEN(b)), SV_AT(a, g) == SV_AT(b, g)))
static inline unsigned long sv_min(unsigned long a, unsigned long b) { return a < b ? a : b; }
/* some element of v in [lo,hi) is nonzero (stale data left behind by an earlier shrink) */
static inline int sv_dirty(sv_t v, unsigned long lo, unsigned long hi)
{
  int d = 0;
  for (unsigned long k = 0; k < CAP; k++) if (k >= lo && k < hi && SV_AT(v, k) != 0UL) d = 1;
  return d;
}

static inline int post_verif_sv_default(sv_t ret) { return SV_LEN(ret) == 0UL; }

/* std::vector<T>(n): n value-initialised elements; beyond the capacity the request is REFUSED like resize(n): the vector stays empty */
static inline int post_verif_sv_sized(unsigned long n, sv_t ret)
{ return sv_inv(ret) && IMPLIES(n <= CAP, SV_LEN(ret) == n && IMPLIES(G_IN(n), SV_AT(ret, g) == 0UL)) && IMPLIES(n > CAP, SV_LEN(ret) == 0UL); }

static inline int post_verif_sv_variadic(unsigned long a, unsigned long b, unsigned long c3, sv_t ret)
{ return SV_LEN(ret) == 3UL && SV_AT(ret, 0) == a && SV_AT(ret, 1) == b && SV_AT(ret, 2) == c3; }

static inline int pre_verif_sv_copy(sv_t v) { return sv_inv(v); }
static inline int post_verif_sv_copy(sv_t v, sv_t ret) { return SV_SAME(ret, v); }

static inline int pre_verif_sv_assign(sv_t dst, sv_t src) { return sv_inv(dst) && sv_inv(src); }
static inline int post_verif_sv_assign(sv_t dst, sv_t src, sv_t ret) { return SV_SAME(ret, src); }

static inline int pre_verif_sv_self_assign(sv_t v) { return sv_inv(v); }
static inline int post_verif_sv_self_assign(sv_t v, sv_t ret) { return SV_SAME(ret, v); }

/* resize(n): n <= capacity: size == n, common prefix kept; n > capacity: REFUSED, contents unchanged */
static inline int pre_verif_sv_resize(sv_t v, unsigned long n) { return sv_inv(v); }
static inline int post_verif_sv_resize(sv_t v, unsigned long n, sv_t ret)
{
  return (n <= CAP) ? (SV_LEN(ret) == n && IMPLIES(G_IN(sv_min(SV_LEN(v), n)), SV_AT(ret, g) == SV_AT(v, g)))
                    : SV_SAME(ret, v);
}
/* resize(n) growth: std::vector appends value-initialised elements */
static inline int pre_verif_sv_resize_fill(sv_t v, unsigned long n) { return sv_inv(v); }
static inline int post_verif_sv_resize_fill(sv_t v, unsigned long n, sv_t ret)
{ return IMPLIES(n <= CAP && g >= SV_LEN(v) && G_IN(n), SV_AT(ret, g) == 0UL); }

/* push_back(x): below capacity appends x; at capacity REFUSED, contents unchanged */
static inline int pre_verif_sv_push_back(sv_t v, unsigned long x) { return sv_inv(v); }
static inline int post_verif_sv_push_back(sv_t v, unsigned long x, sv_t ret)
{
  return (SV_LEN(v) < CAP) ? (SV_LEN(ret) == SV_LEN(v) + 1UL && SV_AT(ret, SV_LEN(v)) == x && IMPLIES(G_IN(SV_LEN(v)), SV_AT(ret, g) == SV_AT(v, g)))
                           : SV_SAME(ret, v);
}

/* element write v[i] = x / v.at(i) = x : position i becomes x, every other position and the size are unchanged */
static inline int pre_verif_sv_write(sv_t v, int i, unsigned long x) { return sv_inv(v) && i >= 0 && (unsigned long)i < SV_LEN(v); }
static inline int post_verif_sv_write(sv_t v, int i, unsigned long x, sv_t ret)
{ return SV_LEN(ret) == SV_LEN(v) && IMPLIES(G_IN(SV_LEN(v)), SV_AT(ret, g) == (g == (unsigned long)i ? x : SV_AT(v, g))); }
static inline int pre_verif_sv_write_at(sv_t v, int i, unsigned long x) { return sv_inv(v) && i >= 0 && (unsigned long)i < SV_LEN(v); }
static inline int post_verif_sv_write_at(sv_t v, int i, unsigned long x, sv_t ret)
{ return SV_LEN(ret) == SV_LEN(v) && IMPLIES(G_IN(SV_LEN(v)), SV_AT(ret, g) == (g == (unsigned long)i ? x : SV_AT(v, g))); }

/* reads: at / operator[] const / data()+i for i < size */
static inline int pre_verif_sv_at(sv_t v, int i) { return sv_inv(v) && i >= 0 && (unsigned long)i < SV_LEN(v); }
static inline int post_verif_sv_at(sv_t v, int i, unsigned long ret) { return ret == SV_AT(v, i); }
static inline int pre_verif_sv_index(sv_t v, int i) { return sv_inv(v) && i >= 0 && (unsigned long)i < SV_LEN(v); }
static inline int post_verif_sv_index(sv_t v, int i, unsigned long ret) { return ret == SV_AT(v, i); }
static inline int pre_verif_sv_data(sv_t v, int i) { return sv_inv(v) && i >= 0 && (unsigned long)i < SV_LEN(v); }
static inline int post_verif_sv_data(sv_t v, int i, unsigned long ret) { return ret == SV_AT(v, i); }
static inline int pre_verif_sv_size(sv_t v) { return sv_inv(v); }
static inline int post_verif_sv_size(sv_t v, unsigned long ret) { return ret == SV_LEN(v); }

/* =============================================================== utl::array<size_t,4>  ~  std::array<size_t,4> */
#define UA_SAME(a, b) IMPLIES(g < ARRN, UA_AT(a, g) == UA_AT(b, g))
static inline int post_verif_arr_copy(arr_t a, arr_t ret) { return UA_SAME(ret, a); }
static inline int post_verif_arr_assign(arr_t dst, arr_t src, arr_t ret) { return UA_SAME(ret, src); }
static inline int pre_verif_arr_write(arr_t a, int i, unsigned long x) { return i >= 0 && (unsigned long)i < ARRN; }
static inline int post_verif_arr_write(arr_t a, int i, unsigned long x, arr_t ret)
{ return IMPLIES(g < ARRN, UA_AT(ret, g) == (g == (unsigned long)i ? x : UA_AT(a, g))); }
static inline int pre_verif_arr_write_at(arr_t a, int i, unsigned long x) { return i >= 0 && (unsigned long)i < ARRN; }
static inline int post_verif_arr_write_at(arr_t a, int i, unsigned long x, arr_t ret)
{ return IMPLIES(g < ARRN, UA_AT(ret, g) == (g == (unsigned long)i ? x : UA_AT(a, g))); }
static inline int pre_verif_arr_at(arr_t a, int i) { return i >= 0 && (unsigned long)i < ARRN; }
static inline int post_verif_arr_at(arr_t a, int i, unsigned long ret) { return ret == UA_AT(a, i); }
static inline int pre_verif_arr_index(arr_t a, int i) { return i >= 0 && (unsigned long)i < ARRN; }
static inline int post_verif_arr_index(arr_t a, int i, unsigned long ret) { return ret == UA_AT(a, i); }
static inline int pre_verif_arr_data(arr_t a, int i) { return i >= 0 && (unsigned long)i < ARRN; }
static inline int post_verif_arr_data(arr_t a, int i, unsigned long ret) { return ret == UA_AT(a, i); }
static inline int post_verif_arr_size(arr_t a, unsigned long ret) { return ret == ARRN; }
static inline int post_verif_arr_get2(arr_t a, unsigned long ret) { return ret == UA_AT(a, 2); }

/* =============================================================== utl::maybe<size_t>  ~  std::optional<size_t>
 * Inv: tag in {LEFT(0) = has a value, RIGHT(1) = nothing}; view = (has_value, value if has_value) */
static inline int mb_inv(mb_t m) { return MB_TAG(m) == 0 || MB_TAG(m) == 1; }
#define MB_SAME(a, b) (MB_TAG(a) == MB_TAG(b) && IMPLIES(MB_TAG(b) == 0, MB_VAL(a) == MB_VAL(b)))
static inline int post_verif_mb_default(mb_t ret) { return MB_TAG(ret) == 1; }
static inline int post_verif_mb_nothing(mb_t ret) { return MB_TAG(ret) == 1; }
static inline int post_verif_mb_value(unsigned long x, mb_t ret) { return MB_TAG(ret) == 0 && MB_VAL(ret) == x; }
static inline int pre_verif_mb_copy(mb_t m) { return mb_inv(m); }
static inline int post_verif_mb_copy(mb_t m, mb_t ret) { return MB_SAME(ret, m); }
static inline int pre_verif_mb_assign(mb_t dst, mb_t src) { return mb_inv(dst) && mb_inv(src); }
static inline int post_verif_mb_assign(mb_t dst, mb_t src, mb_t ret) { return MB_SAME(ret, src); }
static inline int pre_verif_mb_self_assign(mb_t m) { return mb_inv(m); }
static inline int post_verif_mb_self_assign(mb_t m, mb_t ret) { return MB_SAME(ret, m); }
static inline int pre_verif_mb_assign_value(mb_t m, unsigned long x) { return mb_inv(m); }
static inline int post_verif_mb_assign_value(mb_t m, unsigned long x, mb_t ret) { return MB_TAG(ret) == 0 && MB_VAL(ret) == x; }
static inline int pre_verif_mb_assign_nothing(mb_t m) { return mb_inv(m); }
static inline int post_verif_mb_assign_nothing(mb_t m, mb_t ret) { return MB_TAG(ret) == 1; }
static inline int pre_verif_mb_write(mb_t m, unsigned long x) { return MB_TAG(m) == 0; }
static inline int post_verif_mb_write(mb_t m, unsigned long x, mb_t ret) { return MB_TAG(ret) == 0 && MB_VAL(ret) == x; }
static inline int pre_verif_mb_has_value(mb_t m) { return mb_inv(m); }
static inline int post_verif_mb_has_value(mb_t m, int ret) { return (ret != 0) == (MB_TAG(m) == 0); }
static inline int pre_verif_mb_bool(mb_t m) { return mb_inv(m); }
static inline int post_verif_mb_bool(mb_t m, int ret) { return (ret != 0) == (MB_TAG(m) == 0); }
static inline int pre_verif_mb_deref(mb_t m) { return MB_TAG(m) == 0; }
static inline int post_verif_mb_deref(mb_t m, unsigned long ret) { return ret == MB_VAL(m); }
static inline int pre_verif_mb_value_of(mb_t m) { return MB_TAG(m) == 0; }
static inline int post_verif_mb_value_of(mb_t m, unsigned long ret) { return ret == MB_VAL(m); }

/* =============================================================== utl::maybe<trk_t>  ~  std::optional<trk_t>   (NON-TRIVIAL element type)
 * trk_t (inst/c19.cpp) has user-provided constructors / destructor / copy assignment and counts live objects (trk_live) and
 * operations on objects that are not alive (trk_bad: assignment to / copy from / destruction of raw or destroyed storage).
 * The scenario wrappers build the maybe objects from scalars, run ONE operation and return the observation
 *   (has, val)   = has_value() / (*m).val of the result          (has2, val2) = the same for the second object (the source)
 *   live, bad    = the counters at that moment (inside the scope of the maybe objects; verif_mbt_scope: after it)
 * Expected values are those of the same program over std::optional<trk_t>:  bad == 0 always;  live == number of trk_t locals of
 * the wrapper + number of maybe objects that hold a value at that moment.  `junk` is the content given to the raw payload storage
 * of an empty maybe (arbitrary: correct code never looks at it). */
#define MBT_IS(p, h, v, l) ((((p).has != 0) == ((h) != 0)) && IMPLIES((h) != 0, (p).val == (v)) && (p).live == (long)(l) && (p).bad == 0L)
#define MBT_IS2(p, h, v)   ((((p).has2 != 0) == ((h) != 0)) && IMPLIES((h) != 0, (p).val2 == (v)))
#define B01(b)             ((b) != 0 ? 1 : 0)
static inline int pre_verif_mbt_default(void) { return 1; }
static inline int post_verif_mbt_default(mbtp_t ret) { return MBT_IS(ret, 0, 0UL, 0); }
static inline int pre_verif_mbt_nothing(void) { return 1; }
static inline int post_verif_mbt_nothing(mbtp_t ret) { return MBT_IS(ret, 0, 0UL, 0); }
static inline int pre_verif_mbt_value(unsigned long x) { return 1; }
static inline int post_verif_mbt_value(unsigned long x, mbtp_t ret) { return MBT_IS(ret, 1, x, 2); }
/* copy construction: same contents, one more live payload iff the source holds one; the source keeps its (later modified) value */
static inline int pre_verif_mbt_copy(int has, unsigned long x, unsigned long junk) { return 1; }
static inline int post_verif_mbt_copy(int has, unsigned long x, unsigned long junk, mbtp_t ret)
{ return MBT_IS(ret, has, x, 1 + 2 * B01(has)) && MBT_IS2(ret, has, x + 1UL); }
/* dst = src : dst holds a value iff src does (a copy of it); locals ta, tb + one payload per valued maybe */
static inline int pre_verif_mbt_assign(int dst_has, unsigned long a, int src_has, unsigned long b, unsigned long junk) { return 1; }
static inline int post_verif_mbt_assign(int dst_has, unsigned long a, int src_has, unsigned long b, unsigned long junk, mbtp_t ret)
{ return MBT_IS(ret, src_has, b, 2 + 2 * B01(src_has)) && MBT_IS2(ret, src_has, b); }
static inline int pre_verif_mbt_self_assign(int has, unsigned long x, unsigned long junk) { return 1; }
static inline int post_verif_mbt_self_assign(int has, unsigned long x, unsigned long junk, mbtp_t ret)
{ return MBT_IS(ret, has, x, 1 + B01(has)) && MBT_IS2(ret, has, x); }
/* m = t : m holds a copy of t whatever it held before (locals ta, t + the payload) */
static inline int pre_verif_mbt_assign_value(int has, unsigned long a, unsigned long x, unsigned long junk) { return 1; }
static inline int post_verif_mbt_assign_value(int has, unsigned long a, unsigned long x, unsigned long junk, mbtp_t ret)
{ return MBT_IS(ret, 1, x, 3); }
/* m = nothing : m is empty and a payload it held has been destroyed (only the local ta is alive) */
static inline int pre_verif_mbt_assign_nothing(int has, unsigned long a, unsigned long junk) { return 1; }
static inline int post_verif_mbt_assign_nothing(int has, unsigned long a, unsigned long junk, mbtp_t ret)
{ return MBT_IS(ret, 0, 0UL, 1); }
static inline int pre_verif_mbt_write(unsigned long a, unsigned long x) { return 1; }
static inline int post_verif_mbt_write(unsigned long a, unsigned long x, mbtp_t ret) { return MBT_IS(ret, 1, x, 2) && MBT_IS2(ret, 1, x); }
/* after the scope of the maybe objects only the wrapper's local t is alive (std::optional destroys its payload) */
static inline int pre_verif_mbt_scope(int has, unsigned long x, unsigned long junk) { return 1; }
static inline int post_verif_mbt_scope(int has, unsigned long x, unsigned long junk, mbtp_t ret) { return ret.live == 1L && ret.bad == 0L; }

/* =============================================================== utl::either<size_t,int>  ~  std::variant<size_t,int>
 * Inv: tag in {LEFT(0), RIGHT(1)}; view = (index, value of the active alternative) */
static inline int ei_inv(ei_t e) { return EI_TAG(e) == 0 || EI_TAG(e) == 1; }
#define EI_SAME(a, b) (EI_TAG(a) == EI_TAG(b) && IMPLIES(EI_TAG(b) == 0, EI_LEFT(a) == EI_LEFT(b)) && IMPLIES(EI_TAG(b) == 1, EI_RIGHT(a) == EI_RIGHT(b)))
static inline int post_verif_ei_default(ei_t ret) { return EI_TAG(ret) == 0 && EI_LEFT(ret) == 0UL; }
static inline int post_verif_ei_left(unsigned long x, ei_t ret) { return EI_TAG(ret) == 0 && EI_LEFT(ret) == x; }
static inline int post_verif_ei_right(int y, ei_t ret) { return EI_TAG(ret) == 1 && EI_RIGHT(ret) == y; }
static inline int pre_verif_ei_copy(ei_t e) { return ei_inv(e); }
static inline int post_verif_ei_copy(ei_t e, ei_t ret) { return EI_SAME(ret, e); }
static inline int pre_verif_ei_assign(ei_t dst, ei_t src) { return ei_inv(dst) && ei_inv(src); }
static inline int post_verif_ei_assign(ei_t dst, ei_t src, ei_t ret) { return EI_SAME(ret, src); }
static inline int pre_verif_ei_self_assign(ei_t e) { return ei_inv(e); }
static inline int post_verif_ei_self_assign(ei_t e, ei_t ret) { return EI_SAME(ret, e); }
static inline int pre_verif_ei_assign_left(ei_t e, unsigned long x) { return ei_inv(e); }
static inline int post_verif_ei_assign_left(ei_t e, unsigned long x, ei_t ret) { return EI_TAG(ret) == 0 && EI_LEFT(ret) == x; }
static inline int pre_verif_ei_assign_right(ei_t e, int y) { return ei_inv(e); }
static inline int post_verif_ei_assign_right(ei_t e, int y, ei_t ret) { return EI_TAG(ret) == 1 && EI_RIGHT(ret) == y; }
/* observers: index(), member get_if<T>(), free nmtools::get_if<T>(&e) */
#define EI_PROBE_OK(e, p) ((((p).has_left != 0) == (EI_TAG(e) == 0)) && (((p).has_right != 0) == (EI_TAG(e) == 1)) && (p).index == EI_TAG(e) \
                           && IMPLIES(EI_TAG(e) == 0, (p).left == EI_LEFT(e)) && IMPLIES(EI_TAG(e) == 1, (p).right == EI_RIGHT(e)))
static inline int pre_verif_ei_probe(ei_t e) { return ei_inv(e); }
static inline int post_verif_ei_probe(ei_t e, eip_t ret) { return EI_PROBE_OK(e, ret); }
static inline int pre_verif_ei_probe_free(ei_t e) { return ei_inv(e); }
static inline int post_verif_ei_probe_free(ei_t e, eip_t ret) { return EI_PROBE_OK(e, ret); }

/* =============================================================== utl::tuple / utl::tuplev2  ~  std::tuple<size_t,int,size_t> */
static inline int post_verif_tp_get(unsigned long a, int b, unsigned long c3, tpp_t ret) { return ret.e0 == a && ret.e1 == b && ret.e2 == c3; }
static inline int post_verif_tp_copy_get(unsigned long a, int b, unsigned long c3, tpp_t ret) { return ret.e0 == a && ret.e1 == b && ret.e2 == c3; }
static inline int post_verif_tp_default(tpp_t ret) { return ret.e0 == 0UL && ret.e1 == 0 && ret.e2 == 0UL; }
static inline int post_verif_tp_write(unsigned long a, int b, unsigned long c3, int y, tpp_t ret) { return ret.e0 == a && ret.e1 == y && ret.e2 == c3; }
static inline int post_verif_tp2_get(unsigned long a, int b, unsigned long c3, tpp_t ret) { return ret.e0 == a && ret.e1 == b && ret.e2 == c3; }
static inline int post_verif_tp2_copy_write(unsigned long a, int b, unsigned long c3, int y, tpp_t ret) { return ret.e0 == a && ret.e1 == y && ret.e2 == c3; }

/* =============================================================== utl::vector<size_t>  ~  std::vector<size_t>   (heap)
 * The objects live inside the scenario wrappers (constructed, operated on, read back, destroyed); the wrapper parameters are the
 * sizes / the probed position i / the written values.  i is arbitrary, so a postcondition about position i is one about every
 * position.  The ghost g is bound to i (loop invariants inside the vector code talk about g), vg to the value stored there.
 * Sizes are bounded by VEC_MAX = 2^16 elements (sizeof(T)*n must not wrap; std::vector::max_size() plays the same role); the bound is a
 * precondition only -- no loop is unwound.  The proofs also go through for 2^20 and 2^32 (tried), but with such bounds the SAT search for a
 * counterexample on a *broken* resize (mutation tests vec-resize-*) times out; 2^16 keeps falsification and native replays fast. */
#ifndef VEC_MAX
#define VEC_MAX 65536UL
#endif
GHOST(unsigned long, vg)
static inline int pre_verif_vec_sized(unsigned long n, unsigned long i, unsigned long x) { return n <= VEC_MAX && GHOST_DEF(g, i) && GHOST_DEF(vg, x); }
static inline int post_verif_vec_sized(unsigned long n, unsigned long i, unsigned long x, vecp_t ret) { return ret.size == n && ret.at_i == x; }
static inline int pre_verif_vec_sized_init(unsigned long n, unsigned long i) { return n >= 1UL && n <= VEC_MAX && GHOST_DEF(g, i); }
static inline int post_verif_vec_sized_init(unsigned long n, unsigned long i, unsigned long ret) { return ret == 0UL; }
static inline int pre_verif_vec_push5(unsigned long x, unsigned long i) { return GHOST_DEF(g, i) && GHOST_DEF(vg, x + i); }
static inline int post_verif_vec_push5(unsigned long x, unsigned long i, vecp_t ret) { return ret.size == 5UL && IMPLIES(i < 5UL, ret.at_i == x + i); }
static inline int pre_verif_vec_resize(unsigned long n, unsigned long m, unsigned long i, unsigned long x) { return n >= 1UL && n <= VEC_MAX && m <= VEC_MAX && GHOST_DEF(g, i) && GHOST_DEF(vg, x); }
static inline int post_verif_vec_resize(unsigned long n, unsigned long m, unsigned long i, unsigned long x, vecp_t ret) { return ret.size == m && ret.at_i == x; }
static inline int pre_verif_vec_resize_fill(unsigned long n, unsigned long m, unsigned long i) { return n >= 1UL && n <= VEC_MAX && m <= VEC_MAX && GHOST_DEF(g, i); }
static inline int post_verif_vec_resize_fill(unsigned long n, unsigned long m, unsigned long i, unsigned long ret) { return ret == 0UL; }
static inline int pre_verif_vec_shrink_grow(unsigned long x) { return GHOST_DEF(g, 1UL) && GHOST_DEF(vg, x); }
static inline int post_verif_vec_shrink_grow(unsigned long x, unsigned long ret) { return ret == 0UL; }
static inline int pre_verif_vec_resize_push(unsigned long n, unsigned long m, unsigned long x, unsigned long y, unsigned long i) { return n >= 1UL && n <= VEC_MAX && m < VEC_MAX && GHOST_DEF(g, i) && GHOST_DEF(vg, x); }
static inline int post_verif_vec_resize_push(unsigned long n, unsigned long m, unsigned long x, unsigned long y, unsigned long i, vecp_t ret) { return ret.size == m + 1UL && ret.at_i == x && ret.size2 == y; }
static inline int pre_verif_vec_copy(unsigned long n, unsigned long i, unsigned long x, unsigned long y) { return n >= 1UL && n <= VEC_MAX && GHOST_DEF(g, i) && GHOST_DEF(vg, x); }
static inline int post_verif_vec_copy(unsigned long n, unsigned long i, unsigned long x, unsigned long y, vecp_t ret) { return ret.size == n && ret.at_i == x && ret.size2 == n && ret.at2_i == y; }
static inline int pre_verif_vec_assign(unsigned long n, unsigned long m, unsigned long i, unsigned long x, unsigned long y) { return n >= 1UL && n <= VEC_MAX && m >= 1UL && m <= VEC_MAX && GHOST_DEF(g, i) && GHOST_DEF(vg, x); }
static inline int post_verif_vec_assign(unsigned long n, unsigned long m, unsigned long i, unsigned long x, unsigned long y, vecp_t ret) { return ret.size == n && ret.at_i == x && ret.size2 == n && ret.at2_i == y; }
static inline int pre_verif_vec_self_assign(unsigned long n, unsigned long i, unsigned long x) { return n >= 1UL && n <= VEC_MAX && GHOST_DEF(g, i) && GHOST_DEF(vg, x); }
static inline int post_verif_vec_self_assign(unsigned long n, unsigned long i, unsigned long x, vecp_t ret) { return ret.size == n && ret.at_i == x; }

/* --------------------------------------------------------------- utl::vector, per-operation contracts (verifier only)
 * Representation invariant  Inv(v):  1 <= buffer_size_ <= VEC_MAX,  size_ <= buffer_size_,  buffer_ is a live heap block of
 * buffer_size_ elements that nothing else points into.  In a precondition the last conjunct is `is_fresh`; in a postcondition it
 * is "the same block and capacity as before, or a fresh block of the new capacity" (and the old block was freed, stated per
 * operation).  Abstract view: the elements [0,size_) -- observed at the ghost position g, whose pre-state value is bound to vg.
 * buffer_size_ >= 1 excludes exactly the state produced by vector(size_type 0) (a zero-byte block; released by the destructor,
 * covered by the scenario units vec.sized / vec.zero_push under the leak check). */
#ifndef VERIF_NATIVE
#define VEC_FIELDS_OK(v) ((v)->buffer_size_ >= 1UL && (v)->buffer_size_ <= VEC_MAX && (v)->size_ <= (v)->buffer_size_)
#define VEC_INV_PRE(v)   (VEC_FIELDS_OK(v) && __CPROVER_is_fresh((v)->buffer_, (v)->buffer_size_ * 8UL))
#define VEC_INV_POST(v)  (VEC_FIELDS_OK(v) && (((v)->buffer_ == __CPROVER_old((v)->buffer_) && (v)->buffer_size_ == __CPROVER_old((v)->buffer_size_)) \
                                               || __CPROVER_is_fresh((v)->buffer_, (v)->buffer_size_ * 8UL)))
#define VEC_OLD_FREED(v) ((v)->buffer_ == __CPROVER_old((v)->buffer_) || __CPROVER_was_freed(__CPROVER_old((v)->buffer_)))
#define VEC_UNCHANGED(v) ((v)->buffer_ == __CPROVER_old((v)->buffer_) && (v)->buffer_size_ == __CPROVER_old((v)->buffer_size_) && (v)->size_ == __CPROVER_old((v)->size_))
#endif
static inline int post_verif_vec_zero_push(unsigned long x, vecp_t ret) { return ret.size == 1UL && ret.at_i == x; }
static inline int post_verif_vec_variadic(unsigned long a, unsigned long b, unsigned long c3, vecp_t ret) { return ret.size == 3UL && ret.at_i == a && ret.size2 == b && ret.at2_i == c3; }
static inline int pre_verif_vec_push_alias(unsigned long k, unsigned long x) { return k >= 1UL && k <= 6UL && GHOST_DEF(g, 0UL) && GHOST_DEF(vg, x); }
static inline int post_verif_vec_push_alias(unsigned long k, unsigned long x, vecp_t ret) { return ret.size == k + 1UL && ret.at_i == x && ret.size2 == x; }

/* --------------------------------------------------------------- utl::maybe<utl::vector<size_t>>  ~  std::optional<std::vector<size_t>> */
static inline int pre_verif_mbv_copy(unsigned long n, unsigned long i, unsigned long x, unsigned long y) { return n >= 1UL && n <= VEC_MAX && GHOST_DEF(g, i) && GHOST_DEF(vg, x); }
static inline int post_verif_mbv_copy(unsigned long n, unsigned long i, unsigned long x, unsigned long y, vecp_t ret) { return ret.size == n && ret.at_i == x && ret.size2 == n && ret.at2_i == y; }
static inline int pre_verif_mbv_assign(unsigned long n, unsigned long m, unsigned long i, unsigned long x, unsigned long y) { return n >= 1UL && n <= VEC_MAX && m >= 1UL && m <= VEC_MAX && GHOST_DEF(g, i) && GHOST_DEF(vg, x); }
static inline int post_verif_mbv_assign(unsigned long n, unsigned long m, unsigned long i, unsigned long x, unsigned long y, vecp_t ret) { return ret.size == n && ret.at_i == x && ret.size2 == n && ret.at2_i == y; }
static inline int pre_verif_mbv_self_assign(unsigned long n, unsigned long i, unsigned long x) { return n >= 1UL && n <= VEC_MAX && GHOST_DEF(g, i) && GHOST_DEF(vg, x); }
static inline int post_verif_mbv_self_assign(unsigned long n, unsigned long i, unsigned long x, vecp_t ret) { return ret.size == n && ret.at_i == x; }
static inline int pre_verif_mbv_scope(int has, unsigned long n) { return n >= 1UL && n <= VEC_MAX; }
static inline int post_verif_mbv_scope(int has, unsigned long n, unsigned long ret) { return ret == n; }

/* --------------------------------------------------------------- utl::either<trk_t,int>  ~  std::variant<trk_t,int>   (non-trivial left alternative)
 * observation: index(), get_if<trk_t>()->val / *get_if<int>() of the result, and the trk_t counters at that moment (verif_e2_scope: after
 * the scope of the either).  Expected as for std::variant: bad == 0; live == trk_t locals of the wrapper + eithers holding a trk_t */
#define E2_LEFT(p, v, l)  ((p).index == 0L && (p).lval == (v) && (p).live == (long)(l) && (p).bad == 0L)
#define E2_RIGHT(p, y, l) ((p).index == 1L && (p).rval == (long)(y) && (p).live == (long)(l) && (p).bad == 0L)
static inline int pre_verif_e2_default(void) { return 1; }
static inline int post_verif_e2_default(e2p_t ret) { return E2_LEFT(ret, 0UL, 1); }
static inline int pre_verif_e2_left(unsigned long x) { return 1; }
static inline int post_verif_e2_left(unsigned long x, e2p_t ret) { return E2_LEFT(ret, x, 2); }
static inline int pre_verif_e2_right(int y) { return 1; }
static inline int post_verif_e2_right(int y, e2p_t ret) { return E2_RIGHT(ret, y, 0); }
static inline int pre_verif_e2_copy(int is_left, unsigned long x, int y) { return 1; }
static inline int post_verif_e2_copy(int is_left, unsigned long x, int y, e2p_t ret) { return is_left != 0 ? E2_LEFT(ret, x, 3) : E2_RIGHT(ret, y, 1); }
static inline int pre_verif_e2_assign(int dst_left, unsigned long a, int y1, int src_left, unsigned long b, int y2) { return 1; }
static inline int post_verif_e2_assign(int dst_left, unsigned long a, int y1, int src_left, unsigned long b, int y2, e2p_t ret)
{ return src_left != 0 ? E2_LEFT(ret, b, 4) : E2_RIGHT(ret, y2, 2); }
static inline int pre_verif_e2_self_assign(int is_left, unsigned long x, int y) { return 1; }
static inline int post_verif_e2_self_assign(int is_left, unsigned long x, int y, e2p_t ret) { return is_left != 0 ? E2_LEFT(ret, x, 2) : E2_RIGHT(ret, y, 1); }
static inline int pre_verif_e2_assign_left(int is_left, unsigned long a, int y, unsigned long x) { return 1; }
static inline int post_verif_e2_assign_left(int is_left, unsigned long a, int y, unsigned long x, e2p_t ret) { return E2_LEFT(ret, x, 3); }
static inline int pre_verif_e2_assign_right(int is_left, unsigned long a, int y, int y2) { return 1; }
static inline int post_verif_e2_assign_right(int is_left, unsigned long a, int y, int y2, e2p_t ret) { return E2_RIGHT(ret, y2, 1); }
static inline int pre_verif_e2_scope(int is_left, unsigned long x, int y) { return 1; }
static inline int post_verif_e2_scope(int is_left, unsigned long x, int y, e2p_t ret) { return ret.live == 1L && ret.bad == 0L; }
