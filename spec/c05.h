/* C05 spec predicates: Python / NumPy basic slicing written as plain C.
 *
 * py_slice_adjust is a port of CPython's slice.indices() (PySlice_Unpack defaults + PySlice_AdjustIndices):
 *   step  None -> 1 ; step != 0
 *   start None -> 0 (step>0) | n-1 (step<0) ;  start<0 -> start+n, clamped below at 0 (step>0) | -1 (step<0)
 *                                               start>=n -> n (step>0) | n-1 (step<0)
 *   stop  None -> n (step>0) | -1 "before begin" (step<0) ; integers clamped exactly like start
 *   len = step>0 ? (stop>start ? (stop-start-1)/step+1 : 0) : (stop<start ? (start-stop-1)/(-step)+1 : 0)
 * All spec arithmetic is done in 64-bit `long` on int-range inputs, so the spec itself cannot overflow.
 *
 * Stated bounds:
 *   - every extent n satisfies 1 <= n <= C05_NMAX = 2^31-1 (the library converts the extent to `int`);
 *   - LENGTH contracts (shape_slice) with an integer step: 1 <= |step| <= C05_STEP_MAX. The length is computed as
 *     ceil((float)range / step); the equivalence of that float division with integer ceil-division is decided
 *     bit-precisely by the SAT back end only for small divisors (the property quantifies over |step| <= 3).
 *     INDEX contracts (slice) hold for every int step != 0.
 *   - an integer index i on an axis of extent n satisfies -n <= i < n (Python raises IndexError otherwise);
 *     the number of non-ellipsis parts does not exceed the rank (Python: "too many indices").
 */
#include "spec/abi.h"

#define C05_NMAX 2147483647UL
#ifndef C05_STEP_MAX
#define C05_STEP_MAX 3
#endif
/* the float length kernel is exact only while the range fits a float mantissa */
#define C05_FLOAT_EXACT 16777216L

typedef struct py_slice { long start, stop, step, len; } py_slice;

/* hs/hp/ht: "has start / stop / step" (0 = the part is None) */
static inline py_slice py_slice_adjust(long n, int hs, long start, int hp, long stop, int ht, long step)
{
  py_slice r;
  if (!ht) step = 1;
  long lower = step < 0 ? -1L : 0L;
  long upper = step < 0 ? n - 1 : n;
  if (!hs) start = step < 0 ? upper : lower;
  else if (start < 0) { start += n; if (start < lower) start = lower; }
  else if (start > upper) start = upper;
  if (!hp) stop = step < 0 ? lower : upper;
  else if (stop < 0) { stop += n; if (stop < lower) stop = lower; }
  else if (stop > upper) stop = upper;
  r.start = start; r.stop = stop; r.step = step;
  if (step > 0) r.len = stop > start ? (stop - start - 1) / step + 1 : 0;
  else          r.len = stop < start ? (start - stop - 1) / (-step) + 1 : 0;
  return r;
}

/* helpers used by known-finding regions: extent of axis a, Python-normalised start / stop for an extent n, and the
 * distance walked |stop' - start'| (0 when the slice is empty) */
#define C05_NA(shape, a) ((long)SV_AT(shape, a))
#define C05_N(shape) C05_NA(shape, 0)
#define C05_PYSTART(n, hs, start, hp, stop, ht, step) (py_slice_adjust(n, hs, start, hp, stop, ht, step).start)
#define C05_PYSTOP(n, hs, start, hp, stop, ht, step)  (py_slice_adjust(n, hs, start, hp, stop, ht, step).stop)
static inline long c05_span(long n, int hs, long start, int hp, long stop, int ht, long step)
{
  py_slice p = py_slice_adjust(n, hs, start, hp, stop, ht, step);
  long d = p.step > 0 ? p.stop - p.start : p.start - p.stop;
  return d > 0 ? d : 0;
}
static inline int c05_extents_ok(sv_t shape)
{
  int ok = SV_LEN(shape) <= CAP;
  for (unsigned long t = 0; t < CAP; t++)
    if (t < SV_LEN(shape)) ok = ok && SV_AT(shape, t) >= 1UL && SV_AT(shape, t) <= C05_NMAX;
  return ok;
}
static inline int c05_step_ok(int step)
{ return step != 0 && step >= -C05_STEP_MAX && step <= C05_STEP_MAX; }
/* integer index i on an axis of extent n: valid range and Python's normalisation */
static inline int c05_int_ok(long n, long i) { return -n <= i && i < n; }
static inline unsigned long c05_int_norm(long n, long i) { return (unsigned long)(i < 0 ? n + i : i); }

/* ---- shape of a 1-d slice: one kept axis whose extent is Python's length */
static inline int c05_pre_shape1(sv_t shape)
{ return SV_LEN(shape) == 1UL && SV_AT(shape, 0) >= 1UL && SV_AT(shape, 0) <= C05_NMAX; }
static inline int c05_post_shape1(sv_t shape, int hs, long start, int hp, long stop, int ht, long step, sv_t ret)
{
  py_slice p = py_slice_adjust(C05_N(shape), hs, start, hp, stop, ht, step);
  return SV_LEN(ret) == 1UL && SV_AT(ret, 0) == (unsigned long)p.len;
}
/* ---- source index of element k (= indices[0]) of a 1-d slice: start' + k*step (the product is the library's own
 *      unsigned long multiplication, MUL_ul: real operator natively and in bit-precise mode, uninterpreted in UF mode) */
static inline int c05_pre_index1(sv_t indices, sv_t shape, int hs, long start, int hp, long stop, int ht, long step)
{
  if (!(SV_LEN(shape) == 1UL && SV_AT(shape, 0) >= 1UL && SV_AT(shape, 0) <= C05_NMAX && SV_LEN(indices) == 1UL)) return 0;
  py_slice p = py_slice_adjust(C05_N(shape), hs, start, hp, stop, ht, step);
  return SV_AT(indices, 0) < (unsigned long)p.len;
}
static inline int c05_post_index1(sv_t indices, sv_t shape, int hs, long start, int hp, long stop, int ht, long step, sv_t ret)
{
  py_slice p = py_slice_adjust(C05_N(shape), hs, start, hp, stop, ht, step);
  /* start'+k*step < n is a theorem about py_slice_adjust (lemmas/c05_slice_in_range.lean); with step None it is also checked here */
  return SV_LEN(ret) == 1UL && SV_AT(ret, 0) == (unsigned long)p.start + MUL_ul(SV_AT(indices, 0), (unsigned long)p.step)
      && (ht || SV_AT(ret, 0) < SV_AT(shape, 0));
}

/* ---- the 8 {int,None}^3 encodings of a[start:stop:step] (i = int part, n = None part) */

static inline int pre_verif_shape_slice_iii(sv_t shape, int start, int stop, int step) { return c05_pre_shape1(shape) && c05_step_ok(step); }
static inline int post_verif_shape_slice_iii(sv_t shape, int start, int stop, int step, sv_t ret) { return c05_post_shape1(shape, 1, start, 1, stop, 1, step, ret); }
static inline int pre_verif_slice_iii(sv_t indices, sv_t shape, int start, int stop, int step) { return step != 0 && c05_pre_index1(indices, shape, 1, start, 1, stop, 1, step); }
static inline int post_verif_slice_iii(sv_t indices, sv_t shape, int start, int stop, int step, sv_t ret) { return c05_post_index1(indices, shape, 1, start, 1, stop, 1, step, ret); }
static inline int pre_verif_shape_slice_iin(sv_t shape, int start, int stop) { return c05_pre_shape1(shape); }
static inline int post_verif_shape_slice_iin(sv_t shape, int start, int stop, sv_t ret) { return c05_post_shape1(shape, 1, start, 1, stop, 0, 0, ret); }
static inline int pre_verif_slice_iin(sv_t indices, sv_t shape, int start, int stop) { return c05_pre_index1(indices, shape, 1, start, 1, stop, 0, 0); }
static inline int post_verif_slice_iin(sv_t indices, sv_t shape, int start, int stop, sv_t ret) { return c05_post_index1(indices, shape, 1, start, 1, stop, 0, 0, ret); }
static inline int pre_verif_shape_slice_ini(sv_t shape, int start, int step) { return c05_pre_shape1(shape) && c05_step_ok(step); }
static inline int post_verif_shape_slice_ini(sv_t shape, int start, int step, sv_t ret) { return c05_post_shape1(shape, 1, start, 0, 0, 1, step, ret); }
static inline int pre_verif_slice_ini(sv_t indices, sv_t shape, int start, int step) { return step != 0 && c05_pre_index1(indices, shape, 1, start, 0, 0, 1, step); }
static inline int post_verif_slice_ini(sv_t indices, sv_t shape, int start, int step, sv_t ret) { return c05_post_index1(indices, shape, 1, start, 0, 0, 1, step, ret); }
static inline int pre_verif_shape_slice_inn(sv_t shape, int start) { return c05_pre_shape1(shape); }
static inline int post_verif_shape_slice_inn(sv_t shape, int start, sv_t ret) { return c05_post_shape1(shape, 1, start, 0, 0, 0, 0, ret); }
static inline int pre_verif_slice_inn(sv_t indices, sv_t shape, int start) { return c05_pre_index1(indices, shape, 1, start, 0, 0, 0, 0); }
static inline int post_verif_slice_inn(sv_t indices, sv_t shape, int start, sv_t ret) { return c05_post_index1(indices, shape, 1, start, 0, 0, 0, 0, ret); }
static inline int pre_verif_shape_slice_nii(sv_t shape, int stop, int step) { return c05_pre_shape1(shape) && c05_step_ok(step); }
static inline int post_verif_shape_slice_nii(sv_t shape, int stop, int step, sv_t ret) { return c05_post_shape1(shape, 0, 0, 1, stop, 1, step, ret); }
static inline int pre_verif_slice_nii(sv_t indices, sv_t shape, int stop, int step) { return step != 0 && c05_pre_index1(indices, shape, 0, 0, 1, stop, 1, step); }
static inline int post_verif_slice_nii(sv_t indices, sv_t shape, int stop, int step, sv_t ret) { return c05_post_index1(indices, shape, 0, 0, 1, stop, 1, step, ret); }
static inline int pre_verif_shape_slice_nin(sv_t shape, int stop) { return c05_pre_shape1(shape); }
static inline int post_verif_shape_slice_nin(sv_t shape, int stop, sv_t ret) { return c05_post_shape1(shape, 0, 0, 1, stop, 0, 0, ret); }
static inline int pre_verif_slice_nin(sv_t indices, sv_t shape, int stop) { return c05_pre_index1(indices, shape, 0, 0, 1, stop, 0, 0); }
static inline int post_verif_slice_nin(sv_t indices, sv_t shape, int stop, sv_t ret) { return c05_post_index1(indices, shape, 0, 0, 1, stop, 0, 0, ret); }
static inline int pre_verif_shape_slice_nni(sv_t shape, int step) { return c05_pre_shape1(shape) && c05_step_ok(step); }
static inline int post_verif_shape_slice_nni(sv_t shape, int step, sv_t ret) { return c05_post_shape1(shape, 0, 0, 0, 0, 1, step, ret); }
static inline int pre_verif_slice_nni(sv_t indices, sv_t shape, int step) { return step != 0 && c05_pre_index1(indices, shape, 0, 0, 0, 0, 1, step); }
static inline int post_verif_slice_nni(sv_t indices, sv_t shape, int step, sv_t ret) { return c05_post_index1(indices, shape, 0, 0, 0, 0, 1, step, ret); }
static inline int pre_verif_shape_slice_nnn(sv_t shape) { return c05_pre_shape1(shape); }
static inline int post_verif_shape_slice_nnn(sv_t shape, sv_t ret) { return c05_post_shape1(shape, 0, 0, 0, 0, 0, 0, ret); }
static inline int pre_verif_slice_nnn(sv_t indices, sv_t shape) { return c05_pre_index1(indices, shape, 0, 0, 0, 0, 0, 0); }
static inline int post_verif_slice_nnn(sv_t indices, sv_t shape, sv_t ret) { return c05_post_index1(indices, shape, 0, 0, 0, 0, 0, 0, ret); }

/* ---- 2-d, integer index + 2-tuple slice: a[i, start:stop]  (the integer drops its axis) */
static inline int pre_verif_shape_slice_2d_int_ii(sv_t shape, int i, int start, int stop)
{ return SV_LEN(shape) == 2UL && c05_extents_ok(shape) && c05_int_ok(C05_NA(shape, 0), i); }
static inline int post_verif_shape_slice_2d_int_ii(sv_t shape, int i, int start, int stop, sv_t ret)
{
  py_slice p = py_slice_adjust(C05_NA(shape, 1), 1, start, 1, stop, 0, 0);
  return SV_LEN(ret) == 1UL && SV_AT(ret, 0) == (unsigned long)p.len;
}
static inline int pre_verif_slice_2d_int_ii(sv_t indices, sv_t shape, int i, int start, int stop)
{
  if (!(SV_LEN(shape) == 2UL && c05_extents_ok(shape) && c05_int_ok(C05_NA(shape, 0), i) && SV_LEN(indices) == 1UL)) return 0;
  py_slice p = py_slice_adjust(C05_NA(shape, 1), 1, start, 1, stop, 0, 0);
  return SV_AT(indices, 0) < (unsigned long)p.len;
}
static inline int post_verif_slice_2d_int_ii(sv_t indices, sv_t shape, int i, int start, int stop, sv_t ret)
{
  py_slice p = py_slice_adjust(C05_NA(shape, 1), 1, start, 1, stop, 0, 0);
  return SV_LEN(ret) == 2UL && SV_AT(ret, 0) == c05_int_norm(C05_NA(shape, 0), i)
      && SV_AT(ret, 1) == (unsigned long)p.start + SV_AT(indices, 0) && SV_AT(ret, 1) < SV_AT(shape, 1);
}

/* ---- rank r = 3..8 (symbolic), integer + tuple + Ellipsis + integer: a[i, ::step, ..., j]
 *      result shape: ( len(n1, ::step), n2, ..., n_{r-2} )      (both integers drop their axis, the Ellipsis keeps r-3 axes)
 *      source index of (k, m2, ..., m_{r-2}): ( i', start'+k*step, m2, ..., m_{r-2}, j' )
 * ghosts: g = universally quantified position inside the Ellipsis block; C05_L0 / C05_R0 / C05_R1 carry the values already
 * stored in the result when the Ellipsis loop starts (loop invariants cannot call functions) */
GHOST(unsigned long, g)
GHOST(unsigned long, C05_L0)
GHOST(unsigned long, C05_R0)
GHOST(unsigned long, C05_R1)
static inline int pre_verif_shape_slice_ell(sv_t shape, int i, int step, int j)
{
  if (!(SV_LEN(shape) >= 3UL && SV_LEN(shape) <= CAP && c05_extents_ok(shape) && c05_step_ok(step))) return 0;
  if (!(c05_int_ok(C05_NA(shape, 0), i) && c05_int_ok(C05_NA(shape, SV_LEN(shape) - 1UL), j))) return 0;
  return GHOST_DEF(C05_L0, (unsigned long)py_slice_adjust(C05_NA(shape, 1), 0, 0, 0, 0, 1, step).len);
}
static inline int post_verif_shape_slice_ell(sv_t shape, int i, int step, int j, sv_t ret)
{
  py_slice p = py_slice_adjust(C05_NA(shape, 1), 0, 0, 0, 0, 1, step);
  return SV_LEN(ret) == SV_LEN(shape) - 2UL && SV_AT(ret, 0) == (unsigned long)p.len
      && IMPLIES(g < SV_LEN(shape) - 3UL, SV_AT(ret, 1UL + g) == SV_AT(shape, 2UL + g));
}
static inline int pre_verif_slice_ell(sv_t indices, sv_t shape, int i, int step, int j)
{
  if (!(SV_LEN(shape) >= 3UL && SV_LEN(shape) <= CAP && c05_extents_ok(shape) && step != 0)) return 0;
  if (!(c05_int_ok(C05_NA(shape, 0), i) && c05_int_ok(C05_NA(shape, SV_LEN(shape) - 1UL), j))) return 0;
  if (SV_LEN(indices) != SV_LEN(shape) - 2UL) return 0;
  py_slice p = py_slice_adjust(C05_NA(shape, 1), 0, 0, 0, 0, 1, step);
  if (!(SV_AT(indices, 0) < (unsigned long)p.len)) return 0;
  for (unsigned long t = 0; t < CAP; t++)
    if (t + 3UL < SV_LEN(shape) && !(SV_AT(indices, 1UL + t) < SV_AT(shape, 2UL + t))) return 0;
  return GHOST_DEF(C05_R0, c05_int_norm(C05_NA(shape, 0), i))
      && GHOST_DEF(C05_R1, (unsigned long)p.start + MUL_ul(SV_AT(indices, 0), (unsigned long)p.step));
}
static inline int post_verif_slice_ell(sv_t indices, sv_t shape, int i, int step, int j, sv_t ret)
{
  py_slice p = py_slice_adjust(C05_NA(shape, 1), 0, 0, 0, 0, 1, step);
  unsigned long r = SV_LEN(shape);
  return SV_LEN(ret) == r && SV_AT(ret, 0) == c05_int_norm(C05_NA(shape, 0), i)
      && SV_AT(ret, 1) == (unsigned long)p.start + MUL_ul(SV_AT(indices, 0), (unsigned long)p.step)
      && IMPLIES(g < r - 3UL, SV_AT(ret, 2UL + g) == SV_AT(indices, 1UL + g) && SV_AT(ret, 2UL + g) < SV_AT(shape, 2UL + g))
      && SV_AT(ret, r - 1UL) == c05_int_norm(C05_NA(shape, r - 1UL), j);
}

/* ---- run-time slice list (array<int,3> encoding, one entry): same contract as the packed a[start:stop:step] (encoding iii);
 *      both encodings are proved equal to the same Python spec, hence agree with each other */
static inline int pre_verif_shape_dynamic_slice_1(sv_t shape, int start, int stop, int step) { return c05_pre_shape1(shape) && c05_step_ok(step); }
static inline int post_verif_shape_dynamic_slice_1(sv_t shape, int start, int stop, int step, sv_t ret) { return c05_post_shape1(shape, 1, start, 1, stop, 1, step, ret); }
static inline int pre_verif_dynamic_slice_1(sv_t indices, sv_t shape, int start, int stop, int step) { return step != 0 && c05_pre_index1(indices, shape, 1, start, 1, stop, 1, step); }
static inline int post_verif_dynamic_slice_1(sv_t indices, sv_t shape, int start, int stop, int step, sv_t ret) { return c05_post_index1(indices, shape, 1, start, 1, stop, 1, step, ret); }
