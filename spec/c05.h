/* C05 spec predicates: Python / NumPy basic slicing written as plain C.
 *
 * py_slice_adjust is a port of CPython's slice.indices() (PySlice_Unpack defaults + PySlice_AdjustIndices):
 *   step  None -> 1 ; step != 0
 *   start None -> 0 (step>0) | n-1 (step<0) ;  start<0 -> start+n, clamped below at 0 (step>0) | -1 (step<0)
 *                                               start>=n -> n (step>0) | n-1 (step<0)
 *   stop  None -> n (step>0) | -1 "before begin" (step<0) ; integers clamped exactly like start
 *   len = step>0 ? (stop>start ? (stop-start-1)/step+1 : 0) : (stop<start ? (start-stop-1)/(-step)+1 : 0)
 * All spec arithmetic is done in 64-bit `long` on int-range inputs, so the spec itself cannot overflow.
 *
 * Stated bound: every extent n satisfies 1 <= n <= C05_NMAX = 2^31-1 (the library converts the extent to `int`).
 */
#include "spec/abi.h"

#define C05_NMAX 2147483647UL

typedef struct py_slice { long start, stop, step, len; } py_slice;

/* hs/hp/ht: "has start / stop / step" (0 = the part is None) */
static inline py_slice py_slice_adjust(long n, int hs, long start, int hp, long stop, int ht, long step)
{
  py_slice r;
  if (!ht) step = 1;
  long lower = step < 0 ? -1L : 0L;
  long upper = step < 0 ? n - 1 : n;
  if (!hs) start = step < 0 ? upper : lower;
  else if (start < 0) { start += n; if (start < lower) start = lower; }
  else if (start > upper) start = upper;
  if (!hp) stop = step < 0 ? lower : upper;
  else if (stop < 0) { stop += n; if (stop < lower) stop = lower; }
  else if (stop > upper) stop = upper;
  r.start = start; r.stop = stop; r.step = step;
  if (step > 0) r.len = stop > start ? (stop - start - 1) / step + 1 : 0;
  else          r.len = stop < start ? (start - stop - 1) / (-step) + 1 : 0;
  return r;
}

/* ---- shape of a 1-d slice: one kept axis whose extent is Python's length */
static inline int c05_pre_shape1(sv_t shape)
{ return SV_LEN(shape) == 1UL && SV_AT(shape, 0) >= 1UL && SV_AT(shape, 0) <= C05_NMAX; }
static inline int c05_post_shape1(sv_t shape, int hs, long start, int hp, long stop, int ht, long step, sv_t ret)
{
  py_slice p = py_slice_adjust((long)SV_AT(shape, 0), hs, start, hp, stop, ht, step);
  return SV_LEN(ret) == 1UL && SV_AT(ret, 0) == (unsigned long)p.len;
}
/* ---- source index of element k (= indices[0]) of a 1-d slice: start' + k*step, inside the source extent */
static inline int c05_pre_index1(sv_t indices, sv_t shape, int hs, long start, int hp, long stop, int ht, long step)
{
  if (!(SV_LEN(shape) == 1UL && SV_AT(shape, 0) >= 1UL && SV_AT(shape, 0) <= C05_NMAX && SV_LEN(indices) == 1UL)) return 0;
  py_slice p = py_slice_adjust((long)SV_AT(shape, 0), hs, start, hp, stop, ht, step);
  return SV_AT(indices, 0) < (unsigned long)p.len;
}
static inline int c05_post_index1(sv_t indices, sv_t shape, int hs, long start, int hp, long stop, int ht, long step, sv_t ret)
{
  py_slice p = py_slice_adjust((long)SV_AT(shape, 0), hs, start, hp, stop, ht, step);
  long k = (long)SV_AT(indices, 0);
  return SV_LEN(ret) == 1UL && SV_AT(ret, 0) == (unsigned long)(p.start + k * p.step) && SV_AT(ret, 0) < SV_AT(shape, 0);
}

/* ---- the 8 {int,None}^3 encodings (i = int, n = None) */
static inline int pre_verif_shape_slice_iii(sv_t shape, int start, int stop, int step) { return c05_pre_shape1(shape) && step != 0; }
static inline int post_verif_shape_slice_iii(sv_t shape, int start, int stop, int step, sv_t ret) { return c05_post_shape1(shape, 1, start, 1, stop, 1, step, ret); }
static inline int pre_verif_shape_slice_iin(sv_t shape, int start, int stop) { return c05_pre_shape1(shape); }
static inline int post_verif_shape_slice_iin(sv_t shape, int start, int stop, sv_t ret) { return c05_post_shape1(shape, 1, start, 1, stop, 0, 0, ret); }
static inline int pre_verif_shape_slice_ini(sv_t shape, int start, int step) { return c05_pre_shape1(shape) && step != 0; }
static inline int post_verif_shape_slice_ini(sv_t shape, int start, int step, sv_t ret) { return c05_post_shape1(shape, 1, start, 0, 0, 1, step, ret); }
static inline int pre_verif_shape_slice_inn(sv_t shape, int start) { return c05_pre_shape1(shape); }
static inline int post_verif_shape_slice_inn(sv_t shape, int start, sv_t ret) { return c05_post_shape1(shape, 1, start, 0, 0, 0, 0, ret); }
static inline int pre_verif_shape_slice_nii(sv_t shape, int stop, int step) { return c05_pre_shape1(shape) && step != 0; }
static inline int post_verif_shape_slice_nii(sv_t shape, int stop, int step, sv_t ret) { return c05_post_shape1(shape, 0, 0, 1, stop, 1, step, ret); }
static inline int pre_verif_shape_slice_nin(sv_t shape, int stop) { return c05_pre_shape1(shape); }
static inline int post_verif_shape_slice_nin(sv_t shape, int stop, sv_t ret) { return c05_post_shape1(shape, 0, 0, 1, stop, 0, 0, ret); }
static inline int pre_verif_shape_slice_nni(sv_t shape, int step) { return c05_pre_shape1(shape) && step != 0; }
static inline int post_verif_shape_slice_nni(sv_t shape, int step, sv_t ret) { return c05_post_shape1(shape, 0, 0, 0, 0, 1, step, ret); }
static inline int pre_verif_shape_slice_nnn(sv_t shape) { return c05_pre_shape1(shape); }
static inline int post_verif_shape_slice_nnn(sv_t shape, sv_t ret) { return c05_post_shape1(shape, 0, 0, 0, 0, 0, 0, ret); }

static inline int pre_verif_slice_iii(sv_t indices, sv_t shape, int start, int stop, int step) { return step != 0 && c05_pre_index1(indices, shape, 1, start, 1, stop, 1, step); }
static inline int post_verif_slice_iii(sv_t indices, sv_t shape, int start, int stop, int step, sv_t ret) { return c05_post_index1(indices, shape, 1, start, 1, stop, 1, step, ret); }
static inline int pre_verif_slice_iin(sv_t indices, sv_t shape, int start, int stop) { return c05_pre_index1(indices, shape, 1, start, 1, stop, 0, 0); }
static inline int post_verif_slice_iin(sv_t indices, sv_t shape, int start, int stop, sv_t ret) { return c05_post_index1(indices, shape, 1, start, 1, stop, 0, 0, ret); }
static inline int pre_verif_slice_ini(sv_t indices, sv_t shape, int start, int step) { return step != 0 && c05_pre_index1(indices, shape, 1, start, 0, 0, 1, step); }
static inline int post_verif_slice_ini(sv_t indices, sv_t shape, int start, int step, sv_t ret) { return c05_post_index1(indices, shape, 1, start, 0, 0, 1, step, ret); }
static inline int pre_verif_slice_inn(sv_t indices, sv_t shape, int start) { return c05_pre_index1(indices, shape, 1, start, 0, 0, 0, 0); }
static inline int post_verif_slice_inn(sv_t indices, sv_t shape, int start, sv_t ret) { return c05_post_index1(indices, shape, 1, start, 0, 0, 0, 0, ret); }
static inline int pre_verif_slice_nii(sv_t indices, sv_t shape, int stop, int step) { return step != 0 && c05_pre_index1(indices, shape, 0, 0, 1, stop, 1, step); }
static inline int post_verif_slice_nii(sv_t indices, sv_t shape, int stop, int step, sv_t ret) { return c05_post_index1(indices, shape, 0, 0, 1, stop, 1, step, ret); }
static inline int pre_verif_slice_nin(sv_t indices, sv_t shape, int stop) { return c05_pre_index1(indices, shape, 0, 0, 1, stop, 0, 0); }
static inline int post_verif_slice_nin(sv_t indices, sv_t shape, int stop, sv_t ret) { return c05_post_index1(indices, shape, 0, 0, 1, stop, 0, 0, ret); }
static inline int pre_verif_slice_nni(sv_t indices, sv_t shape, int step) { return step != 0 && c05_pre_index1(indices, shape, 0, 0, 0, 0, 1, step); }
static inline int post_verif_slice_nni(sv_t indices, sv_t shape, int step, sv_t ret) { return c05_post_index1(indices, shape, 0, 0, 0, 0, 1, step, ret); }
static inline int pre_verif_slice_nnn(sv_t indices, sv_t shape) { return c05_pre_index1(indices, shape, 0, 0, 0, 0, 0, 0); }
static inline int post_verif_slice_nnn(sv_t indices, sv_t shape, sv_t ret) { return c05_post_index1(indices, shape, 0, 0, 0, 0, 0, 0, ret); }
