/* C08 spec predicates: reductions at the level of their index functions.
 *   remove_dims      -> NumPy result shape of a reduction (keepdims: same rank, reduced axes 1; else those axes removed, order kept)
 *   reduction_slices -> per source axis the range of source positions that feed the result element at `idx`:
 *                       reduced axis: [0, extent); other axis: the single position idx[r(a)] where r(a) is the result axis
 *                       source axis a maps to (a itself with keepdims, else the number of kept axes below a)
 * kind B: shapes / indices = utl::static_vector<size_t,8> (sv_t); axis = int, nmtools_array<int,2> (ax2_t), utl::static_vector<int,8> (svi_t).
 * Postconditions are NumPy's rules; they are not derived from the code. */
#include "spec/abi.h"
#ifndef C08_SPEC_H
#define C08_SPEC_H

GHOST(unsigned long, g)                 /* universally quantified source axis / result position */
GHOST_ARR(int, RED, 10)                 /* RED[t] = 1 iff source axis t is reduced                                  */
GHOST_ARR(unsigned long, KEPT, 10)      /* KEPT[t] = #{ s < t : axis s is not reduced } (result position of axis t) */

/* Python-style axis normalisation a mod n for -n <= a < n */
#define C08_NORM(a, n)    ((a) < 0 ? (unsigned long)((long)(n) + (long)(a)) : (unsigned long)(a))
#define C08_AXIS_OK(a, n) (-(long)(n) <= (long)(a) && (long)(a) < (long)(n))

/* the set of reduced source axes as flags */
typedef struct { int red[8]; } c08_red_t;
static inline c08_red_t c08_red_int(int axis, unsigned long dim)
{
  c08_red_t r;
  for (unsigned long t = 0; t < CAP; t++) r.red[t] = (t < dim && t == C08_NORM(axis, dim)) ? 1 : 0;
  return r;
}
static inline c08_red_t c08_red_ax2(ax2_t axes, unsigned long dim)
{
  c08_red_t r;
  for (unsigned long t = 0; t < CAP; t++)
    r.red[t] = (t < dim && (t == C08_NORM(ARR_AT(axes, 0), dim) || t == C08_NORM(ARR_AT(axes, 1), dim))) ? 1 : 0;
  return r;
}
static inline c08_red_t c08_red_axes(svi_t axes, unsigned long dim)
{
  c08_red_t r;
  for (unsigned long t = 0; t < CAP; t++) {
    int hit = 0;
    for (unsigned long k = 0; k < CAP; k++)
      if (k < SV_LEN(axes) && t == C08_NORM(SV_AT(axes, k), dim)) hit = 1;
    r.red[t] = (t < dim && hit) ? 1 : 0;
  }
  return r;
}
static inline c08_red_t c08_red_all(void)
{ c08_red_t r; for (unsigned long t = 0; t < CAP; t++) r.red[t] = 1; return r; }
/* number of axes below a that survive the reduction = position of source axis a in the result without keepdims */
static inline unsigned long c08_kept_below(c08_red_t r, unsigned long a)
{
  unsigned long c = 0;
  for (unsigned long t = 0; t < CAP; t++) if (t < a && !r.red[t]) c++;
  return c;
}
static inline unsigned long c08_n_reduced(c08_red_t r, unsigned long dim)
{
  unsigned long c = 0;
  for (unsigned long t = 0; t < CAP; t++) if (t < dim && r.red[t]) c++;
  return c;
}
/* functional definition of the ghost traces (always satisfiable) */
static inline int c08_trace(c08_red_t r)
{
  int ok = GHOST_DEF(KEPT[0], 0UL);
  for (unsigned long t = 0; t < CAP; t++) {
    ok = ok && GHOST_DEF(RED[t], r.red[t] ? 1 : 0);
    ok = ok && GHOST_DEF(KEPT[t + 1], KEPT[t] + (RED[t] ? 0UL : 1UL));
  }
  return ok;
}
static inline int c08_axes_ok(svi_t axes, unsigned long dim)
{
  int ok = 1;
  for (unsigned long k = 0; k < CAP; k++) if (k < SV_LEN(axes)) ok = ok && C08_AXIS_OK(SV_AT(axes, k), dim);
  return ok;
}

/* NumPy: shape of reduce(a, axes, keepdims) for a of shape `shape`, reduced axes r.
 *   keepdims : rank unchanged, extent 1 on reduced axes
 *   otherwise: rank = number of surviving axes; surviving source axis g lands at position kept_below(g) */
#define C08_POST_KEEP(shape, r, ret) \
  (SV_LEN(ret) == SV_LEN(shape) && IMPLIES(g < SV_LEN(shape), SV_AT(ret, g) == ((r).red[g] ? 1UL : SV_AT(shape, g))))
#define C08_POST_DROP(shape, r, ret) \
  (SV_LEN(ret) == c08_kept_below(r, SV_LEN(shape)) && SV_LEN(ret) + c08_n_reduced(r, SV_LEN(shape)) == SV_LEN(shape) \
   && IMPLIES(g < SV_LEN(shape) && !(r).red[g], SV_AT(ret, c08_kept_below(r, g)) == SV_AT(shape, g)))

/* ------------------------------------------------------------------ remove_dims, one axis
 * precondition: a valid axis (-dim <= axis < dim; the views hand the user's axis on unchecked and NumPy raises AxisError otherwise) */
static inline int pre_verif_remove_dims_int_true(sv_t shape, int axis)
{ return SV_LEN(shape) <= CAP && C08_AXIS_OK(axis, SV_LEN(shape)); }
static inline int post_verif_remove_dims_int_true(sv_t shape, int axis, sv_t ret)
{ c08_red_t r = c08_red_int(axis, SV_LEN(shape)); return C08_POST_KEEP(shape, r, ret); }

static inline int pre_verif_remove_dims_int_false(sv_t shape, int axis)
{ return SV_LEN(shape) <= CAP && C08_AXIS_OK(axis, SV_LEN(shape)); }
static inline int post_verif_remove_dims_int_false(sv_t shape, int axis, sv7_t ret)
{ c08_red_t r = c08_red_int(axis, SV_LEN(shape)); return C08_POST_DROP(shape, r, ret); }

/* run-time keepdims handed directly to the index function (the views never do: view::reduce dispatches a run-time keepdims to the
 * two compile-time instantiations above). The result type is then the capacity-7 vector also for keepdims=true, so a rank-8 source
 * with keepdims=true does not fit; that combination is excluded here and reported as an observation, not as a finding. */
static inline int pre_verif_remove_dims_int_bool(sv_t shape, int axis, int keepdims)
{ return SV_LEN(shape) <= CAP && C08_AXIS_OK(axis, SV_LEN(shape)) && !(keepdims && SV_LEN(shape) == CAP); }
static inline int post_verif_remove_dims_int_bool(sv_t shape, int axis, int keepdims, sv7_t ret)
{
  c08_red_t r = c08_red_int(axis, SV_LEN(shape));
  return keepdims ? C08_POST_KEEP(shape, r, ret) : C08_POST_DROP(shape, r, ret);
}

/* ------------------------------------------------------------------ remove_dims, two axes (fixed-length list)
 * precondition: both valid and distinct after normalisation (NumPy: "duplicate value in 'axis'"; view::reduce: "TODO: error handling
 * for duplicate axis" -- the property quantifies over subsets of axes) */
static inline int pre_verif_remove_dims_ax2_true(sv_t shape, ax2_t axis)
{
  unsigned long d = SV_LEN(shape);
  return d <= CAP && C08_AXIS_OK(ARR_AT(axis, 0), d) && C08_AXIS_OK(ARR_AT(axis, 1), d)
      && C08_NORM(ARR_AT(axis, 0), d) != C08_NORM(ARR_AT(axis, 1), d) && c08_trace(c08_red_ax2(axis, d));
}
static inline int post_verif_remove_dims_ax2_true(sv_t shape, ax2_t axis, sv_t ret)
{ c08_red_t r = c08_red_ax2(axis, SV_LEN(shape)); return C08_POST_KEEP(shape, r, ret); }
static inline int pre_verif_remove_dims_ax2_false(sv_t shape, ax2_t axis)
{ return pre_verif_remove_dims_ax2_true(shape, axis); }
static inline int post_verif_remove_dims_ax2_false(sv_t shape, ax2_t axis, sv6_t ret)
{ c08_red_t r = c08_red_ax2(axis, SV_LEN(shape)); return C08_POST_DROP(shape, r, ret) && SV_LEN(ret) + 2UL == SV_LEN(shape); }

/* ------------------------------------------------------------------ remove_dims, axis=None, keepdims: all ones, rank kept */
static inline int pre_verif_remove_dims_none_true(arr3_t shape) { return 1; }
static inline int post_verif_remove_dims_none_true(arr3_t shape, arr3_t ret)
{ return ARR_AT(ret, 0) == 1UL && ARR_AT(ret, 1) == 1UL && ARR_AT(ret, 2) == 1UL; }

/* ------------------------------------------------------------------ reduction_slices
 * idx is an index into the result (one entry per result axis: len(idx) = rank of the reduced array);
 * slice of source axis g:   reduced -> [0, shape[g])      kept -> [idx[r(g)], idx[r(g)]+1),  r(g) = keepdims ? g : kept_below(g) */
#define SL_LO(ret, a) ARR_AT(SV_AT(ret, a), 0)
#define SL_HI(ret, a) ARR_AT(SV_AT(ret, a), 1)
#define C08_POST_SLICES(idx, shape, r, keepdims, ret) \
  (SV_LEN(ret) == SV_LEN(shape) \
   && IMPLIES(g < SV_LEN(shape) && (r).red[g], SL_LO(ret, g) == 0UL && SL_HI(ret, g) == SV_AT(shape, g)) \
   && IMPLIES(g < SV_LEN(shape) && !(r).red[g], \
              SL_LO(ret, g) == SV_AT(idx, (keepdims) ? g : c08_kept_below(r, g)) \
              && SL_HI(ret, g) == SV_AT(idx, (keepdims) ? g : c08_kept_below(r, g)) + 1UL))

static inline int pre_verif_reduction_slices_int(sv_t idx, sv_t shape, int axis, int keepdims)
{
  unsigned long d = SV_LEN(shape);
  return d <= CAP && C08_AXIS_OK(axis, d) && SV_LEN(idx) == (keepdims ? d : d - 1UL);
}
static inline int post_verif_reduction_slices_int(sv_t idx, sv_t shape, int axis, int keepdims, slices_t ret)
{ c08_red_t r = c08_red_int(axis, SV_LEN(shape)); return C08_POST_SLICES(idx, shape, r, keepdims, ret); }

static inline int pre_verif_reduction_slices_int_true(sv_t idx, sv_t shape, int axis) { return pre_verif_reduction_slices_int(idx, shape, axis, 1); }
static inline int post_verif_reduction_slices_int_true(sv_t idx, sv_t shape, int axis, slices_t ret)
{ return post_verif_reduction_slices_int(idx, shape, axis, 1, ret); }
static inline int pre_verif_reduction_slices_int_false(sv_t idx, sv_t shape, int axis) { return pre_verif_reduction_slices_int(idx, shape, axis, 0); }
static inline int post_verif_reduction_slices_int_false(sv_t idx, sv_t shape, int axis, slices_t ret)
{ return post_verif_reduction_slices_int(idx, shape, axis, 0, ret); }

static inline int pre_verif_reduction_slices_axes(sv_t idx, sv_t shape, svi_t axes, int keepdims)
{
  unsigned long d = SV_LEN(shape);
  if (!(d <= CAP && SV_LEN(axes) <= CAP && c08_axes_ok(axes, d))) return 0;
  c08_red_t r = c08_red_axes(axes, d);
  return c08_trace(r) && SV_LEN(idx) == (keepdims ? d : c08_kept_below(r, d));
}
static inline int post_verif_reduction_slices_axes(sv_t idx, sv_t shape, svi_t axes, int keepdims, slices_t ret)
{ c08_red_t r = c08_red_axes(axes, SV_LEN(shape)); return C08_POST_SLICES(idx, shape, r, keepdims, ret); }

/* ------------------------------------------------------------------ the fold loops of view::reducer_t over an abstract op
 * verif_abs_op is the abstract binary operation of inst/c08.cpp: an uninterpreted (pure, otherwise unconstrained) function for the
 * verifier; for native replay / translation validation a concrete non-commutative, non-associative stand-in. */
#if defined(VERIF_NATIVE)
extern "C" long verif_abs_op(long a, long b) { return (long)((unsigned long)a * 31UL + ((unsigned long)b ^ 0x9e3779b97f4a7c15UL)); }
#elif defined(VERIF_NATIVE_C)
extern long verif_abs_op(long a, long b);
#else
long __CPROVER_uninterpreted_c08_op(long, long);
long verif_abs_op(long a, long b) { return __CPROVER_uninterpreted_c08_op(a, b); }
#endif
/* ghost trace of the left fold in increasing index order: FT[j] = value after folding x[0..j) */
GHOST_ARR(long, FT, 10)
/* without initial value: starts from x[0] (NumPy: a reduction without identity over an empty operand is an error -> len >= 1) */
static inline long spec_fold(lv_t x)
{
  long acc = SV_AT(x, 0);
  for (unsigned long j = 1; j < CAP; j++) if (j < SV_LEN(x)) acc = verif_abs_op(acc, SV_AT(x, j));
  return acc;
}
static inline long spec_fold_init(lv_t x, long init)
{
  long acc = init;
  for (unsigned long j = 0; j < CAP; j++) if (j < SV_LEN(x)) acc = verif_abs_op(acc, SV_AT(x, j));
  return acc;
}
static inline int pre_verif_fold(lv_t x)
{
  int ok = SV_LEN(x) >= 1UL && SV_LEN(x) <= CAP && GHOST_DEF(FT[1], SV_AT(x, 0));
  for (unsigned long j = 1; j < CAP; j++) ok = ok && GHOST_DEF(FT[j + 1], verif_abs_op(FT[j], SV_AT(x, j)));
  return ok;
}
static inline int post_verif_fold(lv_t x, long ret) { return ret == FT[SV_LEN(x)] && ret == spec_fold(x); }
static inline int pre_verif_fold_init(lv_t x, long init)
{
  int ok = SV_LEN(x) <= CAP && GHOST_DEF(FT[0], init);
  for (unsigned long j = 0; j < CAP; j++) ok = ok && GHOST_DEF(FT[j + 1], verif_abs_op(FT[j], SV_AT(x, j)));
  return ok;
}
static inline int post_verif_fold_init(lv_t x, long init, long ret) { return ret == FT[SV_LEN(x)] && ret == spec_fold_init(x, init); }

#endif
