/* C08 spec (work in progress) */
#include "spec/abi.h"
#ifndef C08_SPEC_H
#define C08_SPEC_H
GHOST(unsigned long, g)
static inline int pre_verif_remove_dims_int_true(sv_t shape, int axis) { return SV_LEN(shape) <= CAP; }
static inline int post_verif_remove_dims_int_true(sv_t shape, int axis, sv_t ret) { return 1; }
#endif
