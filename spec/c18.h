/* C18 spec predicates: isequal / isclose are exact, shape-aware, symmetric, total comparison oracles.
 * The definitions of "equal" / "close" below are written from the property statement:
 *   equal(a,b)  <=>  len(a) == len(b)  and  for all i < len: a[i] == b[i]
 *   close(a,b)  <=>  len(a) == len(b)  and  for all i < len: |a[i] - b[i]| < eps
 * and look ONLY at positions [0,len) of either operand.  The harness leaves the storage behind size_ nondeterministic,
 * so `ret == spec(a,b)` also says that the result does not depend on anything outside [0,len) of either operand. */
#include "spec/abi.h"

/* ghost: first position at which the code's element scan sees a difference (functional definition in pre_) */
GHOST(unsigned long, w)

/* ---------------------------------------------------------------- the oracle definitions (property statement) */
static inline int spec_isequal_sv(sv_t a, sv_t b)
{
  if (SV_LEN(a) != SV_LEN(b)) return 0;
  int eq = 1;
  for (unsigned long i = 0; i < CAP; i++)
    if (i < SV_LEN(a) && SV_AT(a, i) != SV_AT(b, i)) eq = 0;
  return eq;
}
static inline int spec_isequal_sv_arr3(sv_t a, arr3_t b)
{
  if (SV_LEN(a) != 3UL) return 0;
  return SV_AT(a, 0) == ARR_AT(b, 0) && SV_AT(a, 1) == ARR_AT(b, 1) && SV_AT(a, 2) == ARR_AT(b, 2);
}
static inline int spec_isequal_arr3(arr3_t a, arr3_t b)
{ return ARR_AT(a, 0) == ARR_AT(b, 0) && ARR_AT(a, 1) == ARR_AT(b, 1) && ARR_AT(a, 2) == ARR_AT(b, 2); }
/* scalar closeness.  Bit-precise units (and native replay) use the definition |x - y| < eps.  In mode 'uf' the array-level unit
 * treats it as an uninterpreted predicate CLOSE(x,y,eps) -- the scalar code detail::isclose(float,float,float) is proved equal to
 * the definition in its own bit-precise unit and is used through that contract at the array level (modular: any CLOSE works). */
#if defined(VERIF_UF) && !defined(VERIF_NATIVE)
_Bool __CPROVER_uninterpreted_close_f(float, float, float);
static inline int spec_close_f(float x, float y, float eps)
{ return __CPROVER_uninterpreted_close_f(x, y, eps); }
#else
static inline int spec_close_f(float x, float y, float eps)
{ return SPEC_FABSF(x - y) < eps; }
#endif
static inline int spec_isclose_fv(fv_t a, fv_t b, float eps)
{
  if (SV_LEN(a) != SV_LEN(b)) return 0;
  int ok = 1;
  for (unsigned long i = 0; i < CAP; i++)
    if (i < SV_LEN(a) && !spec_close_f(SV_AT(a, i), SV_AT(b, i), eps)) ok = 0;
  return ok;
}

/* ---------------------------------------------------------------- scan traces (what the element loop has seen so far)
 * first j < len(a) with a[j] != b[j] (CAP if none).  Deliberately indexed by len(a) only -- this is the loop of the code;
 * it is used for loop invariants and for the region of the known finding, never as the expected result. */
static inline unsigned long scan_first_diff_sv(sv_t a, sv_t b)
{
  unsigned long r = CAP;
  for (unsigned long i = CAP; i > 0; i--)
    if (i - 1 < SV_LEN(a) && SV_AT(a, i - 1) != SV_AT(b, i - 1)) r = i - 1;
  return r;
}
/* isclose walks i < len(a) and pairs a[i] with b[(i / 1) % len(b)] (ndindex of the 1-d shape of b) */
static inline unsigned long scan_first_far_fv(fv_t a, fv_t b, float eps)
{
  unsigned long r = CAP;
  if (SV_LEN(b) == 0UL) return r;
  for (unsigned long i = CAP; i > 0; i--)
    if (i - 1 < SV_LEN(a) && !spec_close_f(SV_AT(a, i - 1), SV_AT(b, MOD_ul(i - 1, SV_LEN(b))), eps)) r = i - 1;
  return r;
}
static inline int prefix3_eq_sv_arr3(sv_t a, arr3_t b)
{ return SV_AT(a, 0) == ARR_AT(b, 0) && SV_AT(a, 1) == ARR_AT(b, 1) && SV_AT(a, 2) == ARR_AT(b, 2); }

/* ---------------------------------------------------------------- isequal(sv, sv) */
static inline int pre_verif_isequal_sv(sv_t a, sv_t b)
{ return SV_LEN(a) <= CAP && SV_LEN(b) <= CAP && GHOST_DEF(w, scan_first_diff_sv(a, b)); }
static inline int post_verif_isequal_sv(sv_t a, sv_t b, int ret)
{ return (ret != 0) == spec_isequal_sv(a, b) && (ret != 0) == spec_isequal_sv(b, a); }

/* reflexive */
static inline int pre_verif_isequal_refl(sv_t a)
{ return SV_LEN(a) <= CAP && GHOST_DEF(w, scan_first_diff_sv(a, a)); }
static inline int post_verif_isequal_refl(sv_t a, int ret)
{ return ret != 0; }

/* ---------------------------------------------------------------- isequal(sv, array<3>) both orders, array/array */
static inline int pre_verif_isequal_sv_arr(sv_t a, arr3_t b)
{ return SV_LEN(a) <= CAP; }
static inline int post_verif_isequal_sv_arr(sv_t a, arr3_t b, int ret)
{ return (ret != 0) == spec_isequal_sv_arr3(a, b); }
static inline int pre_verif_isequal_arr_sv(arr3_t a, sv_t b)
{ return SV_LEN(b) <= CAP; }
static inline int post_verif_isequal_arr_sv(arr3_t a, sv_t b, int ret)
{ return (ret != 0) == spec_isequal_sv_arr3(b, a); }
static inline int pre_verif_isequal_arr_arr(arr3_t a, arr3_t b)
{ return 1; }
static inline int post_verif_isequal_arr_arr(arr3_t a, arr3_t b, int ret)
{ return (ret != 0) == spec_isequal_arr3(a, b) && (ret != 0) == spec_isequal_arr3(b, a); }

/* ---------------------------------------------------------------- optionals: (engaged flag, payload) pairs
 * two empty optionals are equal; empty vs non-empty differ; two engaged ones compare their values */
static inline int pre_verif_isequal_opt_opt(int ha, sv_t a, int hb, sv_t b)
{ return SV_LEN(a) <= CAP && SV_LEN(b) <= CAP && GHOST_DEF(w, scan_first_diff_sv(a, b)); }
static inline int post_verif_isequal_opt_opt(int ha, sv_t a, int hb, sv_t b, int ret)
{
  int expect = (ha && hb) ? spec_isequal_sv(a, b) : (!ha && !hb);
  return (ret != 0) == expect;
}
static inline int pre_verif_isequal_opt_sv(int ha, sv_t a, sv_t b)
{ return SV_LEN(a) <= CAP && SV_LEN(b) <= CAP && GHOST_DEF(w, scan_first_diff_sv(a, b)); }
static inline int post_verif_isequal_opt_sv(int ha, sv_t a, sv_t b, int ret)
{ return (ret != 0) == (ha ? spec_isequal_sv(a, b) : 0); }
static inline int pre_verif_isequal_sv_opt(sv_t a, int hb, sv_t b)
{ return SV_LEN(a) <= CAP && SV_LEN(b) <= CAP && GHOST_DEF(w, scan_first_diff_sv(a, b)); }
static inline int post_verif_isequal_sv_opt(sv_t a, int hb, sv_t b, int ret)
{ return (ret != 0) == (hb ? spec_isequal_sv(a, b) : 0); }

/* ---------------------------------------------------------------- scalars */
static inline int pre_verif_isequal_num(unsigned long a, unsigned long b) { return 1; }
static inline int post_verif_isequal_num(unsigned long a, unsigned long b, int ret) { return (ret != 0) == (a == b); }
static inline int pre_verif_isequal_int(int a, int b) { return 1; }
static inline int post_verif_isequal_int(int a, int b, int ret) { return (ret != 0) == (a == b); }

/* ---------------------------------------------------------------- isclose */
static inline int pre_verif_isclose_num(float a, float b, float eps) { return 1; }
static inline int post_verif_isclose_num(float a, float b, float eps, int ret)
{ return (ret != 0) == spec_close_f(a, b, eps) && (ret != 0) == spec_close_f(b, a, eps); }
static inline int pre_verif_isclose_fv(fv_t a, fv_t b, float eps)
{ return SV_LEN(a) <= CAP && SV_LEN(b) <= CAP && GHOST_DEF(w, scan_first_far_fv(a, b, eps)); }
static inline int post_verif_isclose_fv(fv_t a, fv_t b, float eps, int ret)
{ return (ret != 0) == spec_isclose_fv(a, b, eps); }

/* ---------------------------------------------------------------- regions of the two defects found with these contracts (fixed in /repo:
 * d5a400c isequal, d860e27 isclose; listed under `fixed` in known_findings.json).  Kept as documentation of the exact failing sets:
 * the inputs on which the pre-fix result was wrong (or the call trapped); no longer excluded from any contract. */
/* detail::isequal, index-array branch: operands of different length whose first len(a) stored elements coincide */
#define C18_LEN_IGNORED_SV(a, b)      (SV_LEN(a) != SV_LEN(b) && scan_first_diff_sv(a, b) == CAP)
/* same branch, one operand a fixed array<3>: the bounded operand is read at positions 0..2 whatever its length */
#define C18_LEN_IGNORED_SV_ARR3(a, b) (SV_LEN(a) != 3UL && prefix3_eq_sv_arr3(a, b))
/* detail::isclose, ndarray branch: shapes differ; b is addressed modulo its length (traps when b is empty) */
#define C18_SHAPE_IGNORED_FV(a, b, eps) (SV_LEN(a) != SV_LEN(b) && (SV_LEN(b) == 0UL || scan_first_far_fv(a, b, eps) == CAP))

/* ---- either<int,long> operands: the held alternative is compared with the other operand; two eithers are equal iff they hold the
 *      same alternative with equal values */
static inline int pre_verif_isequal_either_num(_Bool a_right, int al, long ar, long b) { return 1; }
static inline int post_verif_isequal_either_num(_Bool a_right, int al, long ar, long b, _Bool ret)
{ return (ret != 0) == ((a_right ? ar : (long)al) == b); }
static inline int pre_verif_isequal_num_either(long a, _Bool b_right, int bl, long br) { return 1; }
static inline int post_verif_isequal_num_either(long a, _Bool b_right, int bl, long br, _Bool ret)
{ return (ret != 0) == (a == (b_right ? br : (long)bl)); }
static inline int pre_verif_isequal_either_either(_Bool a_right, int al, long ar, _Bool b_right, int bl, long br) { return 1; }
static inline int post_verif_isequal_either_either(_Bool a_right, int al, long ar, _Bool b_right, int bl, long br, _Bool ret)
{ return (ret != 0) == ((a_right != 0) == (b_right != 0) && (a_right ? ar == br : al == bl)); }
