/* C09: the SAME postconditions as kind B (spec/c01.h), applied to kind F (std::array<size_t,3>) via a logical conversion */
#include "spec/c01.h"
#ifdef VERIF_NATIVE
static inline sv_t sv_of_a3(a3_t a) { sv_t s; s.resize(3); for (int k = 0; k < 3; k++) s[k] = a[k]; return s; }
#else
static inline sv_t sv_of_a3(a3_t a) { sv_t s; s.size_ = 3UL; for (int k = 0; k < 8; k++) s.buffer.buffer[k] = (k < 3) ? a._M_elems[k] : 0UL; return s; }
#endif
static inline int pre_verif_f_compute_strides(a3_t shape) { return pre_verif_compute_strides(sv_of_a3(shape)); }
static inline int post_verif_f_compute_strides(a3_t shape, a3_t ret) { return post_verif_compute_strides(sv_of_a3(shape), sv_of_a3(ret)); }
static inline int pre_verif_f_compute_offset(a3_t indices, a3_t strides) { return pre_verif_compute_offset(sv_of_a3(indices), sv_of_a3(strides)); }
static inline int post_verif_f_compute_offset(a3_t indices, a3_t strides, unsigned long ret) { return post_verif_compute_offset(sv_of_a3(indices), sv_of_a3(strides), ret); }
static inline int pre_verif_f_compute_indices3(unsigned long offset, a3_t shape, a3_t strides) { return pre_verif_compute_indices3(offset, sv_of_a3(shape), sv_of_a3(strides)); }
static inline int post_verif_f_compute_indices3(unsigned long offset, a3_t shape, a3_t strides, a3_t ret) { return post_verif_compute_indices3(offset, sv_of_a3(shape), sv_of_a3(strides), sv_of_a3(ret)); }
static inline int pre_verif_f_product(a3_t shape) { return pre_verif_product(sv_of_a3(shape)); }
static inline int post_verif_f_product(a3_t shape, unsigned long ret) { return post_verif_product(sv_of_a3(shape), ret); }
static inline int pre_verif_f_stride(a3_t shape, unsigned long k) { return pre_verif_stride(sv_of_a3(shape), k); }
static inline int post_verif_f_stride(a3_t shape, unsigned long k, unsigned long ret) { return post_verif_stride(sv_of_a3(shape), k, ret); }
static inline int pre_verif_m_compute_offset(a3_t indices, sv_t strides) { return pre_verif_compute_offset(sv_of_a3(indices), strides); }
static inline int post_verif_m_compute_offset(a3_t indices, sv_t strides, unsigned long ret) { return post_verif_compute_offset(sv_of_a3(indices), strides, ret); }
/* 32-bit element kind: logical values are the same numbers */
#ifdef VERIF_NATIVE
static inline sv_t sv_of_a3u(a3u_t a) { sv_t s; s.resize(3); for (int k = 0; k < 3; k++) s[k] = (unsigned long)a[k]; return s; }
#else
static inline sv_t sv_of_a3u(a3u_t a) { sv_t s; s.size_ = 3UL; for (int k = 0; k < 8; k++) s.buffer.buffer[k] = (k < 3) ? (unsigned long)a._M_elems[k] : 0UL; return s; }
#endif
static inline int pre_verif_f32_compute_offset(a3u_t indices, a3u_t strides) { return pre_verif_compute_offset(sv_of_a3u(indices), sv_of_a3u(strides)); }
static inline int post_verif_f32_compute_offset(a3u_t indices, a3u_t strides, unsigned long ret) { return post_verif_compute_offset(sv_of_a3u(indices), sv_of_a3u(strides), ret); }
static inline int pre_verif_m32_compute_offset(a3u_t indices, sv_t strides) { return pre_verif_compute_offset(sv_of_a3u(indices), strides); }
static inline int post_verif_m32_compute_offset(a3u_t indices, sv_t strides, unsigned long ret) { return post_verif_compute_offset(sv_of_a3u(indices), strides, ret); }
/* kind D (std::vector operands): literally the predicates of kind B */
static inline int pre_verif_d_stride(sv_t shape, unsigned long k) { return pre_verif_stride(shape, k); }
static inline int post_verif_d_stride(sv_t shape, unsigned long k, unsigned long ret) { return post_verif_stride(shape, k, ret); }
static inline int pre_verif_d_compute_strides(sv_t shape) { return pre_verif_compute_strides(shape); }
static inline int post_verif_d_compute_strides(sv_t shape, sv_t ret) { return post_verif_compute_strides(shape, ret); }
static inline int pre_verif_d_compute_offset(sv_t indices, sv_t strides) { return pre_verif_compute_offset(indices, strides); }
static inline int post_verif_d_compute_offset(sv_t indices, sv_t strides, unsigned long ret) { return post_verif_compute_offset(indices, strides, ret); }
static inline int pre_verif_d_compute_indices3(unsigned long offset, sv_t shape, sv_t strides) { return pre_verif_compute_indices3(offset, shape, strides); }
static inline int post_verif_d_compute_indices3(unsigned long offset, sv_t shape, sv_t strides, sv_t ret) { return post_verif_compute_indices3(offset, shape, strides, ret); }
static inline int pre_verif_d_product(sv_t shape) { return pre_verif_product(shape); }
static inline int post_verif_d_product(sv_t shape, unsigned long ret) { return post_verif_product(shape, ret); }

/* normalize_axis, unsigned axis list of fixed length 2: valid iff every axis < ndim (an unsigned axis cannot be negative); entries kept.
 * Literally the rule of the signed kinds (C03 normalize_axes: -ndim <= axis < ndim) restricted to non-negative values. */
static inline int pre_verif_u_normalize_axes2(a2u_t axes, unsigned long ndim) { return ndim <= 0x7fffffffUL; }
static inline int post_verif_u_normalize_axes2(a2u_t axes, unsigned long ndim, opt_a2u_t ret)
{
  int ok = ARR_AT(axes, 0) < ndim && ARR_AT(axes, 1) < ndim;
  return (OPT_HAS(ret) != 0) == (ok != 0)
      && IMPLIES(ok, (unsigned long)ARR_AT(OPT_VAL(ret), 0) == ARR_AT(axes, 0) && (unsigned long)ARR_AT(OPT_VAL(ret), 1) == ARR_AT(axes, 1));
}

/* shape_reshape(src, constant dst): NumPy rules -- every extent positive or a single -1 (inferred), element counts equal.
 * Sources: at most 4 axes with extents 1..6 (the element count is formed bit-precisely). */
static inline int c09_rs_small(sv_t s)
{ int ok = SV_LEN(s) <= 4UL; for (unsigned long t = 0; t < 4; t++) ok = ok && IMPLIES(t < SV_LEN(s), SV_AT(s, t) >= 1UL && SV_AT(s, t) <= 6UL); return ok; }
static inline unsigned long c09_rs_numel(sv_t s)
{ unsigned long p = 1; for (unsigned long t = 0; t < 4; t++) if (t < SV_LEN(s)) p = p * SV_AT(s, t); return p; }
static inline int pre_verif_ct_reshape_m2_m3(sv_t src) { return c09_rs_small(src); }
static inline int post_verif_ct_reshape_m2_m3(sv_t src, rs_obs_t ret) { return !ret.ok; }          /* negative extents other than -1: never valid */
static inline int pre_verif_ct_reshape_2_m1(sv_t src) { return c09_rs_small(src); }
static inline int post_verif_ct_reshape_2_m1(sv_t src, rs_obs_t ret)
{
  unsigned long n = c09_rs_numel(src);
  return (ret.ok != 0) == (n % 2UL == 0UL) && IMPLIES(ret.ok, SV_LEN(ret.shape) == 2UL && SV_AT(ret.shape, 0) == 2UL && SV_AT(ret.shape, 1) == n / 2UL);
}
static inline int pre_verif_ct_reshape_3_2(sv_t src) { return c09_rs_small(src); }
static inline int post_verif_ct_reshape_3_2(sv_t src, rs_obs_t ret)
{ return (ret.ok != 0) == (c09_rs_numel(src) == 6UL) && IMPLIES(ret.ok, SV_LEN(ret.shape) == 2UL && SV_AT(ret.shape, 0) == 3UL && SV_AT(ret.shape, 1) == 2UL); }
