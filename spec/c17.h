/* C17 spec: neural-network routines -- output-shape formulas and window indexing only (PyTorch / NumPy semantics). */
#include "spec/abi.h"
GHOST(unsigned long, g)

/* ------------------------------------------------------------------ pooling output extent (torch.nn.MaxPool2d / AvgPool2d, padding 0, dilation 1)
 *   floor mode: floor((n - k) / s) + 1
 *   ceil  mode: ceil((n - k) / s) + 1, minus one if the last window would start at or beyond the end of the input
 *               (PyTorch: "ensure that the last pooling starts inside the image": (out - 1) * s >= n + pad_l  =>  --out)          */
static inline unsigned long spec_pool_out(unsigned long n, unsigned long k, unsigned long s, int ceil_mode)
{
  unsigned long q = (n - k) / s, r = (n - k) % s;
  if (!ceil_mode || r == 0UL) return q + 1UL;
  unsigned long out = q + 2UL;                    /* ceil((n-k)/s) + 1 */
  if ((out - 1UL) * s >= n) out = out - 1UL;      /* last window would start outside the input */
  return out;
}
/* extents for which the library's float arithmetic is exact (float has a 24-bit significand); see props/C17.py */
#define POOL_MAX 256UL
static inline int pool_args_ok(unsigned long n, unsigned long k, unsigned long s)
{ return 1UL <= k && k <= n && n <= POOL_MAX && 1UL <= s && s <= POOL_MAX; }

/* known finding (see known_findings.json): ceil mode keeps a last window that starts at or beyond the end of the input;
 * happens exactly when the quotient is inexact and (floor((n-k)/s) + 1) * s >= n, which needs s > k */
#define POOL_LAST_OUTSIDE(n, k, s) ((s) != 0UL && (k) <= (n) && ((n) - (k)) % (s) != 0UL && (((n) - (k)) / (s) + 1UL) * (s) >= (n))
#define POOL_CEIL_KEEPS_OUTSIDE_WINDOW(nh, kh, sh, nw, kw, sw, ceil_mode) ((ceil_mode) && (POOL_LAST_OUTSIDE(nh, kh, sh) || POOL_LAST_OUTSIDE(nw, kw, sw)))

static inline int pre_verif_shape_pool2d(a4_t shape, a2_t kernel, a2_t stride, _Bool ceil_mode)
{ return pool_args_ok(ARR_AT(shape, 2), ARR_AT(kernel, 0), ARR_AT(stride, 0)) && pool_args_ok(ARR_AT(shape, 3), ARR_AT(kernel, 1), ARR_AT(stride, 1)); }
static inline int post_verif_shape_pool2d(a4_t shape, a2_t kernel, a2_t stride, _Bool ceil_mode, a4_t ret)
{
  return ARR_AT(ret, 0) == ARR_AT(shape, 0) && ARR_AT(ret, 1) == ARR_AT(shape, 1)
      && ARR_AT(ret, 2) == spec_pool_out(ARR_AT(shape, 2), ARR_AT(kernel, 0), ARR_AT(stride, 0), ceil_mode)
      && ARR_AT(ret, 3) == spec_pool_out(ARR_AT(shape, 3), ARR_AT(kernel, 1), ARR_AT(stride, 1), ceil_mode);
}

/* sv_t kind of shape_pool2d (rank symbolic 2..8: leading axes are copied, the last two are pooled) */
static inline int pre_verif_shape_pool2d_sv(sv_t shape, a2_t kernel, a2_t stride, _Bool ceil_mode)
{ return SV_LEN(shape) >= 2UL && SV_LEN(shape) <= CAP
      && pool_args_ok(SV_AT(shape, SV_LEN(shape) - 2UL), ARR_AT(kernel, 0), ARR_AT(stride, 0))
      && pool_args_ok(SV_AT(shape, SV_LEN(shape) - 1UL), ARR_AT(kernel, 1), ARR_AT(stride, 1)); }
static inline int post_verif_shape_pool2d_sv(sv_t shape, a2_t kernel, a2_t stride, _Bool ceil_mode, sv_t ret)
{
  unsigned long d = SV_LEN(shape);
  return SV_LEN(ret) == d
      && IMPLIES(g < d && g + 2UL < d, SV_AT(ret, g) == SV_AT(shape, g))
      && SV_AT(ret, d - 2UL) == spec_pool_out(SV_AT(shape, d - 2UL), ARR_AT(kernel, 0), ARR_AT(stride, 0), ceil_mode)
      && SV_AT(ret, d - 1UL) == spec_pool_out(SV_AT(shape, d - 1UL), ARR_AT(kernel, 1), ARR_AT(stride, 1), ceil_mode);
}

/* ------------------------------------------------------------------ pooling window of output element idx (slice triples start, stop, step)
 *   batch / channel axes: the single position idx[t];  spatial axes: [o*s, o*s + k) -- apply_slice clamps the stop to the extent, so the
 *   effective window is [o*s, min(o*s + k, n)): it must start inside the input (non-empty) and, in floor mode, never overhangs.
 *   Precondition: idx lies inside the PyTorch output shape (spec_pool_out).                                                      */
#define SL_START(ret, t) ARR_AT(ARR_AT(ret, t), 0)
#define SL_STOP(ret, t)  ARR_AT(ARR_AT(ret, t), 1)
#define SL_STEP(ret, t)  ARR_AT(ARR_AT(ret, t), 2)
static inline int pre_verif_slice_pool2d(a4_t idx, a4_t shape, a2_t kernel, a2_t stride, _Bool ceil_mode)
{
  return pool_args_ok(ARR_AT(shape, 2), ARR_AT(kernel, 0), ARR_AT(stride, 0)) && pool_args_ok(ARR_AT(shape, 3), ARR_AT(kernel, 1), ARR_AT(stride, 1))
      && ARR_AT(shape, 0) <= POOL_MAX && ARR_AT(shape, 1) <= POOL_MAX && ARR_AT(idx, 0) < ARR_AT(shape, 0) && ARR_AT(idx, 1) < ARR_AT(shape, 1)
      && ARR_AT(idx, 2) < spec_pool_out(ARR_AT(shape, 2), ARR_AT(kernel, 0), ARR_AT(stride, 0), ceil_mode)
      && ARR_AT(idx, 3) < spec_pool_out(ARR_AT(shape, 3), ARR_AT(kernel, 1), ARR_AT(stride, 1), ceil_mode);
}
static inline int post_pool_window(long start, long stop, long step, unsigned long o, unsigned long n, unsigned long k, unsigned long s, int ceil_mode)
{
  return start == (long)(o * s) && stop == start + (long)k && step == 1
      && start >= 0 && (unsigned long)start < n                           /* the window starts inside the input */
      && IMPLIES(!ceil_mode, (unsigned long)stop <= n)                    /* floor mode: complete windows only */
      && IMPLIES((unsigned long)stop > n, (unsigned long)stop - n < k);   /* an overhanging (ceil mode) window still covers [start, n) */
}
static inline int post_verif_slice_pool2d(a4_t idx, a4_t shape, a2_t kernel, a2_t stride, _Bool ceil_mode, sl4_t ret)
{
  return SL_START(ret, 0) == (long)ARR_AT(idx, 0) && SL_STOP(ret, 0) == (long)ARR_AT(idx, 0) + 1 && SL_STEP(ret, 0) == 1
      && SL_START(ret, 1) == (long)ARR_AT(idx, 1) && SL_STOP(ret, 1) == (long)ARR_AT(idx, 1) + 1 && SL_STEP(ret, 1) == 1
      && post_pool_window(SL_START(ret, 2), SL_STOP(ret, 2), SL_STEP(ret, 2), ARR_AT(idx, 2), ARR_AT(shape, 2), ARR_AT(kernel, 0), ARR_AT(stride, 0), ceil_mode)
      && post_pool_window(SL_START(ret, 3), SL_STOP(ret, 3), SL_STEP(ret, 3), ARR_AT(idx, 3), ARR_AT(shape, 3), ARR_AT(kernel, 1), ARR_AT(stride, 1), ceil_mode);
}

/* ------------------------------------------------------------------ sliding_window (numpy sliding_window_view): shape and index map
 *   shape: src extents, each listed axis reduced by (window - 1) (cumulatively if listed twice), followed by the window extents
 *   index: src[g] = dst[g] + sum of the in-window offsets dst[d + t] of the windows placed on axis g; always inside src             */
#define NORM(a, n) ((a) < 0 ? (unsigned long)((long)(n) + (long)(a)) : (unsigned long)(a))
#define AXIS_OK(a, n) (-(long)(n) <= (long)(a) && (long)(a) < (long)(n))
#define SW_MAX 0x7fffffffUL       /* extents fit the int the library uses for window shapes */
#define SW_ON(axis, d, t, gg)  (NORM(ARR_AT(axis, t), d) == (gg))
#define SW_DED(window, axis, d, gg) ((SW_ON(axis, d, 0, gg) ? ARR_AT(window, 0) - 1UL : 0UL) + (SW_ON(axis, d, 1, gg) ? ARR_AT(window, 1) - 1UL : 0UL))
static inline int sw_axes_args_ok(sv_t src, a2_t window, ai2_t axis)
{
  unsigned long d = SV_LEN(src);
  int ok = d >= 1UL && d <= CAP && AXIS_OK(ARR_AT(axis, 0), d) && AXIS_OK(ARR_AT(axis, 1), d)
        && ARR_AT(window, 0) >= 1UL && ARR_AT(window, 0) <= SW_MAX && ARR_AT(window, 1) >= 1UL && ARR_AT(window, 1) <= SW_MAX;
  if (!ok) return 0;
  for (unsigned long k = 0; k < CAP; k++) if (k < d) ok = ok && SV_AT(src, k) <= SW_MAX && SW_DED(window, axis, d, k) < SV_AT(src, k);   /* windows fit */
  return ok;
}
static inline int pre_verif_shape_sliding_window_axes(sv_t src, a2_t window, ai2_t axis) { return sw_axes_args_ok(src, window, axis); }
static inline int post_verif_shape_sliding_window_axes(sv_t src, a2_t window, ai2_t axis, sv10_t ret)
{
  unsigned long d = SV_LEN(src);
  return SV_LEN(ret) == d + 2UL && SV_AT(ret, d) == ARR_AT(window, 0) && SV_AT(ret, d + 1UL) == ARR_AT(window, 1)
      && IMPLIES(g < d, SV_AT(ret, g) == SV_AT(src, g) - SW_DED(window, axis, d, g) && SV_AT(ret, g) >= 1UL);
}
static inline int pre_verif_sliding_window_axes(sv10_t idx, sv10_t dst_shape, sv_t src_shape, a2_t window, ai2_t axis)
{
  if (!sw_axes_args_ok(src_shape, window, axis)) return 0;
  unsigned long d = SV_LEN(src_shape);
  int ok = SV_LEN(dst_shape) == d + 2UL && SV_LEN(idx) == d + 2UL
        && SV_AT(dst_shape, d) == ARR_AT(window, 0) && SV_AT(dst_shape, d + 1UL) == ARR_AT(window, 1);
  if (!ok) return 0;
  for (unsigned long k = 0; k < CAP; k++) if (k < d) ok = ok && SV_AT(dst_shape, k) == SV_AT(src_shape, k) - SW_DED(window, axis, d, k);
  for (unsigned long k = 0; k < CAP + 2UL; k++) if (k < d + 2UL) ok = ok && SV_AT(idx, k) < SV_AT(dst_shape, k);
  /* the same facts at the ghost position / the window positions, stated directly (implied by the two loops above; spares the solver a case split) */
  ok = ok && SV_AT(idx, d) < ARR_AT(window, 0) && SV_AT(idx, d + 1UL) < ARR_AT(window, 1)
          && IMPLIES(g < d, SV_AT(dst_shape, g) == SV_AT(src_shape, g) - SW_DED(window, axis, d, g) && SV_AT(idx, g) < SV_AT(dst_shape, g));
  return ok;
}
static inline int post_verif_sliding_window_axes(sv10_t idx, sv10_t dst_shape, sv_t src_shape, a2_t window, ai2_t axis, sv_t ret)
{
  unsigned long d = SV_LEN(src_shape);
  return SV_LEN(ret) == d
      && IMPLIES(g < d, SV_AT(ret, g) == SV_AT(idx, g) + (SW_ON(axis, d, 0, g) ? SV_AT(idx, d) : 0UL) + (SW_ON(axis, d, 1, g) ? SV_AT(idx, d + 1UL) : 0UL)
                        && SV_AT(ret, g) < SV_AT(src_shape, g));
}
/* axis = None: one window extent per source axis */
static inline int sw_none_args_ok(sv_t src, sv_t window)
{
  unsigned long d = SV_LEN(src);
  int ok = d <= CAP && SV_LEN(window) == d;
  for (unsigned long k = 0; k < CAP; k++) if (k < d) ok = ok && SV_AT(window, k) >= 1UL && SV_AT(window, k) <= SV_AT(src, k);
  return ok;
}
static inline int pre_verif_shape_sliding_window_none(sv_t src, sv_t window) { return sw_none_args_ok(src, window); }
static inline int post_verif_shape_sliding_window_none(sv_t src, sv_t window, sv16_t ret)
{
  unsigned long d = SV_LEN(src);
  return SV_LEN(ret) == d + d
      && IMPLIES(g < d, SV_AT(ret, g) == SV_AT(src, g) - (SV_AT(window, g) - 1UL) && SV_AT(ret, g) >= 1UL && SV_AT(ret, d + g) == SV_AT(window, g));
}
static inline int pre_verif_sliding_window_none(sv16_t idx, sv16_t dst_shape, sv_t src_shape, sv_t window)
{
  if (!sw_none_args_ok(src_shape, window)) return 0;
  unsigned long d = SV_LEN(src_shape);
  int ok = SV_LEN(dst_shape) == d + d && SV_LEN(idx) == d + d;
  if (!ok) return 0;
  for (unsigned long k = 0; k < CAP; k++) if (k < d)
    ok = ok && SV_AT(dst_shape, k) == SV_AT(src_shape, k) - (SV_AT(window, k) - 1UL) && SV_AT(dst_shape, d + k) == SV_AT(window, k)
            && SV_AT(idx, k) < SV_AT(dst_shape, k) && SV_AT(idx, d + k) < SV_AT(dst_shape, d + k);
  return ok;
}
static inline int post_verif_sliding_window_none(sv16_t idx, sv16_t dst_shape, sv_t src_shape, sv_t window, sv_t ret)
{
  unsigned long d = SV_LEN(src_shape);
  return SV_LEN(ret) == d && IMPLIES(g < d, SV_AT(ret, g) == SV_AT(idx, g) + SV_AT(idx, d + g) && SV_AT(ret, g) < SV_AT(src_shape, g));
}

/* ------------------------------------------------------------------ convnd helpers (n_planes = 2: conv2d; PyTorch semantics)
 * pipeline: input (N,C,H,W) --reshape--> (N,1,G,C/G,H,W) --pad--> --sliding_window(kernel, axes -1,-2)--> ; weight (Co,C/G,kh,kw) --reshape-->
 * (.,.,C/G,kh,kw) [--expand(dilation)-->] --sliding_window-->; multiply; sum over (-1,-2,-5); --reshape--> (N,Co,H',W'); + bias (Co,1,1); [::stride]     */
#define CONV_MAX 64UL     /* bound on channel counts where a contract needs symbolic division (the property needs channels <= 4) */
/* input: batched (N,C,H,W) -> (N,1,G,C/G,H,W); unbatched (C,H,W) -> (1,G,C/G,H,W) */
static inline int pre_verif_conv_reshape_input(sv_t src, unsigned long groups)
{ return (SV_LEN(src) == 3UL || SV_LEN(src) == 4UL) && groups >= 1UL; }
static inline int post_verif_conv_reshape_input(sv_t src, unsigned long groups, sv10_t ret)
{
  unsigned long d = SV_LEN(src);
  return SV_LEN(ret) == d + 2UL
      && SV_AT(ret, d + 1UL) == SV_AT(src, d - 1UL) && SV_AT(ret, d) == SV_AT(src, d - 2UL)     /* spatial extents */
      && SV_AT(ret, d - 1UL) == DIV_ul(SV_AT(src, d - 3UL), groups) && SV_AT(ret, d - 2UL) == groups && SV_AT(ret, d - 3UL) == 1UL
      && IMPLIES(d == 4UL, SV_AT(ret, 0UL) == SV_AT(src, 0UL));                                   /* the batch axis is kept */
}
/* known finding: the batch extent is replaced by 1 */
#define CONV_BATCH_DROPPED(src) (SV_LEN(src) == 4UL && SV_AT(src, 0UL) != 1UL)

/* weight (Co, C/G, kh, kw) -> (X0, X1, C/G, kh, kw) with X0*X1 == Co, axis 1 being the group axis (it is multiplied against the group axis of the
 * reshaped input).  PyTorch: output channel c belongs to group c / (Co/G).  Row-major reshape: channel c has coordinate c % X1 on axis 1.
 * gc: ghost output channel (universally quantified). */
GHOST(unsigned long, gc)
static inline int pre_verif_conv_reshape_weight(sv_t src, unsigned long groups)
{ return SV_LEN(src) == 4UL && groups >= 1UL && groups <= CONV_MAX && SV_AT(src, 0UL) >= 1UL && SV_AT(src, 0UL) <= CONV_MAX && SV_AT(src, 0UL) % groups == 0UL; }
static inline int post_verif_conv_reshape_weight(sv_t src, unsigned long groups, sv9_t ret)
{
  unsigned long co = SV_AT(src, 0UL);
  return SV_LEN(ret) == 5UL && SV_AT(ret, 2UL) == SV_AT(src, 1UL) && SV_AT(ret, 3UL) == SV_AT(src, 2UL) && SV_AT(ret, 4UL) == SV_AT(src, 3UL)
      && SV_AT(ret, 1UL) == groups && SV_AT(ret, 0UL) * SV_AT(ret, 1UL) == co
      && IMPLIES(gc < co, gc % SV_AT(ret, 1UL) == gc / (co / groups));
}
/* known finding: layout (Co/G, G) pairs channel c with group c % G */
#define CONV_GROUP_INTERLEAVED(src, groups) ((groups) > 1UL && SV_AT(src, 0UL) / (groups) > 1UL)

/* sum result (N, A, B, H', W') -> (N, A*B, H', W') */
static inline int pre_verif_conv_reshape_reduce(sv_t src, unsigned long groups) { return SV_LEN(src) == 5UL; }
static inline int post_verif_conv_reshape_reduce(sv_t src, unsigned long groups, sv7_t ret)
{
  return SV_LEN(ret) == 4UL && SV_AT(ret, 0UL) == SV_AT(src, 0UL) && SV_AT(ret, 1UL) == MUL_ul(SV_AT(src, 1UL), SV_AT(src, 2UL))
      && SV_AT(ret, 2UL) == SV_AT(src, 3UL) && SV_AT(ret, 3UL) == SV_AT(src, 4UL);
}
/* bias (Co) -> (Co, 1, 1) */
static inline int pre_verif_conv_reshape_bias(sv_t src) { return SV_LEN(src) == 1UL; }
static inline int post_verif_conv_reshape_bias(sv_t src, sv10_t ret)
{ return SV_LEN(ret) == 3UL && SV_AT(ret, 0UL) == SV_AT(src, 0UL) && SV_AT(ret, 1UL) == 1UL && SV_AT(ret, 2UL) == 1UL; }
/* window extents in the order of the window axes (-1, -2): (kw, kh) */
static inline int pre_verif_conv_kernel_size(sv_t weight_shape)
{ unsigned long d = SV_LEN(weight_shape); return d >= 2UL && d <= CAP && SV_AT(weight_shape, d - 1UL) <= SW_MAX && SV_AT(weight_shape, d - 2UL) <= SW_MAX; }
static inline int post_verif_conv_kernel_size(sv_t weight_shape, ai2_t ret)
{ unsigned long d = SV_LEN(weight_shape); return (long)ARR_AT(ret, 0) == (long)SV_AT(weight_shape, d - 1UL) && (long)ARR_AT(ret, 1) == (long)SV_AT(weight_shape, d - 2UL); }
/* spacing (zeros inserted between kernel taps) in the order of the window axes (-1, -2): dilation = (dh, dw) -> (dw - 1, dh - 1) */
static inline int pre_verif_conv_expand_spacing(a2_t dilation)
{ return ARR_AT(dilation, 0) >= 1UL && ARR_AT(dilation, 0) <= SW_MAX && ARR_AT(dilation, 1) >= 1UL && ARR_AT(dilation, 1) <= SW_MAX; }
static inline int post_verif_conv_expand_spacing(a2_t dilation, ai2_t ret)
{ return (long)ARR_AT(ret, 0) == (long)ARR_AT(dilation, 1) - 1 && (long)ARR_AT(ret, 1) == (long)ARR_AT(dilation, 0) - 1; }
/* known finding: spacing is returned in dilation order (dh-1, dw-1) but applied to axes (-1, -2) */
#define CONV_DILATION_SWAPPED(dilation) (ARR_AT(dilation, 0) != ARR_AT(dilation, 1))
/* stride slices (..., ::sh, ::sw): step of the slice on H is stride[0], on W stride[1] (PyTorch: stride = (sh, sw)) */
static inline int pre_verif_conv_slices(a2_t stride) { return 1; }
static inline int post_verif_conv_slices(a2_t stride, a2_t ret)
{ return ARR_AT(ret, 0) == ARR_AT(stride, 0) && ARR_AT(ret, 1) == ARR_AT(stride, 1); }
/* pad widths (before_0..before_{d-1}, after_0..after_{d-1}): zero except the last two axes, padding = (ph, pw) */
static inline int pre_verif_conv_pad(unsigned long src_dim, a2_t padding) { return src_dim >= 2UL && src_dim <= CAP; }
static inline int post_verif_conv_pad(unsigned long src_dim, a2_t padding, sv16_t ret)
{
  unsigned long d = src_dim;
  return SV_LEN(ret) == d + d
      && IMPLIES(g < d, SV_AT(ret, g) == (g == d - 2UL ? ARR_AT(padding, 0) : g == d - 1UL ? ARR_AT(padding, 1) : 0UL) && SV_AT(ret, d + g) == SV_AT(ret, g));
}

/* sliding_window index with the axes convnd uses, (-1, -2): window[0] slides along the last axis, window[1] along the second-to-last */
static inline int pre_verif_sliding_window_conv(sv10_t idx, sv10_t dst_shape, sv_t src_shape, a2_t window)
{ ai2_t ax = {{-1, -2}}; return SV_LEN(src_shape) >= 2UL && pre_verif_sliding_window_axes(idx, dst_shape, src_shape, window, ax); }
static inline int post_verif_sliding_window_conv(sv10_t idx, sv10_t dst_shape, sv_t src_shape, a2_t window, sv_t ret)
{ ai2_t ax = {{-1, -2}}; return post_verif_sliding_window_axes(idx, dst_shape, src_shape, window, ax, ret); }

/* max pooling reducer on one window: the maximum of the window's elements (also when all of them are negative) */
static inline int c17_max2(int a, int b) { return a > b ? a : b; }
static inline int pre_verif_max_reducer(i4_t v) { return 1; }
static inline int post_verif_max_reducer(i4_t v, int ret)
{ return ret == c17_max2(c17_max2(ARR_AT(v, 0), ARR_AT(v, 1)), c17_max2(ARR_AT(v, 2), ARR_AT(v, 3))); }
