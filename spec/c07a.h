/* C07 spec, scalar operations of the activation functors (inst/c07a.cpp).  Reference definitions are the PyTorch formulas
 * (torch.nn.functional docs) written in float arithmetic; <cmath> functions and the float operators + - * / are uninterpreted in the
 * verifier build (spec/mathuf.h, unit mode 'fuf'), so "equal" means: the same functions and operations applied to the same arguments
 * in the same order.  Comparisons, negation and selection are exact.  Results are compared as values (NaN == NaN).
 * A(a,b) S(a,b) M(a,b) D(a,b) = float add / sub / mul / div. */
#include "spec/abi.h"
#include "spec/mathuf.h"
#define A(a, b) FOP_add_f(a, b)
#define S(a, b) FOP_sub_f(a, b)
#define M(a, b) FOP_mul_f(a, b)
#define D(a, b) FOP_div_f(a, b)
#ifdef VERIF_NATIVE
/* native replay: real libm and real float arithmetic -- "equal" within the floating-point tolerance the property allows, so that only a
 * numerically different result is CONFIRMED on the real code (a reshuffled but equivalent formula ends as no-failing-input-found) */
static inline int c07a_same(float a, float b)
{ if (a == b || (a != a && b != b)) return 1; float d = a - b; if (d < 0) d = -d; float m = a < 0 ? -a : a; float n = b < 0 ? -b : b; if (n > m) m = n; if (m < 1.0f) m = 1.0f; return d <= 1e-4f * m; }
#else
static inline int c07a_same(float a, float b) { return a == b || (a != a && b != b); }
#endif
static inline float c07a_max(float a, float b) { return a < b ? b : a; }     /* std::max */
static inline float c07a_min(float a, float b) { return b < a ? b : a; }     /* std::min */
static inline float c07a_softplus(float x, float beta, float threshold)
{ float xb = M(x, beta); if (xb > threshold) return x; return D(VERIF_M_logf(A(1.0f, VERIF_M_expf(xb))), beta); }
static inline float c07a_sigmoid(float x) { return D(1.0f, A(1.0f, VERIF_M_expf(-x))); }

static inline int pre_verif_act_relu(float x) { return 1; }
static inline int post_verif_act_relu(float x, float ret) { return c07a_same(ret, x > 0 ? x : 0.0f); }
static inline int pre_verif_act_relu6(float x) { return 1; }
static inline int post_verif_act_relu6(float x, float ret) { return c07a_same(ret, x < 0 ? 0.0f : (x > 6 ? 6.0f : x)); }
static inline int pre_verif_act_leaky_relu(float x, float slope) { return 1; }
static inline int post_verif_act_leaky_relu(float x, float slope, float ret) { return c07a_same(ret, x >= 0 ? x : M(slope, x)); }
static inline int pre_verif_act_elu(float x, float alpha) { return 1; }
static inline int post_verif_act_elu(float x, float alpha, float ret) { return c07a_same(ret, x > 0 ? x : M(alpha, S(VERIF_M_expf(x), 1.0f))); }
static inline int pre_verif_act_celu(float x, float alpha) { return 1; }
static inline int post_verif_act_celu(float x, float alpha, float ret)
{ return c07a_same(ret, A(c07a_max(0.0f, x), c07a_min(0.0f, M(alpha, S(VERIF_M_expf(D(x, alpha)), 1.0f))))); }
static inline int pre_verif_act_selu(float x) { return 1; }
static inline int post_verif_act_selu(float x, float ret)
{ return c07a_same(ret, M(1.0507009873554804934193349852946f, A(c07a_max(x, 0.0f), c07a_min(M(1.6732632423543772848170429916717f, S(VERIF_M_expf(x), 1.0f)), 0.0f)))); }
static inline int pre_verif_act_hardshrink(float x, float lambda) { return lambda >= 0; }   /* (a NaN or negative lambda is outside the definition) */
static inline int post_verif_act_hardshrink(float x, float lambda, float ret) { return c07a_same(ret, (x > lambda || x < -lambda || x != x) ? x : 0.0f); }
static inline int pre_verif_act_hardswish(float x) { return 1; }
static inline int post_verif_act_hardswish(float x, float ret) { return c07a_same(ret, x < -3 ? 0.0f : (x >= 3 ? x : D(M(x, A(x, 3.0f)), 6.0f))); }
static inline int pre_verif_act_hardtanh(float x, float lo, float hi) { return lo <= hi; }
static inline int post_verif_act_hardtanh(float x, float lo, float hi, float ret) { return c07a_same(ret, x < lo ? lo : (x > hi ? hi : x)); }
static inline int pre_verif_act_log_sigmoid(float x) { return 1; }
static inline int post_verif_act_log_sigmoid(float x, float ret) { return c07a_same(ret, VERIF_M_logf(D(1.0f, A(1.0f, VERIF_M_expf(-x))))); }
static inline int pre_verif_act_mish(float x) { return 1; }
static inline int post_verif_act_mish(float x, float ret) { return c07a_same(ret, M(x, VERIF_M_tanhf(c07a_softplus(x, 1.0f, 20.0f)))); }
static inline int pre_verif_act_prelu(float x, float alpha) { return 1; }
static inline int post_verif_act_prelu(float x, float alpha, float ret) { return c07a_same(ret, x >= 0 ? x : M(alpha, x)); }
static inline int pre_verif_act_sigmoid(float x) { return 1; }
static inline int post_verif_act_sigmoid(float x, float ret) { return c07a_same(ret, c07a_sigmoid(x)); }
static inline int pre_verif_act_silu(float x) { return 1; }
static inline int post_verif_act_silu(float x, float ret) { return c07a_same(ret, M(x, c07a_sigmoid(x))); }
static inline int pre_verif_act_softplus(float x, float beta, float threshold) { return 1; }
static inline int post_verif_act_softplus(float x, float beta, float threshold, float ret) { return c07a_same(ret, c07a_softplus(x, beta, threshold)); }
static inline int pre_verif_act_softshrink(float x, float lambda) { return 1; }
static inline int post_verif_act_softshrink(float x, float lambda, float ret) { return c07a_same(ret, x > lambda ? S(x, lambda) : (x < -lambda ? A(x, lambda) : 0.0f)); }
static inline int pre_verif_act_softsign(float x) { return 1; }
static inline int post_verif_act_softsign(float x, float ret) { return c07a_same(ret, D(x, A(1.0f, x > 0 ? x : -x))); }
static inline int pre_verif_act_tanhshrink(float x) { return 1; }
static inline int post_verif_act_tanhshrink(float x, float ret) { return c07a_same(ret, S(x, VERIF_M_tanhf(x))); }
#undef A
#undef S
#undef M
#undef D
