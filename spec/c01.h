/* C01 spec predicates: strides / offset / indices (kind B = utl::static_vector<size_t,8>) */
#include "spec/abi.h"

/* ghost index (universally quantified position) */
GHOST(unsigned long, g)
/* ghost trace of trailing products: HP(k,j) = shape[k+1] * ... * shape[j-1]  (left fold, HP(k,k+1)=1) */
GHOST_ARR(unsigned long, HPv, 100)
#define HP(k, j) HPv[(k) * 10UL + (j)]
/* ghost trace of the offset sum: SO[i] = sum_{t<i} strides[t]*indices[t] */
GHOST_ARR(unsigned long, SO, 10)
/* ghost per-position expected index: EI[t] = (offset / strides[t]) % shape[t] */
GHOST_ARR(unsigned long, EI, 10)

/* callable spec functions (loops bounded by CAP) */
static inline unsigned long spec_prod(sv_t shape, unsigned long lo, unsigned long hi)
{
  unsigned long p = 1UL;
  for (unsigned long j = 0; j < CAP; j++)
    if (j >= lo && j < hi) p = MUL_ul(p, SV_AT(shape, j));
  return p;
}
static inline unsigned long spec_offset(sv_t indices, sv_t strides)
{
  unsigned long s = 0UL;
  for (unsigned long t = 0; t < CAP; t++)
    if (t < SV_LEN(indices)) s = s + MUL_ul(SV_AT(strides, t), SV_AT(indices, t));
  return s;
}

/* the trace HP is *the* fold trace for shape (functional definition: always satisfiable) */
static inline int trace_HP(sv_t shape)
{
  int ok = 1;
  for (unsigned long k = 0; k < CAP; k++) {
    ok = ok && GHOST_DEF(HP(k, k + 1), 1UL);
    for (unsigned long j = 0; j < CAP; j++)
      if (j > k) ok = ok && GHOST_DEF(HP(k, j + 1), MUL_ul(HP(k, j), SV_AT(shape, j)));
  }
  return ok;
}

/* ---- stride(shape,k) == product of the extents after axis k */
static inline int pre_verif_stride(sv_t shape, unsigned long k)
{ return SV_LEN(shape) <= CAP && k < SV_LEN(shape) && trace_HP(shape); }
static inline int post_verif_stride(sv_t shape, unsigned long k, unsigned long ret)
{ return ret == HP(k, SV_LEN(shape)) && ret == spec_prod(shape, k + 1, SV_LEN(shape)); }

/* ---- compute_strides(shape)[g] == product of trailing extents */
static inline int pre_verif_compute_strides(sv_t shape)
{ return SV_LEN(shape) <= CAP && trace_HP(shape); }
static inline int post_verif_compute_strides(sv_t shape, sv_t ret)
{
  return SV_LEN(ret) == SV_LEN(shape)
      && IMPLIES(g < SV_LEN(shape), SV_AT(ret, g) == spec_prod(shape, g + 1, SV_LEN(shape)));
}

/* ---- product(shape) */
GHOST_ARR(unsigned long, PR, 10)
static inline int pre_verif_product(sv_t shape)
{
  int ok = SV_LEN(shape) <= CAP && GHOST_DEF(PR[0], 1UL);
  for (unsigned long j = 0; j < CAP; j++) ok = ok && GHOST_DEF(PR[j + 1], MUL_ul(PR[j], SV_AT(shape, j)));
  return ok;
}
static inline int post_verif_product(sv_t shape, unsigned long ret)
{ return ret == PR[SV_LEN(shape)] && ret == spec_prod(shape, 0, SV_LEN(shape)); }

/* ---- compute_offset(indices,strides) == sum strides[i]*indices[i] */
static inline int pre_verif_compute_offset(sv_t indices, sv_t strides)
{
  int ok = SV_LEN(indices) <= CAP && SV_LEN(strides) == SV_LEN(indices) && GHOST_DEF(SO[0], 0UL);
  for (unsigned long t = 0; t < CAP; t++)
    ok = ok && GHOST_DEF(SO[t + 1], SO[t] + MUL_ul(SV_AT(strides, t), SV_AT(indices, t)));
  return ok;
}
static inline int post_verif_compute_offset(sv_t indices, sv_t strides, unsigned long ret)
{ return ret == SO[SV_LEN(indices)] && ret == spec_offset(indices, strides); }

/* ---- compute_indices(offset,shape,strides)[g] == (offset / strides[g]) % shape[g] and lies inside the shape */
static inline int pre_verif_compute_indices3(unsigned long offset, sv_t shape, sv_t strides)
{
  int ok = SV_LEN(shape) <= CAP && SV_LEN(strides) == SV_LEN(shape);
  for (unsigned long t = 0; t < CAP; t++)
    if (t < SV_LEN(shape)) {
      ok = ok && SV_AT(shape, t) >= 1UL && SV_AT(strides, t) >= 1UL;
      ok = ok && GHOST_DEF(EI[t], MOD_ul(DIV_ul(offset, SV_AT(strides, t)), SV_AT(shape, t)));
    }
  return ok;
}
static inline int post_verif_compute_indices3(unsigned long offset, sv_t shape, sv_t strides, sv_t ret)
{
  return SV_LEN(ret) == SV_LEN(shape)
      && IMPLIES(g < SV_LEN(shape), SV_AT(ret, g) == EI[g] && SV_AT(ret, g) < SV_AT(shape, g));
}

/* ---- ndindex(shape)[i] : the i-th multi-index in row-major order = [(i / stride_t) % shape_t]_t ; size() = element count */
static inline int pre_verif_ndindex_at(sv_t shape, unsigned long i)
{
  int ok = SV_LEN(shape) <= CAP && trace_HP(shape);
  for (unsigned long t = 0; t < CAP; t++)
    if (t < SV_LEN(shape)) {
      ok = ok && SV_AT(shape, t) >= 1UL && HP(t, SV_LEN(shape)) >= 1UL;   /* stride >= 1: true when no extent is 0 and the product does not wrap */
      ok = ok && GHOST_DEF(EI[t], MOD_ul(DIV_ul(i, HP(t, SV_LEN(shape))), SV_AT(shape, t)));
    }
  return ok;
}
static inline int post_verif_ndindex_at(sv_t shape, unsigned long i, sv_t ret)
{
  return SV_LEN(ret) == SV_LEN(shape)
      && IMPLIES(g < SV_LEN(shape), SV_AT(ret, g) == EI[g] && SV_AT(ret, g) < SV_AT(shape, g)
                                    && SV_AT(ret, g) == MOD_ul(DIV_ul(i, spec_prod(shape, g + 1, SV_LEN(shape))), SV_AT(shape, g)));
}
static inline int pre_verif_ndindex_size(sv_t shape) { return pre_verif_product(shape) && trace_HP(shape); }
static inline int post_verif_ndindex_size(sv_t shape, unsigned long ret) { return post_verif_product(shape, ret); }

/* ---- bounded bit-precise cross-check of the Lean lemma L1 (lemmas/MixedRadix.lean) against these C spec functions:
 *      rank <= 3, extents 1..6: offset(indices(o)) == o for o < prod, indices in bounds. Labelled bounded. */
#ifndef VERIF_NATIVE
static inline int lemma_roundtrip_small(sv_t shape, unsigned long o)
{
  if (!(SV_LEN(shape) <= 3)) return 1;
  for (unsigned long k = 0; k < 3; k++) if (k < SV_LEN(shape) && !(SV_AT(shape, k) >= 1 && SV_AT(shape, k) <= 6)) return 1;
  unsigned long n = spec_prod(shape, 0, SV_LEN(shape));
  if (!(o < n)) return 1;
  sv_t idx, str; idx.size_ = SV_LEN(shape); str.size_ = SV_LEN(shape);
  int ok = 1;
  for (unsigned long k = 0; k < 3; k++) if (k < SV_LEN(shape)) {
    str.buffer.buffer[k] = spec_prod(shape, k + 1, SV_LEN(shape));
    idx.buffer.buffer[k] = (o / str.buffer.buffer[k]) % SV_AT(shape, k);
    ok = ok && idx.buffer.buffer[k] < SV_AT(shape, k);
  }
  return ok && spec_offset(idx, str) == o;
}
#endif
