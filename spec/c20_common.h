/* C20 shared spec definitions (row- and column-major TUs): fold traces, product spec, representation invariant, state equality.
 * Included by spec/c20.h and spec/c20c.h AFTER their ghost declarations (the driver reads GHOST lines from spec/<inst>.h itself). */
#ifndef C20_COMMON_H
#define C20_COMMON_H
static inline int c20_traces_vals(unsigned long s0, unsigned long s1, unsigned long s2, unsigned long s3)
{
  unsigned long s[4] = {s0, s1, s2, s3};
  int ok = GHOST_DEF(PP[0], 1UL);
  for (unsigned long t = 0; t < C20_DIM; t++)
    ok = ok && GHOST_DEF(PP[t + 1], MUL_ul(PP[t], s[t]));
  for (unsigned long k = 0; k < C20_DIM; k++) {
    ok = ok && GHOST_DEF(HP(k, k + 1), 1UL);
    for (unsigned long j = 0; j < C20_DIM; j++)
      if (j > k) ok = ok && GHOST_DEF(HP(k, j + 1), MUL_ul(HP(k, j), s[j]));
  }
  return ok;
}
static inline int c20_traces(sv4_t s)
{ return c20_traces_vals(SV_AT(s, 0), SV_AT(s, 1), SV_AT(s, 2), SV_AT(s, 3)); }
/* the shape a default-constructed array starts with: (1), storage behind it zero */
static inline int c20_traces_default(void)
{ return c20_traces_vals(1UL, 0UL, 0UL, 0UL); }

/* callable spec: product of the extents in [lo,hi) */
static inline unsigned long c20_prod(sv4_t shape, unsigned long lo, unsigned long hi)
{
  unsigned long p = 1UL;
  for (unsigned long j = 0; j < C20_DIM; j++)
    if (j >= lo && j < hi) p = MUL_ul(p, SV_AT(shape, j));
  return p;
}
#define c20_numel(shape) c20_prod(shape, 0UL, SV_LEN(shape))

/* representation invariants of the bounded vectors (C19) */
static inline int c20_rep(fb6_t data, sv4_t shape, sv4_t strides, sv4_t oshape, sv4_t ostrides)
{
  return SV_LEN(data) <= C20_BUF && SV_LEN(shape) <= C20_DIM && SV_LEN(strides) <= C20_DIM
      && SV_LEN(oshape) <= C20_DIM && SV_LEN(ostrides) <= C20_DIM;
}
/* Inv at the ghost position g: element count == product of the shape; strides == row-major strides of the shape; the offset
 * functor holds the same shape and strides; all four index vectors have the same length */
static inline int c20_inv(fb6_t data, sv4_t shape, sv4_t strides, sv4_t oshape, sv4_t ostrides)
{
  unsigned long n = SV_LEN(shape);
  return c20_rep(data, shape, strides, oshape, ostrides)
      && SV_LEN(strides) == n && SV_LEN(oshape) == n && SV_LEN(ostrides) == n
      && c20_numel(shape) == SV_LEN(data)
      && IMPLIES(g < n, SV_AT(strides, g) == c20_prod(shape, g + 1, n)
                     && SV_AT(oshape, g) == SV_AT(shape, g)
                     && SV_AT(ostrides, g) == SV_AT(strides, g));
}
#define C20_INV_OF(x) c20_inv((x).data_, (x).shape_, (x).strides_, (x).offset_.shape_, (x).offset_.strides_)

/* equality of the live part (length and the element at the ghost position) */
static inline int c20_same4(sv4_t x, sv4_t y)
{ return SV_LEN(x) == SV_LEN(y) && IMPLIES(g < SV_LEN(y), SV_AT(x, g) == SV_AT(y, g)); }
static inline int c20_feq(float x, float y) { return x == y || (x != x && y != y); }
static inline int c20_same6(fb6_t x, fb6_t y)
{ return SV_LEN(x) == SV_LEN(y) && IMPLIES(g < SV_LEN(y), c20_feq(SV_AT(x, g), SV_AT(y, g))); }
#define C20_SAME_OF(x, data, shape, strides, oshape, ostrides) \
  (c20_same6((x).data_, data) && c20_same4((x).shape_, shape) && c20_same4((x).strides_, strides) \
   && c20_same4((x).offset_.shape_, oshape) && c20_same4((x).offset_.strides_, ostrides))

#endif
