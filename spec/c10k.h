/* C10 spec, outputs of another shape kind (inst/c10k.cpp) */
#include "spec/abi.h"
#define FEQ(x, y) ((x) == (y) || ((x) != (x) && (y) != (y)))

/* ---- bounded unit: transpose of a concrete 2x3 array evaluated into a supplied 3x2 output of another shape kind */
static inline int pre_verif_eval_into_fixed_rank(fb6_t data) { return SV_LEN(data) == 6UL; }
static inline int post_verif_eval_into_fixed_rank(fb6_t data, fb6_t ret)
{
  int ok = SV_LEN(ret) == 6UL;
  for (unsigned long i = 0; i < 3; i++) for (unsigned long j = 0; j < 2; j++) ok = ok && FEQ(SV_AT(ret, i * 2UL + j), SV_AT(data, j * 3UL + i));
  return ok;
}

/* flip(reshape(a,(3,2)),-1)[i][j] = a[i*2 + (1-j)] */
static inline int pre_verif_eval_flip_reshape(fb6_t data) { return SV_LEN(data) == 6UL; }
static inline int post_verif_eval_flip_reshape(fb6_t data, fb6_t ret)
{
  int ok = SV_LEN(ret) == 6UL;
  for (unsigned long i = 0; i < 3; i++) for (unsigned long j = 0; j < 2; j++) ok = ok && FEQ(SV_AT(ret, i * 2UL + j), SV_AT(data, i * 2UL + (1UL - j)));
  return ok;
}
