/* C07 spec, concrete-geometry bounded units (inst/c07k.cpp): element i of the result = scalar op applied to the operands' elements at i
 * under broadcasting (NumPy semantics written out for the concrete shapes) */
#include "spec/abi.h"
static inline int c07k_small(ib6_t d, unsigned long n)
{ int ok = SV_LEN(d) == 6UL; for (unsigned long t = 0; t < 6; t++) ok = ok && IMPLIES(t < n, SV_AT(d, t) >= -30000 && SV_AT(d, t) <= 30000); return ok; }
/* (2,3) - (3) */
static inline int pre_verif_sub_broadcast(ib6_t a, ib6_t b) { return c07k_small(a, 6) && c07k_small(b, 3); }
static inline int post_verif_sub_broadcast(ib6_t a, ib6_t b, ib6_t ret)
{ int ok = SV_LEN(ret) == 6UL; for (unsigned long i = 0; i < 2; i++) for (unsigned long j = 0; j < 3; j++) ok = ok && SV_AT(ret, i * 3 + j) == SV_AT(a, i * 3 + j) - SV_AT(b, j); return ok; }
/* (2,1) - (1,3) */
static inline int pre_verif_sub_broadcast_both(ib6_t a, ib6_t b) { return c07k_small(a, 2) && c07k_small(b, 3); }
static inline int post_verif_sub_broadcast_both(ib6_t a, ib6_t b, ib6_t ret)
{ int ok = SV_LEN(ret) == 6UL; for (unsigned long i = 0; i < 2; i++) for (unsigned long j = 0; j < 3; j++) ok = ok && SV_AT(ret, i * 3 + j) == SV_AT(a, i) - SV_AT(b, j); return ok; }
/* array - scalar, scalar - array */
static inline int pre_verif_sub_scalar_rhs(ib6_t a, int k) { return c07k_small(a, 6) && k >= -30000 && k <= 30000; }
static inline int post_verif_sub_scalar_rhs(ib6_t a, int k, ib6_t ret)
{ int ok = SV_LEN(ret) == 6UL; for (unsigned long t = 0; t < 6; t++) ok = ok && SV_AT(ret, t) == SV_AT(a, t) - k; return ok; }
static inline int pre_verif_sub_scalar_lhs(int k, ib6_t a) { return c07k_small(a, 6) && k >= -30000 && k <= 30000; }
static inline int post_verif_sub_scalar_lhs(int k, ib6_t a, ib6_t ret)
{ int ok = SV_LEN(ret) == 6UL; for (unsigned long t = 0; t < 6; t++) ok = ok && SV_AT(ret, t) == k - SV_AT(a, t); return ok; }
/* signed char + int in int */
static inline int pre_verif_add_mixed(cb6_t a, ib6_t b) { return SV_LEN(a) == 6UL && c07k_small(b, 6); }
static inline int post_verif_add_mixed(cb6_t a, ib6_t b, ib6_t ret)
{ int ok = SV_LEN(ret) == 6UL; for (unsigned long t = 0; t < 6; t++) ok = ok && SV_AT(ret, t) == (int)SV_AT(a, t) + SV_AT(b, t); return ok; }
/* less: bool elements, (2,3) < (3) */
static inline int pre_verif_less(ib6_t a, ib6_t b) { return SV_LEN(a) == 6UL && SV_LEN(b) == 6UL; }
static inline int post_verif_less(ib6_t a, ib6_t b, bb6_t ret)
{ int ok = SV_LEN(ret) == 6UL; for (unsigned long i = 0; i < 2; i++) for (unsigned long j = 0; j < 3; j++) ok = ok && (SV_AT(ret, i * 3 + j) != 0) == (SV_AT(a, i * 3 + j) < SV_AT(b, j)); return ok; }
/* negative */
static inline int pre_verif_negative(ib6_t a) { return c07k_small(a, 6); }
static inline int post_verif_negative(ib6_t a, ib6_t ret)
{ int ok = SV_LEN(ret) == 6UL; for (unsigned long t = 0; t < 6; t++) ok = ok && SV_AT(ret, t) == -SV_AT(a, t); return ok; }
/* outer subtract: (2) x (3) */
static inline int pre_verif_outer_sub(ib6_t a, ib6_t b) { return c07k_small(a, 2) && c07k_small(b, 3); }
static inline int post_verif_outer_sub(ib6_t a, ib6_t b, ib6_t ret)
{ int ok = SV_LEN(ret) == 6UL; for (unsigned long i = 0; i < 2; i++) for (unsigned long j = 0; j < 3; j++) ok = ok && SV_AT(ret, i * 3 + j) == SV_AT(a, i) - SV_AT(b, j); return ok; }
/* all-scalar operands */
static inline int pre_verif_sub_scalars(int a, int b) { return a >= -30000 && a <= 30000 && b >= -30000 && b <= 30000; }
static inline int post_verif_sub_scalars(int a, int b, int ret) { return ret == a - b; }
/* where(c (2,3), x (3), y (2,1)): element (i,j) = c[i][j] ? x[j] : y[i]; the selected element itself (bit pattern), also when the other is not finite */
static inline int c07k_fsame(float a, float b) { return a == b || (a != a && b != b); }
static inline int pre_verif_where(bb6_t c, fb6_t x, fb6_t y) { return SV_LEN(c) == 6UL && SV_LEN(x) == 6UL && SV_LEN(y) == 6UL; }
static inline int post_verif_where(bb6_t c, fb6_t x, fb6_t y, fb6_t ret)
{ int ok = SV_LEN(ret) == 6UL; for (unsigned long i = 0; i < 2; i++) for (unsigned long j = 0; j < 3; j++) ok = ok && c07k_fsame(SV_AT(ret, i * 3 + j), SV_AT(c, i * 3 + j) ? SV_AT(x, j) : SV_AT(y, i)); return ok; }
