/* C03 spec predicates: rearranging views at the level of their index functions.
 * kind B: shapes / indices = utl::static_vector<size_t,8> (sv_t), axes / target shapes = utl::static_vector<int,8> (svi_t).
 * Postconditions are NumPy's rules; they are not derived from the code. */
#include "spec/abi.h"
#ifndef C03_SPEC_H
#define C03_SPEC_H

/* ghost indices (universally quantified positions) */
GHOST(unsigned long, g)
GHOST(unsigned long, g2)
GHOST(unsigned long, g3)
GHOST(unsigned long, QRS)            /* reshape: the inferred extent numel / prod(known extents) (0 if that product is 0) */
/* ghost traces */
GHOST_ARR(unsigned long, PS, 10)   /* PS[i] = src[0]*...*src[i-1]                        (left fold as in index::product)   */
GHOST_ARR(unsigned long, PD, 10)   /* PD[j] = product of (size_t)dst[t], t<j, dst[t]!=-1 (left fold, PD[0]=1)               */
GHOST_ARR(int, CN, 10)             /* CN[j] = #{t<j : dst[t]==-1}                                                            */
GHOST_ARR(int, NB, 10)             /* NB[j] = 1 iff no dst[t], t<j, is < -1 (used by the loop contract of the repaired shape_reshape) */
GHOST_ARR(unsigned long, SQ, 10)   /* SQ[j] = #{t<j : shape[t] != 1}  (squeeze: output position of the entries that are kept)                */
GHOST_ARR(int, FX, 40)             /* FX[k*10+j] = 1 iff some axes[t], t<j, equals k literally (flip_slices: what index::count sees)           */
GHOST_ARR(int, VT, 10)             /* VT[j] = 1 iff every axes[t], t<j, lies in [-ndim, ndim)                                */

#define C03_INT_MAX 2147483647L
/* value facts about products / quotients are stated (and discharged) in UF mode only; bit-precise units carry the safety part */
#ifdef VERIF_UF
  #define UF_ONLY(x) (x)
#else
  #define UF_ONLY(x) 1
#endif
/* Python-style axis normalisation a mod n for -n <= a < n */
#define NORM(a, n) ((a) < 0 ? (unsigned long)((long)(n) + (long)(a)) : (unsigned long)(a))
#define AXIS_OK(a, n) (-(long)(n) <= (long)(a) && (long)(a) < (long)(n))
/* int -> size_t exactly as C++ converts it (modular); written without a narrowing cast */
#define U64(x) ((x) < 0 ? 0UL - (unsigned long)(-(long)(x)) : (unsigned long)(x))

/* ------------------------------------------------------------------ normalize_axis */
static inline int pre_verif_normalize_axis(int axis, unsigned long ndim)
{ return ndim <= (unsigned long)C03_INT_MAX; }
static inline int post_verif_normalize_axis(int axis, unsigned long ndim, opt_axis_t ret)
{
  int ok = AXIS_OK(axis, ndim);
  return (OPT_HAS(ret) != 0) == (ok != 0)
      && IMPLIES(ok, (long)OPT_VAL(ret) == (axis < 0 ? (long)axis + (long)ndim : (long)axis) && (unsigned long)OPT_VAL(ret) < ndim);
}

static inline int spec_axes_ok(svi_t axes, unsigned long ndim)
{
  int ok = 1;
  for (unsigned long t = 0; t < CAP; t++)
    if (t < SV_LEN(axes) && !AXIS_OK(SV_AT(axes, t), ndim)) ok = 0;
  return ok;
}
static inline int trace_VT(svi_t axes, unsigned long ndim)
{
  int ok = GHOST_DEF(VT[0], 1);
  for (unsigned long t = 0; t < CAP; t++)
    ok = ok && GHOST_DEF(VT[t + 1], (VT[t] && (t >= SV_LEN(axes) || AXIS_OK(SV_AT(axes, t), ndim))) ? 1 : 0);
  return ok;
}
static inline int pre_verif_normalize_axes(svi_t axes, unsigned long ndim)
{ return SV_LEN(axes) <= CAP && ndim <= (unsigned long)C03_INT_MAX && trace_VT(axes, ndim); }
static inline int post_verif_normalize_axes(svi_t axes, unsigned long ndim, opt_sv_t ret)
{
  int ok = spec_axes_ok(axes, ndim);
  return (OPT_HAS(ret) != 0) == (ok != 0)
      && IMPLIES(ok, SV_LEN(OPT_VAL(ret)) == SV_LEN(axes)
                  && IMPLIES(g < SV_LEN(axes), SV_AT(OPT_VAL(ret), g) == NORM(SV_AT(axes, g), ndim) && SV_AT(OPT_VAL(ret), g) < ndim));
}

/* ------------------------------------------------------------------ transpose family */
/* every p[t], t < len(p), is a valid (possibly negative) axis for rank n */
static inline int axes_in_range(svi_t p, unsigned long n)
{
  int ok = 1;
  for (unsigned long t = 0; t < CAP; t++)
    if (t < SV_LEN(p)) ok = ok && AXIS_OK(SV_AT(p, t), n);
  return ok;
}
/* p is a permutation of 0..n-1 (after normalisation of negative entries) */
static inline int is_perm(svi_t p, unsigned long n)
{
  if (!(n <= CAP && SV_LEN(p) == n && axes_in_range(p, n))) return 0;
  int ok = 1;
  for (unsigned long a = 0; a < CAP; a++)
    for (unsigned long b = 0; b < CAP; b++)
      if (a < b && b < n) ok = ok && NORM(SV_AT(p, a), n) != NORM(SV_AT(p, b), n);
  return ok;
}
/* q is the inverse permutation of p */
static inline int is_inverse(svi_t p, svi_t q, unsigned long n)
{
  if (!(n <= CAP && SV_LEN(p) == n && SV_LEN(q) == n && axes_in_range(p, n) && axes_in_range(q, n))) return 0;
  int ok = 1;
  for (unsigned long t = 0; t < CAP; t++)
    if (t < n) ok = ok && NORM(SV_AT(q, NORM(SV_AT(p, t), n)), n) == t && NORM(SV_AT(p, NORM(SV_AT(q, t), n)), n) == t;
  return ok;
}

/* numpy.transpose(a).shape == a.shape[::-1] */
static inline int pre_verif_shape_transpose_none(sv_t shape) { return SV_LEN(shape) <= CAP; }
static inline int post_verif_shape_transpose_none(sv_t shape, sv_t ret)
{
  return SV_LEN(ret) == SV_LEN(shape)
      && IMPLIES(g < SV_LEN(shape), SV_AT(ret, g) == SV_AT(shape, SV_LEN(shape) - 1UL - g));
}
/* numpy.transpose(a, axes).shape[k] == a.shape[axes[k]] (negative axes count from the end) */
static inline int pre_verif_shape_transpose(sv_t shape, svi_t axes)
{ return SV_LEN(shape) <= CAP && SV_LEN(axes) == SV_LEN(shape) && axes_in_range(axes, SV_LEN(shape)); }
static inline int post_verif_shape_transpose(sv_t shape, svi_t axes, sv_t ret)
{
  return SV_LEN(ret) == SV_LEN(shape)
      && IMPLIES(g < SV_LEN(shape), SV_AT(ret, g) == SV_AT(shape, NORM(SV_AT(axes, g), SV_LEN(shape))));
}
/* reverse(x)[k] == x[n-1-k]   (source index of transpose(a)[idx] and of flip) */
static inline int pre_verif_reverse(sv_t x) { return SV_LEN(x) <= CAP; }
static inline int post_verif_reverse(sv_t x, sv_t ret)
{
  return SV_LEN(ret) == SV_LEN(x)
      && IMPLIES(g < SV_LEN(x), SV_AT(ret, g) == SV_AT(x, SV_LEN(x) - 1UL - g));
}
/* scatter(x,p)[p[k]] == x[k]   (source index of transpose(a,p)[x]: numpy  transpose(a,p)[x] == a[y] with y[p[k]] = x[k]) */
static inline int pre_verif_scatter(sv_t x, svi_t p) { return SV_LEN(x) <= CAP && is_perm(p, SV_LEN(x)); }
static inline int post_verif_scatter(sv_t x, svi_t p, sv_t ret)
{
  return SV_LEN(ret) == SV_LEN(x)
      && IMPLIES(g < SV_LEN(x), SV_AT(ret, NORM(SV_AT(p, g), SV_LEN(x))) == SV_AT(x, g));
}
/* gather(x,p)[k] == x[p[k]] */
static inline int pre_verif_gather(sv_t x, svi_t p)
{ return SV_LEN(x) <= CAP && SV_LEN(p) <= CAP && axes_in_range(p, SV_LEN(x)); }
static inline int post_verif_gather(sv_t x, svi_t p, sv_t ret)
{
  return SV_LEN(ret) == SV_LEN(p)
      && IMPLIES(g < SV_LEN(p), SV_AT(ret, g) == SV_AT(x, NORM(SV_AT(p, g), SV_LEN(x))));
}
/* laws ------------------------------------------------------------- */
/* flipping / reversing twice restores the index */
static inline int pre_verif_reverse_reverse(sv_t x)
{ return SV_LEN(x) <= CAP && IMPLIES(g < SV_LEN(x), GHOST_DEF(g2, SV_LEN(x) - 1UL - g)); }
static inline int post_verif_reverse_reverse(sv_t x, sv_t ret)
{ return SV_LEN(ret) == SV_LEN(x) && IMPLIES(g < SV_LEN(x), SV_AT(ret, g) == SV_AT(x, g)); }
/* gather undoes scatter for any permutation */
static inline int pre_verif_gather_scatter(sv_t x, svi_t p) { return SV_LEN(x) <= CAP && is_perm(p, SV_LEN(x)); }
static inline int post_verif_gather_scatter(sv_t x, svi_t p, sv_t ret)
{ return SV_LEN(ret) == SV_LEN(x) && IMPLIES(g < SV_LEN(x), SV_AT(ret, g) == SV_AT(x, g)); }
/* transpose by p, then by q = p^-1: the element map a(scatter(scatter(idx,q),p)) is the identity */
static inline int pre_verif_scatter_scatter_inv(sv_t idx, svi_t p, svi_t q)
{
  return SV_LEN(idx) <= CAP && is_inverse(p, q, SV_LEN(idx))
      && IMPLIES(g < SV_LEN(idx), GHOST_DEF(g2, NORM(SV_AT(q, g), SV_LEN(idx))));
}
static inline int post_verif_scatter_scatter_inv(sv_t idx, svi_t p, svi_t q, sv_t ret)
{ return SV_LEN(ret) == SV_LEN(idx) && IMPLIES(g < SV_LEN(idx), SV_AT(ret, g) == SV_AT(idx, g)); }
/* ... and the shape is restored */
static inline int pre_verif_shape_transpose_inv(sv_t shape, svi_t p, svi_t q)
{
  return SV_LEN(shape) <= CAP && is_inverse(p, q, SV_LEN(shape))
      && IMPLIES(g < SV_LEN(shape), GHOST_DEF(g2, NORM(SV_AT(q, g), SV_LEN(shape))));
}
static inline int post_verif_shape_transpose_inv(sv_t shape, svi_t p, svi_t q, sv_t ret)
{ return SV_LEN(ret) == SV_LEN(shape) && IMPLIES(g < SV_LEN(shape), SV_AT(ret, g) == SV_AT(shape, g)); }

/* ------------------------------------------------------------------ reshape */
/* multiplication used by the ghost traces.  UF units / native: the same MUL_ul the code uses.  Bit-precise units never multiply in
 * the code under analysis (index::product and count_negative_reshape are replaced by their contracts there), so the traces stay
 * uninterpreted: what such a unit proves holds for every multiplication, in particular the machine one, for which the two helper
 * contracts are discharged (product.contract.uf, count_negative_reshape.contract.uf). */
#if defined(VERIF_NATIVE) || defined(VERIF_UF)
  #define TMUL(a, b) MUL_ul(a, b)
#else
  unsigned long __CPROVER_uninterpreted_mul(unsigned long, unsigned long);
  #define TMUL(a, b) __CPROVER_uninterpreted_mul(a, b)
#endif
static inline int trace_PS(sv_t src)
{
  int ok = GHOST_DEF(PS[0], 1UL);
  for (unsigned long t = 0; t < CAP; t++)
    ok = ok && GHOST_DEF(PS[t + 1], TMUL(PS[t], SV_AT(src, t)));
  return ok;
}
static inline int trace_PD(svi_t dst)
{
  int ok = GHOST_DEF(PD[0], 1UL) && GHOST_DEF(CN[0], 0);
  for (unsigned long t = 0; t < CAP; t++) {
    ok = ok && GHOST_DEF(PD[t + 1], SV_AT(dst, t) == -1 ? PD[t] : TMUL(PD[t], U64(SV_AT(dst, t))));
    ok = ok && GHOST_DEF(CN[t + 1], CN[t] + (SV_AT(dst, t) == -1 ? 1 : 0));
  }
  return ok;
}
static inline int trace_NB(svi_t dst)
{
  int ok = GHOST_DEF(NB[0], 1);
  for (unsigned long t = 0; t < CAP; t++)
    ok = ok && GHOST_DEF(NB[t + 1], (NB[t] && (t >= SV_LEN(dst) || SV_AT(dst, t) >= -1)) ? 1 : 0);
  return ok;
}
/* callable definitions (independent loops), tied to the traces in the postconditions */
static inline int spec_count_m1(svi_t dst)
{
  int c = 0;
  for (unsigned long t = 0; t < CAP; t++)
    if (t < SV_LEN(dst) && SV_AT(dst, t) == -1) c++;
  return c;
}
static inline unsigned long spec_prod_known(svi_t dst)
{
  unsigned long p = 1UL;
  for (unsigned long t = 0; t < CAP; t++)
    if (t < SV_LEN(dst) && SV_AT(dst, t) != -1) p = MUL_ul(p, U64(SV_AT(dst, t)));
  return p;
}
static inline unsigned long spec_numel(sv_t src)
{
  unsigned long p = 1UL;
  for (unsigned long t = 0; t < CAP; t++)
    if (t < SV_LEN(src)) p = MUL_ul(p, SV_AT(src, t));
  return p;
}
/* some extent is neither -1 nor >= 1 (NumPy: "negative dimensions not allowed" / size mismatch for 0 when the source is non-empty) */
static inline int has_entry_lt(svi_t dst, int bound)
{
  int r = 0;
  for (unsigned long t = 0; t < CAP; t++)
    if (t < SV_LEN(dst) && SV_AT(dst, t) != -1 && SV_AT(dst, t) < bound) r = 1;
  return r;
}

/* count_negative_reshape(dst) == (#entries == -1, product of the other entries) */
static inline int pre_verif_count_negative_reshape(svi_t dst)
{ return 1UL <= SV_LEN(dst) && SV_LEN(dst) <= CAP && !has_entry_lt(dst, 0) && trace_PD(dst); }
static inline int post_verif_count_negative_reshape(svi_t dst, cnt_t ret)
{
  return TUP_GET(ret, 0) == CN[SV_LEN(dst)] && TUP_GET(ret, 1) == PD[SV_LEN(dst)]
      && TUP_GET(ret, 0) == spec_count_m1(dst) && TUP_GET(ret, 1) == spec_prod_known(dst);
}

/* numpy.reshape(a, dst).shape for a non-empty source (numel >= 1, as in the property's quantifier: extents >= 1):
 * valid  <=>  at most one -1, every other extent >= 1, and numel == prod(dst) (no -1) resp. prod(others) divides numel (one -1);
 * result[k] = dst[k], the -1 replaced by numel / prod(others).
 * Products are the (wrapping / uninterpreted) size_t products; equal to NumPy's unbounded ones when nothing exceeds 2^64. */
#define RESHAPE_N(src) SV_LEN(src)
static inline int np_reshape_ok(sv_t src, svi_t dst)
{
  unsigned long n = SV_LEN(src), m = SV_LEN(dst);
  if (CN[m] > 1) return 0;
  if (has_entry_lt(dst, 1)) return 0;
  if (CN[m] == 0) return PS[n] == PD[m];
  return PD[m] != 0UL && MOD_ul(PS[n], PD[m]) == 0UL;
}
static inline int def_QRS(sv_t src, svi_t dst)
{
  return GHOST_DEF(QRS, PD[SV_LEN(dst)] != 0UL ? DIV_ul(PS[SV_LEN(src)], PD[SV_LEN(dst)]) : 0UL)
      /* instance of the theorem  a >= b > 0 ==> a / b >= 1  on the ghost-bound terms (not among the UF axioms of the prelude) */
      && (PD[SV_LEN(dst)] == 0UL || PS[SV_LEN(src)] < PD[SV_LEN(dst)] || QRS >= 1UL);
}
static inline int pre_verif_shape_reshape(sv_t src, svi_t dst)
{
  return SV_LEN(src) <= CAP && 1UL <= SV_LEN(dst) && SV_LEN(dst) <= CAP && trace_PS(src) && trace_PD(dst) && trace_NB(dst)
      && def_QRS(src, dst)
      /* instance of the theorem  b != 0 ==> b % b == 0  on the ghost-bound terms (UF mode knows no such axiom) */
      && (PD[SV_LEN(dst)] == 0UL || PS[SV_LEN(src)] != PD[SV_LEN(dst)] || MOD_ul(PS[SV_LEN(src)], PD[SV_LEN(dst)]) == 0UL)
      && PS[SV_LEN(src)] >= 1UL                                  /* non-empty source */
      && PS[SV_LEN(src)] <= (unsigned long)C03_INT_MAX;          /* inferred extent representable in the target's element type (int) */
}
static inline int post_verif_shape_reshape(sv_t src, svi_t dst, opt_svi_t ret)
{
  int ok = np_reshape_ok(src, dst);
  return (OPT_HAS(ret) != 0) == (ok != 0)
      && IMPLIES(ok, SV_LEN(OPT_VAL(ret)) == SV_LEN(dst)
                  && IMPLIES(g < SV_LEN(dst),
                             (long)SV_AT(OPT_VAL(ret), g) == (SV_AT(dst, g) == -1 ? (long)QRS : (long)SV_AT(dst, g))
                          && SV_AT(OPT_VAL(ret), g) >= 1));
}
/* crash freedom for *every* argument (any extents, any rank <= CAP, empty target included), bit-precise */
static inline int pre_verif_shape_reshape_safe(sv_t src, svi_t dst)
{
  return SV_LEN(src) <= CAP && SV_LEN(dst) <= CAP && trace_PS(src) && trace_PD(dst) && trace_NB(dst) && def_QRS(src, dst)
      && PS[SV_LEN(src)] <= (unsigned long)C03_INT_MAX;
}
static inline int post_verif_shape_reshape_safe(sv_t src, svi_t dst, opt_svi_t ret)
{ return IMPLIES(OPT_HAS(ret), SV_LEN(OPT_VAL(ret)) == SV_LEN(dst)); }
/* the value count_negative_reshape returns as "product of the known extents" (0 for an empty target: code quirk) */
/* ------------------------------------------------------------------ expand_dims / squeeze / atleast_nd / flatten */
/* numpy.expand_dims(a, axis).shape: a 1 inserted at position axis mod (ndim+1) */
#define EXPAND_AT(shape, a, k) ((k) == (a) ? 1UL : ((k) < (a) ? SV_AT(shape, k) : SV_AT(shape, (k) - 1UL)))
static inline int pre_verif_shape_expand_dims(sv_t shape, int axis)
{ return SV_LEN(shape) <= CAP && AXIS_OK(axis, SV_LEN(shape) + 1UL); }
static inline int post_verif_shape_expand_dims(sv_t shape, int axis, sv9_t ret)
{
  unsigned long n = SV_LEN(shape) + 1UL, a = NORM(axis, SV_LEN(shape) + 1UL);
  return SV_LEN(ret) == n && IMPLIES(g < n, SV_AT(ret, g) == EXPAND_AT(shape, a, g));
}
/* numpy.squeeze(a).shape: the extents != 1, in order (extents >= 1 as in the property's quantifier) */
static inline int trace_SQ(sv_t shape)
{
  int ok = GHOST_DEF(SQ[0], 0UL);
  for (unsigned long t = 0; t < CAP; t++)
    ok = ok && GHOST_DEF(SQ[t + 1], SQ[t] + ((t < SV_LEN(shape) && SV_AT(shape, t) != 1UL) ? 1UL : 0UL));
  return ok;
}
static inline int all_extents_ge1(sv_t shape)
{
  int ok = 1;
  for (unsigned long t = 0; t < CAP; t++)
    if (t < SV_LEN(shape) && SV_AT(shape, t) < 1UL) ok = 0;
  return ok;
}
static inline unsigned long spec_count_non1(sv_t shape)
{
  unsigned long c = 0UL;
  for (unsigned long t = 0; t < CAP; t++)
    if (t < SV_LEN(shape) && SV_AT(shape, t) != 1UL) c++;
  return c;
}
static inline int pre_verif_shape_squeeze(sv_t shape)
{ return SV_LEN(shape) <= CAP && all_extents_ge1(shape) && trace_SQ(shape); }
static inline int post_verif_shape_squeeze(sv_t shape, hyb_t ret)
{
  return HN_LEN(ret) == SQ[SV_LEN(shape)] && HN_LEN(ret) == spec_count_non1(shape)
      && IMPLIES(g < SV_LEN(shape) && SV_AT(shape, g) != 1UL, SQ[g] < HN_LEN(ret) && HN_AT(ret, SQ[g]) == SV_AT(shape, g));
}
/* atleast_1d / atleast_2d (numpy) and nmtools' atleast_nd: ones are prepended until the rank is nd */
static inline int atleast_post(sv_t shape, unsigned long nd, hyb_t ret)
{
  unsigned long n = SV_LEN(shape), L = n > nd ? n : nd, d = L - n;
  return HN_LEN(ret) == L && IMPLIES(g < L, HN_AT(ret, g) == (g < d ? 1UL : SV_AT(shape, g - d)));
}
static inline int pre_verif_shape_atleast_1d(sv_t shape) { return SV_LEN(shape) <= CAP; }
static inline int post_verif_shape_atleast_1d(sv_t shape, hyb_t ret) { return atleast_post(shape, 1UL, ret); }
static inline int pre_verif_shape_atleast_2d(sv_t shape) { return SV_LEN(shape) <= CAP; }
static inline int post_verif_shape_atleast_2d(sv_t shape, hyb_t ret) { return atleast_post(shape, 2UL, ret); }
static inline int pre_verif_shape_atleast_3d(sv_t shape) { return SV_LEN(shape) <= CAP; }
static inline int post_verif_shape_atleast_3d(sv_t shape, hyb_t ret) { return atleast_post(shape, 3UL, ret); }
/* flatten: the single extent is the element count */
static inline int pre_verif_shape_flatten(sv_t shape) { return SV_LEN(shape) <= CAP && trace_PS(shape); }
static inline int post_verif_shape_flatten(sv_t shape, arr1_t ret)
{ return ARR_AT(ret, 0) == PS[SV_LEN(shape)] && ARR_AT(ret, 0) == spec_numel(shape); }

/* ------------------------------------------------------------------ swapaxes / moveaxis -> transpose axes */
/* numpy.swapaxes(a, axis1, axis2) == transpose(a, axes) with axes = identity with the two (normalised) positions exchanged */
static inline int pre_verif_swapaxes_to_transpose(unsigned long dim, int axis1, int axis2)
{
  return 1UL <= dim && dim <= CAP && AXIS_OK(axis1, dim) && AXIS_OK(axis2, dim)
      && GHOST_DEF(g2, NORM(axis1, dim)) && GHOST_DEF(g3, NORM(axis2, dim));
}
static inline int post_verif_swapaxes_to_transpose(unsigned long dim, int axis1, int axis2, sv_t ret)
{
  unsigned long a1 = NORM(axis1, dim), a2 = NORM(axis2, dim);
  return SV_LEN(ret) == dim && IMPLIES(g < dim, SV_AT(ret, g) == (g == a1 ? a2 : (g == a2 ? a1 : g)));
}
/* numpy.moveaxis(a, source, destination) (scalar axes) == transpose(a, order) with
 *   order = [n for n in range(ndim) if n != source]; order.insert(destination, source)      (numpy/core/numeric.py) */
#define MOVEAXIS_REST(j, s) ((j) < (s) ? (j) : (j) + 1UL)
#define MOVEAXIS_AT(k, s, d) ((k) == (d) ? (s) : MOVEAXIS_REST((k) < (d) ? (k) : (k) - 1UL, s))
static inline int pre_verif_moveaxis_to_transpose(sv_t shape, int source, int destination)
{ return SV_LEN(shape) <= CAP && GHOST_DEF(g2, g >= 1UL ? g - 1UL : 0UL); }
static inline int post_verif_moveaxis_to_transpose(sv_t shape, int source, int destination, opt_sv_t ret)
{
  unsigned long n = SV_LEN(shape);
  int ok = AXIS_OK(source, n) && AXIS_OK(destination, n);
  return (OPT_HAS(ret) != 0) == (ok != 0)
      && IMPLIES(ok, SV_LEN(OPT_VAL(ret)) == n
                  && IMPLIES(g < n, SV_AT(OPT_VAL(ret), g) == MOVEAXIS_AT(g, NORM(source, n), NORM(destination, n)) && SV_AT(OPT_VAL(ret), g) < n));
}
/* ------------------------------------------------------------------ moveaxis with axis LISTS
 * numpy.moveaxis(a, source, destination)   (numpy/core/numeric.py):
 *     source      = normalize_axis_tuple(source, a.ndim, 'source')            AxisError unless -ndim <= axis < ndim,
 *     destination = normalize_axis_tuple(destination, a.ndim, 'destination')  ValueError "repeated axis" on duplicates
 *     if len(source) != len(destination): raise ValueError
 *     order = [n for n in range(a.ndim) if n not in source]
 *     for dest, src in sorted(zip(destination, source)): order.insert(dest, src)
 *     return transpose(a, order)
 * The two helpers below are that text, executed on plain arrays (lists of at most CAP axes, rank at most CAP). */
static inline int np_axis_tuple_ok(const long *a, unsigned long m, unsigned long n)
{
  int ok = 1;
  for (unsigned long t = 0; t < CAP; t++)
    if (t < m && !AXIS_OK(a[t], n)) ok = 0;
  for (unsigned long t = 0; t < CAP; t++)
    for (unsigned long u = 0; u < CAP; u++)
      if (ok && t < u && u < m && NORM(a[t], n) == NORM(a[u], n)) ok = 0;      /* repeated axis */
  return ok;
}
/* element k of `order` (only meaningful when both tuples are accepted and have the same length m) */
static inline unsigned long np_moveaxis_at(unsigned long n, const long *S, const long *D, unsigned long m, unsigned long k)
{
  unsigned long order[CAP + 1UL];
  unsigned long len = 0UL, r = 0UL;
  for (unsigned long x = 0; x <= CAP; x++) order[x] = 0UL;
  /* order = [x for x in range(n) if x not in source] */
  for (unsigned long x = 0; x < CAP; x++)
    if (x < n) {
      int in = 0;
      for (unsigned long t = 0; t < CAP; t++)
        if (t < m && NORM(S[t], n) == x) in = 1;
      if (!in) {
        for (unsigned long j = 0; j <= CAP; j++)
          if (j == len) order[j] = x;                       /* append */
        len++;
      }
    }
  /* for dest, src in sorted(zip(destination, source)): order.insert(dest, src)
   * (the destinations are pairwise distinct, so the sorted pairs are met by visiting the destination values v in ascending order;
   *  at most one pair has destination v) */
  for (unsigned long v = 0; v < CAP; v++) {
    int hit = 0; unsigned long sv = 0UL;
    for (unsigned long t = 0; t < CAP; t++)
      if (t < m && NORM(D[t], n) == v) { hit = 1; sv = NORM(S[t], n); }
    if (hit) {
      unsigned long pos = v < len ? v : len;                /* list.insert clamps the position to len(list) */
      for (unsigned long j = CAP; j > 0UL; j--)
        if (j > pos && j <= len) order[j] = order[j - 1UL];
      for (unsigned long j = 0; j <= CAP; j++)
        if (j == pos) order[j] = sv;
      len++;
    }
  }
  for (unsigned long j = 0; j <= CAP; j++)
    if (j == k) r = order[j];
  return r;
}
/* the repeated-axis part of NumPy's validation alone (every entry in range, some normalised axis listed twice); moveaxis_*_repeated below were the
 * regions of the finding repaired by /repo b20b6ba (kept for reference, no longer excluded) */
static inline int np_axis_tuple_repeats(const long *a, unsigned long m, unsigned long n)
{
  int inrange = 1, rep = 0;
  for (unsigned long t = 0; t < CAP; t++)
    if (t < m && !AXIS_OK(a[t], n)) inrange = 0;
  for (unsigned long t = 0; t < CAP; t++)
    for (unsigned long u = 0; u < CAP; u++)
      if (inrange && t < u && u < m && NORM(a[t], n) == NORM(a[u], n)) rep = 1;
  return inrange && rep;
}
static inline int moveaxis_lists_post(unsigned long n, const long *S, unsigned long ms, const long *D, unsigned long md, opt_sv_t ret)
{
  int ok = np_axis_tuple_ok(S, ms, n) && np_axis_tuple_ok(D, md, n) && ms == md;
  return (OPT_HAS(ret) != 0) == (ok != 0)
      && IMPLIES(ok, SV_LEN(OPT_VAL(ret)) == n
                  && IMPLIES(g < n, SV_AT(OPT_VAL(ret), g) == np_moveaxis_at(n, S, D, ms, g) && SV_AT(OPT_VAL(ret), g) < n));
}
/* (a) lists of the fixed length 2 (nmtools_array<int,2>), rank 0..8 symbolic */
#define MV_L2(A, v) long A[CAP] = {0}; A[0] = ARR_AT(v, 0); A[1] = ARR_AT(v, 1)
static inline int pre_verif_moveaxis_to_transpose_l2(sv_t shape, ai2_t source, ai2_t destination)
{ return SV_LEN(shape) <= CAP; }
static inline int post_verif_moveaxis_to_transpose_l2(sv_t shape, ai2_t source, ai2_t destination, opt_sv_t ret)
{
  MV_L2(S, source); MV_L2(D, destination);
  return moveaxis_lists_post(SV_LEN(shape), S, 2UL, D, 2UL, ret);
}
static inline int moveaxis_l2_repeated(sv_t shape, ai2_t source, ai2_t destination)
{
  MV_L2(S, source); MV_L2(D, destination);
  unsigned long n = SV_LEN(shape);
  return n <= CAP && (np_axis_tuple_repeats(S, 2UL, n) || np_axis_tuple_repeats(D, 2UL, n))
      && AXIS_OK(S[0], n) && AXIS_OK(S[1], n) && AXIS_OK(D[0], n) && AXIS_OK(D[1], n);
}
/* (b) lists utl::static_vector<int,8> (length 0..8 symbolic), rank 0..8 symbolic */
/* bound of the bounded unit moveaxis_list.bounded (lists longer than this are not examined there) */
#define MV_LIST_BOUND 3UL
#define MV_LSV(A, v) long A[CAP] = {0}; for (unsigned long t_ = 0; t_ < CAP; t_++) if (t_ < SV_LEN(v)) A[t_] = SV_AT(v, t_)
static inline int pre_verif_moveaxis_to_transpose_list(sv_t shape, svi_t source, svi_t destination)
{ return SV_LEN(shape) <= CAP && SV_LEN(source) <= MV_LIST_BOUND && SV_LEN(destination) <= MV_LIST_BOUND; }
static inline int post_verif_moveaxis_to_transpose_list(sv_t shape, svi_t source, svi_t destination, opt_sv_t ret)
{
  MV_LSV(S, source); MV_LSV(D, destination);
  return moveaxis_lists_post(SV_LEN(shape), S, SV_LEN(source), D, SV_LEN(destination), ret);
}
static inline int moveaxis_list_repeated(sv_t shape, svi_t source, svi_t destination)
{
  MV_LSV(S, source); MV_LSV(D, destination);
  unsigned long n = SV_LEN(shape);
  if (!(n <= CAP && SV_LEN(source) <= CAP && SV_LEN(destination) == SV_LEN(source))) return 0;
  return (np_axis_tuple_repeats(S, SV_LEN(source), n) && axes_in_range(destination, n))
      || (np_axis_tuple_repeats(D, SV_LEN(destination), n) && axes_in_range(source, n));
}
/* loop-contract vocabulary of the list instantiations (expanded inside the instantiated functions only) */
#define MV2_CNT(i, a, b) (((a) < (i) ? 1UL : 0UL) + ((b) < (i) ? 1UL : 0UL))
#define MV2_LO(a, b) ((a) < (b) ? (a) : (b))
#define MV2_HI(a, b) ((a) < (b) ? (b) : (a))
/* j-th axis that is neither a nor b (a != b) */
#define MV2_REST(j, a, b) ((j) < MV2_LO(a, b) ? (j) : ((j) + 1UL < MV2_HI(a, b) ? (j) + 1UL : (j) + 2UL))
#define MV2_FILLED(k) (!((k) < (unsigned long)ii) || order.buffer.buffer[k] == MV2_REST(k, src.val._M_elems[0], src.val._M_elems[1]))
/* insert(pos,val,array): positions above i already hold their left neighbour's entry value, the others are untouched */
#define MV_SHIFTED(k) ((k) >= array->size_ || array->buffer.buffer[k] == ((k) > i ? __CPROVER_loop_entry(array->buffer.buffer[GIM1(k)]) : __CPROVER_loop_entry(array->buffer.buffer[k])))
/* ------------------------------------------------------------------ flip (rank 3): slice step -1 exactly on the normalised axes */
#define FLIP_STEP(ret, k) TUP_GET(ARR_AT(ret, k), 2)
static inline int pre_verif_flip_slices3(int axis) { return AXIS_OK(axis, 3UL); }
static inline int post_verif_flip_slices3(int axis, slices3_t ret)
{ return IMPLIES(g < 3UL, FLIP_STEP(ret, g) == (g == NORM(axis, 3UL) ? -1 : 1)); }
static inline int pre_verif_flip_slices3_none(void) { return 1; }
static inline int post_verif_flip_slices3_none(slices3_t ret)
{ return IMPLIES(g < 3UL, FLIP_STEP(ret, g) == -1); }
static inline int trace_FX(svi_t axes)
{
  int ok = 1;
  for (unsigned long k = 0; k < 3UL; k++) {
    ok = ok && GHOST_DEF(FX[k * 10UL], 0);
    for (unsigned long t = 0; t < CAP; t++)
      ok = ok && GHOST_DEF(FX[k * 10UL + t + 1UL], (FX[k * 10UL + t] || (t < SV_LEN(axes) && AXIS_OK(SV_AT(axes, t), 3UL) && NORM(SV_AT(axes, t), 3UL) == k)) ? 1 : 0);
  }
  return ok;
}
static inline int spec_axis_listed(svi_t axes, unsigned long n, unsigned long k)   /* k in {axes[t] mod n} */
{
  int r = 0;
  for (unsigned long t = 0; t < CAP; t++)
    if (t < SV_LEN(axes) && NORM(SV_AT(axes, t), n) == k) r = 1;
  return r;
}
/* some negative entry of axes names an axis that no non-negative entry names: flip_slices does not flip that axis */
static inline int flip_negative_axis_ignored(svi_t axes, unsigned long n)
{
  int r = 0;
  for (unsigned long t = 0; t < CAP; t++)
    if (t < SV_LEN(axes) && SV_AT(axes, t) < 0) {
      int named = 0;
      for (unsigned long u = 0; u < CAP; u++)
        if (u < SV_LEN(axes) && SV_AT(axes, u) >= 0 && (unsigned long)SV_AT(axes, u) == NORM(SV_AT(axes, t), n)) named = 1;
      if (!named) r = 1;
    }
  return r;
}
static inline int pre_verif_flip_slices3_axes(svi_t axes)
{ return SV_LEN(axes) <= CAP && axes_in_range(axes, 3UL) && trace_FX(axes); }
static inline int post_verif_flip_slices3_axes(svi_t axes, slices3_t ret)
{ return IMPLIES(g < 3UL, FLIP_STEP(ret, g) == (spec_axis_listed(axes, 3UL, g) ? -1 : 1)); }

/* guarded ghost positions for loop-entry snapshots */
#define GI(k) ((k) < CAP ? (k) : 0UL)
#define GIM1(k) (((k) >= 1UL && (k) <= CAP) ? (k) - 1UL : 0UL)

#define PDK(m) ((m) == 0UL ? 0UL : PD[m])
/* inputs on which `src_numel % dst_numel` is evaluated with dst_numel == 0 (reshape.hpp:130) */
#define RESHAPE_DIV0(src, dst) (CN[SV_LEN(dst)] <= 1 && PDK(SV_LEN(dst)) == 0UL && (CN[SV_LEN(dst)] == 1 || PS[SV_LEN(src)] == 0UL))
/* inputs with a negative extent (< -1) that shape_reshape nevertheless accepts */
#define RESHAPE_NEG_ACCEPTED(src, dst) (has_entry_lt(dst, -1) && CN[SV_LEN(dst)] <= 1 && PD[SV_LEN(dst)] != 0UL && \
    (CN[SV_LEN(dst)] == 0 ? PS[SV_LEN(src)] == PD[SV_LEN(dst)] : MOD_ul(PS[SV_LEN(src)], PD[SV_LEN(dst)]) == 0UL))
#endif
