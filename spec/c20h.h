/* C20 spec predicates, legacy hybrid_ndarray<float,6,2> (fixed dimension 2, at most 6 elements; state = buffer_, shape_, strides_).
 * Inv: product of the shape <= 6 (the elements live in the first product(shape) cells of buffer_) and strides_ are the
 * row-major strides of shape_.  resize: accepted => Inv and shape_ == argument; refused => the whole object unchanged. */
#include "spec/abi.h"
#define C20H_MAX 6UL

static inline unsigned long hy_prod(arr2_t s) { return MUL_ul(MUL_ul(1UL, ARR_AT(s, 0)), ARR_AT(s, 1)); }
static inline int hy_inv(hy_t a)
{ return hy_prod(a.shape_) <= C20H_MAX && ARR_AT(a.strides_, 0) == ARR_AT(a.shape_, 1) && ARR_AT(a.strides_, 1) == 1UL; }
static inline int hy_feq(float x, float y) { return x == y || (x != x && y != y); }
static inline int hy_same(hy_t x, hy_t y)
{
  int ok = ARR_AT(x.shape_, 0) == ARR_AT(y.shape_, 0) && ARR_AT(x.shape_, 1) == ARR_AT(y.shape_, 1)
        && ARR_AT(x.strides_, 0) == ARR_AT(y.strides_, 0) && ARR_AT(x.strides_, 1) == ARR_AT(y.strides_, 1);
  for (unsigned long t = 0; t < C20H_MAX; t++) ok = ok && hy_feq(ARR_AT(x.buffer_, t), ARR_AT(y.buffer_, t));
  return ok;
}

static inline int pre_verif_hy_default(void) { return 1; }
static inline int post_verif_hy_default(hy_t ret) { return hy_inv(ret); }

static inline int pre_verif_hy_resize(hy_t a, arr2_t new_shape) { return 1; }
static inline int post_verif_hy_resize(hy_t a, arr2_t new_shape, hy_res_t ret)
{
  if (ret.ok)
    return hy_inv(ret.a) && ARR_AT(ret.a.shape_, 0) == ARR_AT(new_shape, 0) && ARR_AT(ret.a.shape_, 1) == ARR_AT(new_shape, 1);
  return hy_same(ret.a, a);
}
static inline int pre_verif_hy_resize2(hy_t a, unsigned long n0, unsigned long n1) { return 1; }
static inline int post_verif_hy_resize2(hy_t a, unsigned long n0, unsigned long n1, hy_res_t ret)
{
  if (ret.ok)
    return hy_inv(ret.a) && ARR_AT(ret.a.shape_, 0) == n0 && ARR_AT(ret.a.shape_, 1) == n1;
  return hy_same(ret.a, a);
}
