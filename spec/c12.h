/* C12 spec: SIMD index enumerators (eval/simd/index/ufunc.hpp) and the packed-loop / scalar-tail partition.
 * Tags (eval/simd/index/common.hpp): PACKED=0 (N contiguous lanes at offset), PAD_k=k (N-k valid lanes at offset, k padded),
 * SCALAR=-2 / BROADCAST=-3 (one element at offset), ACCUMULATE=-1, ACCUMULATE_PACKED=-4, NOP=-999.
 * Arithmetic with the constant pack width N uses the C operators (bit-precise in every mode); products / quotients of two
 * symbolic extents go through MUL_ul / DIV_ul / MOD_ul (uninterpreted + axioms in mode 'uf'). */
#include "spec/abi.h"

#if defined(VERIF_UF) && !defined(VERIF_NATIVE)
/* mode 'uf' for this property: only products/quotients of two SYMBOLIC values are uninterpreted; an operation with a literal
 * operand (the pack width N: `out_cols / 4UL`, `simd_col * 4UL`) keeps the machine operator. */
static inline unsigned long c12_uf_mul(unsigned long a, unsigned long b) { return MUL_ul(a, b); }
static inline unsigned long c12_uf_div(unsigned long a, unsigned long b)
{ unsigned long q = DIV_ul(a, b); __CPROVER_assume(a < b || q >= 1UL); /* extra axiom (theorem for b != 0): a >= b ==> a / b >= 1 */ return q; }
static inline unsigned long c12_uf_mod(unsigned long a, unsigned long b) { return MOD_ul(a, b); }
#define MUL_ul(a, b) ((__builtin_constant_p(a) || __builtin_constant_p(b)) ? ((unsigned long)(a) * (unsigned long)(b)) : c12_uf_mul((a), (b)))
#define DIV_ul(a, b) (__builtin_constant_p(b) ? ((unsigned long)(a) / (unsigned long)(b)) : c12_uf_div((a), (b)))
#define MOD_ul(a, b) (__builtin_constant_p(b) ? ((unsigned long)(a) % (unsigned long)(b)) : c12_uf_mod((a), (b)))
#endif

/* extents of in-memory arrays: a row of n elements of >= 4 bytes each fits the address space, so n < 2^62; keeps `offset + N`
 * style comparisons of the code free of unsigned wrap-around */
#define C12_MAX_EXTENT 0x4000000000000000UL
#define C12_PACKED      0
#define C12_ACCUMULATE  (-1)
#define C12_SCALAR      (-2)
#define C12_BROADCAST   (-3)
#define C12_ACC_PACKED  (-4)
#define C12_NOP         (-999)

#define C12_TAG(t)  ((int)TUP_GET(t, 0))
#define C12_OFF(t)  ((unsigned long)TUP_GET(t, 1))
#define C12_R(s)    ARR_AT(s, 0)
#define C12_C(s)    ARR_AT(s, 1)

/* ---- one output row of C columns cut into items: C/N packed items of N lanes, then C%N scalar items of one lane */
#define C12_NP(C, N)        ((C) / (N))
#define C12_SCOLS(C, N)     ((C) / (N) + (C) % (N))
#define C12_START(sc, C, N) ((sc) < C12_NP(C, N) ? (sc) * (N) : C12_NP(C, N) * (N) + ((sc) - C12_NP(C, N)))
#define C12_WIDTH(sc, C, N) ((sc) < C12_NP(C, N) ? (N) : 1UL)
/* spec inverse: the item that covers column c (c < C), and the lane inside that item */
#define C12_ITEM_OF(c, C, N) ((c) < C12_NP(C, N) * (N) ? (c) / (N) : C12_NP(C, N) + ((c) - C12_NP(C, N) * (N)))
#define C12_LANE_OF(c, C, N) ((c) < C12_NP(C, N) * (N) ? (c) % (N) : 0UL)

/* ghost cells: position of item i in the simd grid (row SR, column SC) and the flat base RB of output row SR */
GHOST(unsigned long, SR)
GHOST(unsigned long, SC)
GHOST(unsigned long, RB)

/* ---- binary_2d_simd_shape: (out rows, C/N + C%N) */
static inline int c12_bcast2d(a2_t out_shape, a2_t lhs_shape, a2_t rhs_shape)
{
  /* what eval_binary (BROADCASTED_2D) establishes: out = numpy broadcast of two 2-d shapes */
  unsigned long R = C12_R(out_shape), C = C12_C(out_shape);
  return (C12_R(lhs_shape) == R || C12_R(lhs_shape) == 1UL) && (C12_R(rhs_shape) == R || C12_R(rhs_shape) == 1UL)
      && (C12_R(lhs_shape) == R || C12_R(rhs_shape) == R)
      && (C12_C(lhs_shape) == C || C12_C(lhs_shape) == 1UL) && (C12_C(rhs_shape) == C || C12_C(rhs_shape) == 1UL)
      && (C12_C(lhs_shape) == C || C12_C(rhs_shape) == C);
}
static inline int c12_b2d_shape_post(a2_t out_shape, a2_t ret, unsigned long N)
{ return C12_R(ret) == C12_R(out_shape) && C12_C(ret) == C12_SCOLS(C12_C(out_shape), N); }

/* ---- enumerator[i]: i < size()  <=>  i / simd_cols < rows  (simd_cols >= 1; lemmas/c12_c13.lean div_lt_iff) */
static inline int c12_b2d_pre(a2_t out_shape, a2_t lhs_shape, a2_t rhs_shape, unsigned long i, unsigned long N)
{
  unsigned long R = C12_R(out_shape), C = C12_C(out_shape);
  return c12_bcast2d(out_shape, lhs_shape, rhs_shape) && R >= 1UL && C >= 1UL && C <= C12_MAX_EXTENT
      && GHOST_DEF(SR, DIV_ul(i, C12_SCOLS(C, N))) && GHOST_DEF(SC, MOD_ul(i, C12_SCOLS(C, N))) && GHOST_DEF(RB, MUL_ul(SR, C))
      && SR < R;
}
/* operand of shape ps: which element(s) must item (SR,SC) read?  source of output element (r,c) = (pr==1 ? 0 : r, pc==1 ? 0 : c) */
static inline int c12_b2d_operand(a2_t out_shape, a2_t ps, tix_t t, unsigned long N)
{
  unsigned long C = C12_C(out_shape);
  unsigned long pr = C12_R(ps), pc = C12_C(ps);
  unsigned long rowbase = (pr == 1UL) ? 0UL : (pc == 1UL ? SR : RB);        /* source row * pc */
  unsigned long col = C12_START(SC, C, N);
  if (SC < C12_NP(C, N)) {                                                 /* N output lanes */
    if (pc == 1UL) return C12_TAG(t) == C12_BROADCAST && C12_OFF(t) == rowbase;                 /* same source for every lane */
    return C12_TAG(t) == C12_PACKED && C12_OFF(t) == rowbase + col && col + N <= pc;            /* lane l reads (row, col+l) */
  }
  return C12_TAG(t) == C12_SCALAR && C12_OFF(t) == rowbase + (pc == 1UL ? 0UL : col) && (pc == 1UL || col < pc);
}
static inline int c12_b2d_post(a2_t out_shape, a2_t lhs_shape, a2_t rhs_shape, unsigned long i, tix3_t ret, unsigned long N)
{
  unsigned long C = C12_C(out_shape);
  unsigned long col = C12_START(SC, C, N), w = C12_WIDTH(SC, C, N);
  int out_ok = C12_OFF(ARR_AT(ret, 0)) == RB + col && col + w <= C
            && C12_TAG(ARR_AT(ret, 0)) == (w == 1UL ? C12_SCALAR : C12_PACKED);
  return out_ok && c12_b2d_operand(out_shape, lhs_shape, ARR_AT(ret, 1), N) && c12_b2d_operand(out_shape, rhs_shape, ARR_AT(ret, 2), N);
}

/* N_ELEM_PACK = 4 */
static inline int pre_verif_binary_2d_shape_4(a2_t out_shape, a2_t lhs_shape, a2_t rhs_shape) { return c12_bcast2d(out_shape, lhs_shape, rhs_shape); }
static inline int post_verif_binary_2d_shape_4(a2_t out_shape, a2_t lhs_shape, a2_t rhs_shape, a2_t ret) { return c12_b2d_shape_post(out_shape, ret, 4UL); }
static inline int pre_verif_binary_2d_at_4(a2_t out_shape, a2_t lhs_shape, a2_t rhs_shape, unsigned long i) { return c12_b2d_pre(out_shape, lhs_shape, rhs_shape, i, 4UL); }
static inline int post_verif_binary_2d_at_4(a2_t out_shape, a2_t lhs_shape, a2_t rhs_shape, unsigned long i, tix3_t ret) { return c12_b2d_post(out_shape, lhs_shape, rhs_shape, i, ret, 4UL); }
static inline int pre_verif_binary_2d_size_4(a2_t out_shape, a2_t lhs_shape, a2_t rhs_shape) { return c12_bcast2d(out_shape, lhs_shape, rhs_shape); }
static inline int post_verif_binary_2d_size_4(a2_t out_shape, a2_t lhs_shape, a2_t rhs_shape, unsigned long ret) { return ret == MUL_ul(C12_R(out_shape), C12_SCOLS(C12_C(out_shape), 4UL)); }
/* N_ELEM_PACK = 8 */
static inline int pre_verif_binary_2d_shape_8(a2_t out_shape, a2_t lhs_shape, a2_t rhs_shape) { return c12_bcast2d(out_shape, lhs_shape, rhs_shape); }
static inline int post_verif_binary_2d_shape_8(a2_t out_shape, a2_t lhs_shape, a2_t rhs_shape, a2_t ret) { return c12_b2d_shape_post(out_shape, ret, 8UL); }
static inline int pre_verif_binary_2d_at_8(a2_t out_shape, a2_t lhs_shape, a2_t rhs_shape, unsigned long i) { return c12_b2d_pre(out_shape, lhs_shape, rhs_shape, i, 8UL); }
static inline int post_verif_binary_2d_at_8(a2_t out_shape, a2_t lhs_shape, a2_t rhs_shape, unsigned long i, tix3_t ret) { return c12_b2d_post(out_shape, lhs_shape, rhs_shape, i, ret, 8UL); }
static inline int pre_verif_binary_2d_size_8(a2_t out_shape, a2_t lhs_shape, a2_t rhs_shape) { return c12_bcast2d(out_shape, lhs_shape, rhs_shape); }
static inline int post_verif_binary_2d_size_8(a2_t out_shape, a2_t lhs_shape, a2_t rhs_shape, unsigned long ret) { return ret == MUL_ul(C12_R(out_shape), C12_SCOLS(C12_C(out_shape), 8UL)); }

/* known finding (see known_findings.json): an operand of shape (1,1) is addressed with the ROW index of the item although it has
 * a single element -> every item below the first simd row reads operand[row] out of bounds */
#define C12_IS_1x1(s) (C12_R(s) == 1UL && C12_C(s) == 1UL)
#define C12_B2D_OPERAND_1x1(out_shape, lhs_shape, rhs_shape, i, N) \
  ((C12_IS_1x1(lhs_shape) || C12_IS_1x1(rhs_shape)) && C12_R(out_shape) >= 2UL && (i) >= C12_SCOLS(C12_C(out_shape), N))

/* ---- exact cover of one row by the items (PACKED x C/N, then SCALAR x C%N): lemmas over the spec macros, all 64-bit C.
 *      items are adjacent, start at 0, the last one ends at C; ITEM_OF/LANE_OF is the two-sided inverse */
#ifndef VERIF_NATIVE
static inline int c12_row_cover(unsigned long C, unsigned long sc, unsigned long c, unsigned long N)
{
  if (C < 1UL) return 1;
  unsigned long scols = C12_SCOLS(C, N);
  int ok = scols >= 1UL && scols <= C && C12_START(0UL, C, N) == 0UL;
  if (sc < scols) {
    ok = ok && C12_START(sc, C, N) + C12_WIDTH(sc, C, N) <= C;                                        /* inside the row */
    if (sc + 1UL < scols) ok = ok && C12_START(sc + 1UL, C, N) == C12_START(sc, C, N) + C12_WIDTH(sc, C, N);   /* adjacent */
    else                  ok = ok && C12_START(sc, C, N) + C12_WIDTH(sc, C, N) == C;                           /* last ends the row */
  }
  if (c < C) {                                                                                         /* every column is covered ... */
    unsigned long it = C12_ITEM_OF(c, C, N), ln = C12_LANE_OF(c, C, N);
    ok = ok && it < scols && ln < C12_WIDTH(it, C, N) && C12_START(it, C, N) + ln == c;
    if (sc < scols && C12_START(sc, C, N) <= c && c < C12_START(sc, C, N) + C12_WIDTH(sc, C, N)) ok = ok && sc == it;   /* ... by exactly one item */
  }
  return ok;
}
static inline int lemma_row_cover_4(unsigned long C, unsigned long sc, unsigned long c) { return c12_row_cover(C, sc, c, 4UL); }
static inline int lemma_row_cover_8(unsigned long C, unsigned long sc, unsigned long c) { return c12_row_cover(C, sc, c, 8UL); }
#endif

/* ======== 2-d reductions ======== */
/* HORIZONTAL (reduce the last axis): row of n columns cut into ceil(n/N) items at sc*N; the last one is padded when n%N != 0 */
#define C12_HCOLS(n, N) ((n) / (N) + (((n) % (N)) ? 1UL : 0UL))
static inline int c12_red_h_shape_post(a2_t inp_shape, a2_t ret, unsigned long N)
{ return C12_R(ret) == C12_R(inp_shape) && C12_C(ret) == C12_HCOLS(C12_C(inp_shape), N); }
static inline int c12_red_v_shape_post(a2_t inp_shape, a2_t ret, unsigned long N)
{ return C12_R(ret) == C12_R(inp_shape) && C12_C(ret) == C12_SCOLS(C12_C(inp_shape), N); }
static inline int c12_red_h_pre(a2_t out_shape, a2_t inp_shape, unsigned long i, unsigned long N)
{
  unsigned long R = C12_R(inp_shape), n = C12_C(inp_shape);
  return R >= 1UL && n >= 1UL && n <= C12_MAX_EXTENT
      && GHOST_DEF(SR, DIV_ul(i, C12_HCOLS(n, N))) && GHOST_DEF(SC, MOD_ul(i, C12_HCOLS(n, N))) && GHOST_DEF(RB, MUL_ul(SR, n))
      && SR < R;
}
static inline int c12_red_h_post(a2_t out_shape, a2_t inp_shape, unsigned long i, tix2_t ret, unsigned long N)
{
  unsigned long n = C12_C(inp_shape), scols = C12_HCOLS(n, N);
  unsigned long col = SC * N;
  int last = (SC + 1UL == scols);
  int tag = C12_TAG(ARR_AT(ret, 1));
  /* output: the accumulator is stored to out[row] exactly at the last item of the row */
  int out_ok = C12_OFF(ARR_AT(ret, 0)) == SR && C12_TAG(ARR_AT(ret, 0)) == (last ? C12_ACCUMULATE : C12_NOP);
  /* input: PACKED = N lanes, PAD_k (1 <= k <= N-1, k <= 8) = N-k lanes; inside the row; the items tile the row */
  int tag_ok = tag == C12_PACKED || (tag >= 1 && tag <= (int)N - 1 && tag <= 8);
  unsigned long valid = (tag == C12_PACKED) ? N : N - (unsigned long)tag;
  int inp_ok = tag_ok && C12_OFF(ARR_AT(ret, 1)) == RB + col && col < n && col + valid <= n
            && (last ? col + valid == n : tag == C12_PACKED);
  return out_ok && inp_ok;
}
/* VERTICAL (reduce a leading axis; after regrouping: input (Ri, n), output (Ro, n), input row r accumulates into output row
 * r / (Ri / Ro)): each row is cut like a binary row (packed x n/N, scalar x n%N) */
GHOST(unsigned long, ORB)
static inline int c12_red_v_pre(a2_t out_shape, a2_t inp_shape, unsigned long i, unsigned long N)
{
  unsigned long Ri = C12_R(inp_shape), n = C12_C(inp_shape), Ro = C12_R(out_shape);
  return Ro >= 1UL && Ri >= Ro && n >= 1UL && n <= C12_MAX_EXTENT && C12_C(out_shape) == n
      && GHOST_DEF(SR, DIV_ul(i, C12_SCOLS(n, N))) && GHOST_DEF(SC, MOD_ul(i, C12_SCOLS(n, N))) && GHOST_DEF(RB, MUL_ul(SR, n))
      && GHOST_DEF(ORB, MUL_ul(DIV_ul(SR, DIV_ul(Ri, Ro)), n))
      && SR < Ri;
}
static inline int c12_red_v_post(a2_t out_shape, a2_t inp_shape, unsigned long i, tix2_t ret, unsigned long N)
{
  unsigned long n = C12_C(inp_shape);
  unsigned long col = C12_START(SC, n, N), w = C12_WIDTH(SC, n, N);
  return col + w <= n
      && C12_TAG(ARR_AT(ret, 0)) == (w == 1UL ? C12_ACCUMULATE : C12_ACC_PACKED) && C12_OFF(ARR_AT(ret, 0)) == ORB + col
      && C12_TAG(ARR_AT(ret, 1)) == (w == 1UL ? C12_SCALAR : C12_PACKED)         && C12_OFF(ARR_AT(ret, 1)) == RB + col;
}
/* N_ELEM_PACK = 4 */
static inline int pre_verif_reduction_h_shape_4(a2_t out_shape, a2_t inp_shape) { return 1; }
static inline int post_verif_reduction_h_shape_4(a2_t out_shape, a2_t inp_shape, a2_t ret) { return c12_red_h_shape_post(inp_shape, ret, 4UL); }
static inline int pre_verif_reduction_v_shape_4(a2_t out_shape, a2_t inp_shape) { return 1; }
static inline int post_verif_reduction_v_shape_4(a2_t out_shape, a2_t inp_shape, a2_t ret) { return c12_red_v_shape_post(inp_shape, ret, 4UL); }
static inline int pre_verif_reduction_h_at_4(a2_t out_shape, a2_t inp_shape, unsigned long i) { return c12_red_h_pre(out_shape, inp_shape, i, 4UL); }
static inline int post_verif_reduction_h_at_4(a2_t out_shape, a2_t inp_shape, unsigned long i, tix2_t ret) { return c12_red_h_post(out_shape, inp_shape, i, ret, 4UL); }
static inline int pre_verif_reduction_v_at_4(a2_t out_shape, a2_t inp_shape, unsigned long i) { return c12_red_v_pre(out_shape, inp_shape, i, 4UL); }
static inline int post_verif_reduction_v_at_4(a2_t out_shape, a2_t inp_shape, unsigned long i, tix2_t ret) { return c12_red_v_post(out_shape, inp_shape, i, ret, 4UL); }
/* N_ELEM_PACK = 8 */
static inline int pre_verif_reduction_h_shape_8(a2_t out_shape, a2_t inp_shape) { return 1; }
static inline int post_verif_reduction_h_shape_8(a2_t out_shape, a2_t inp_shape, a2_t ret) { return c12_red_h_shape_post(inp_shape, ret, 8UL); }
static inline int pre_verif_reduction_v_shape_8(a2_t out_shape, a2_t inp_shape) { return 1; }
static inline int post_verif_reduction_v_shape_8(a2_t out_shape, a2_t inp_shape, a2_t ret) { return c12_red_v_shape_post(inp_shape, ret, 8UL); }
static inline int pre_verif_reduction_h_at_8(a2_t out_shape, a2_t inp_shape, unsigned long i) { return c12_red_h_pre(out_shape, inp_shape, i, 8UL); }
static inline int post_verif_reduction_h_at_8(a2_t out_shape, a2_t inp_shape, unsigned long i, tix2_t ret) { return c12_red_h_post(out_shape, inp_shape, i, ret, 8UL); }
static inline int pre_verif_reduction_v_at_8(a2_t out_shape, a2_t inp_shape, unsigned long i) { return c12_red_v_pre(out_shape, inp_shape, i, 8UL); }
static inline int post_verif_reduction_v_at_8(a2_t out_shape, a2_t inp_shape, unsigned long i, tix2_t ret) { return c12_red_v_post(out_shape, inp_shape, i, ret, 8UL); }
static inline int pre_verif_reduction_h_size_4(a2_t out_shape, a2_t inp_shape) { return 1; }
static inline int post_verif_reduction_h_size_4(a2_t out_shape, a2_t inp_shape, unsigned long ret) { return ret == MUL_ul(C12_R(inp_shape), C12_HCOLS(C12_C(inp_shape), 4UL)); }

/* ---- reduction_nd_reshape: regroup an n-d shape into (rows, cols) around the reduction axis.
 *      HORIZONTAL: (prod shape[0..dim-2], shape[dim-1]);  VERTICAL(axis): (prod shape[0..axis], prod shape[axis+1..dim-1]);  dim == 1: (1, shape[0]) */
GHOST_ARR(unsigned long, PRE, 10)     /* PRE[j] = shape[0] * ... * shape[j-1] (left fold) */
GHOST_ARR(unsigned long, SUF, 10)     /* SUF[j] = product of shape[k] for axis < k < j */
static inline unsigned long c12_prod(sv_t shape, unsigned long lo, unsigned long hi)
{
  unsigned long p = 1UL;
  for (unsigned long j = 0; j < CAP; j++)
    if (j >= lo && j < hi) p = MUL_ul(p, SV_AT(shape, j));
  return p;
}
static inline int c12_trace_pre(sv_t shape)
{
  int ok = GHOST_DEF(PRE[0], 1UL);
  for (unsigned long j = 0; j < CAP; j++) ok = ok && GHOST_DEF(PRE[j + 1], MUL_ul(PRE[j], SV_AT(shape, j)));
  return ok;
}
static inline int c12_trace_suf(sv_t shape, int axis)
{
  int ok = GHOST_DEF(SUF[0], 1UL);
  for (unsigned long j = 0; j < CAP; j++) ok = ok && GHOST_DEF(SUF[j + 1], ((long)j <= (long)axis) ? 1UL : MUL_ul(SUF[j], SV_AT(shape, j)));
  return ok;
}
static inline int pre_verif_reduction_nd_reshape_h(sv_t inp_shape)
{ return SV_LEN(inp_shape) >= 1UL && SV_LEN(inp_shape) <= CAP && c12_trace_pre(inp_shape); }
static inline int post_verif_reduction_nd_reshape_h(sv_t inp_shape, a2_t ret)
{
  unsigned long d = SV_LEN(inp_shape);
  return C12_R(ret) == PRE[d - 1UL] && C12_R(ret) == c12_prod(inp_shape, 0UL, d - 1UL) && C12_C(ret) == SV_AT(inp_shape, d - 1UL);
}
static inline int pre_verif_reduction_nd_reshape_v(sv_t inp_shape, int axis)
{
  return SV_LEN(inp_shape) >= 1UL && SV_LEN(inp_shape) <= CAP && axis >= 0 && (unsigned long)axis < SV_LEN(inp_shape)
      && c12_trace_pre(inp_shape) && c12_trace_suf(inp_shape, axis);
}
static inline int post_verif_reduction_nd_reshape_v(sv_t inp_shape, int axis, a2_t ret)
{
  unsigned long d = SV_LEN(inp_shape);
  if (d == 1UL) return C12_R(ret) == 1UL && C12_C(ret) == SV_AT(inp_shape, 0);
  return C12_R(ret) == PRE[axis + 1] && C12_R(ret) == c12_prod(inp_shape, 0UL, (unsigned long)axis + 1UL)
      && C12_C(ret) == SUF[d]       && C12_C(ret) == c12_prod(inp_shape, (unsigned long)axis + 1UL, d);
}


/* ======== outer product, 1-d lhs (A) x 1-d rhs (B) -> out (A, B) ========
 * simd grid (A, ceil(B/N)); item (r, sc): out PACKED/PAD_k at r*B + sc*N, lhs BROADCAST at r, rhs with the same tag at sc*N */
static inline int c12_outer_ok(a2_t out_shape, a1_t lhs_shape, a1_t rhs_shape)
{ return ARR_AT(lhs_shape, 0) == C12_R(out_shape) && ARR_AT(rhs_shape, 0) == C12_C(out_shape); }
static inline int c12_outer_shape_post(a2_t out_shape, a2_t ret, unsigned long N)
{ return C12_R(ret) == C12_R(out_shape) && C12_C(ret) == C12_HCOLS(C12_C(out_shape), N); }
static inline int c12_outer_pre(a2_t out_shape, a1_t lhs_shape, a1_t rhs_shape, unsigned long i, unsigned long N)
{
  unsigned long A = C12_R(out_shape), B = C12_C(out_shape);
  return c12_outer_ok(out_shape, lhs_shape, rhs_shape) && A >= 1UL && B >= 1UL && B <= C12_MAX_EXTENT
      && GHOST_DEF(SR, DIV_ul(i, C12_HCOLS(B, N))) && GHOST_DEF(SC, MOD_ul(i, C12_HCOLS(B, N))) && GHOST_DEF(RB, MUL_ul(SR, B))
      && SR < A;
}
static inline int c12_outer_post(a2_t out_shape, a1_t lhs_shape, a1_t rhs_shape, unsigned long i, tix3_t ret, unsigned long N)
{
  unsigned long B = C12_C(out_shape), scols = C12_HCOLS(B, N);
  unsigned long col = SC * N;
  int last = (SC + 1UL == scols);
  int tag = C12_TAG(ARR_AT(ret, 0));
  int tag_ok = tag == C12_PACKED || (tag >= 1 && tag <= (int)N - 1 && tag <= 8);
  unsigned long valid = (tag == C12_PACKED) ? N : N - (unsigned long)tag;
  int out_ok = tag_ok && C12_OFF(ARR_AT(ret, 0)) == RB + col && col < B && col + valid <= B && (last ? col + valid == B : tag == C12_PACKED);
  int lhs_ok = C12_TAG(ARR_AT(ret, 1)) == C12_BROADCAST && C12_OFF(ARR_AT(ret, 1)) == SR;          /* lhs[r], r < A */
  int rhs_ok = C12_TAG(ARR_AT(ret, 2)) == tag && C12_OFF(ARR_AT(ret, 2)) == col;                   /* rhs[col .. col+valid) inside B */
  return out_ok && lhs_ok && rhs_ok;
}
static inline int pre_verif_outer_shape_4(a2_t out_shape, a1_t lhs_shape, a1_t rhs_shape) { return c12_outer_ok(out_shape, lhs_shape, rhs_shape); }
static inline int post_verif_outer_shape_4(a2_t out_shape, a1_t lhs_shape, a1_t rhs_shape, a2_t ret) { return c12_outer_shape_post(out_shape, ret, 4UL); }
static inline int pre_verif_outer_at_4(a2_t out_shape, a1_t lhs_shape, a1_t rhs_shape, unsigned long i) { return c12_outer_pre(out_shape, lhs_shape, rhs_shape, i, 4UL); }
static inline int post_verif_outer_at_4(a2_t out_shape, a1_t lhs_shape, a1_t rhs_shape, unsigned long i, tix3_t ret) { return c12_outer_post(out_shape, lhs_shape, rhs_shape, i, ret, 4UL); }
static inline int pre_verif_outer_shape_8(a2_t out_shape, a1_t lhs_shape, a1_t rhs_shape) { return c12_outer_ok(out_shape, lhs_shape, rhs_shape); }
static inline int post_verif_outer_shape_8(a2_t out_shape, a1_t lhs_shape, a1_t rhs_shape, a2_t ret) { return c12_outer_shape_post(out_shape, ret, 8UL); }
static inline int pre_verif_outer_at_8(a2_t out_shape, a1_t lhs_shape, a1_t rhs_shape, unsigned long i) { return c12_outer_pre(out_shape, lhs_shape, rhs_shape, i, 8UL); }
static inline int post_verif_outer_at_8(a2_t out_shape, a1_t lhs_shape, a1_t rhs_shape, unsigned long i, tix3_t ret) { return c12_outer_post(out_shape, lhs_shape, rhs_shape, i, ret, 8UL); }

/* ======== matmul inner steps (thorough tier): out element o = (o / out_cols, o % out_cols); step s reads lhs row and rhs^T row ======== */
GHOST(unsigned long, LB)
GHOST(unsigned long, RBM)
static inline int pre_verif_matmul_inner_size_4(a2_t out_shape, a2_t lhs_shape, a2_t rhs_shape, unsigned long out_offset) { return 1; }
static inline int post_verif_matmul_inner_size_4(a2_t out_shape, a2_t lhs_shape, a2_t rhs_shape, unsigned long out_offset, unsigned long ret)
{ return ret == C12_HCOLS(C12_C(lhs_shape), 4UL); }
static inline int pre_verif_matmul_inner_at_4(a2_t out_shape, a2_t lhs_shape, a2_t rhs_shape, unsigned long out_offset, unsigned long step)
{
  unsigned long K = C12_C(lhs_shape), oc = C12_C(out_shape);
  return K >= 1UL && K <= C12_MAX_EXTENT && oc >= 1UL && step < C12_HCOLS(K, 4UL)
      && GHOST_DEF(LB, MUL_ul(DIV_ul(out_offset, oc), K)) && GHOST_DEF(RBM, MUL_ul(MOD_ul(out_offset, oc), K));
}
static inline int post_verif_matmul_inner_at_4(a2_t out_shape, a2_t lhs_shape, a2_t rhs_shape, unsigned long out_offset, unsigned long step, tix3_t ret)
{
  unsigned long K = C12_C(lhs_shape), N = 4UL, col = step * 4UL;
  int last = (step + 1UL == C12_HCOLS(K, N));
  int tag = C12_TAG(ARR_AT(ret, 1));
  int tag_ok = tag == C12_PACKED || (tag >= 1 && tag <= (int)N - 1);
  unsigned long valid = (tag == C12_PACKED) ? N : N - (unsigned long)tag;
  return C12_TAG(ARR_AT(ret, 0)) == C12_SCALAR && C12_OFF(ARR_AT(ret, 0)) == out_offset
      && tag_ok && col < K && col + valid <= K && (last ? col + valid == K : tag == C12_PACKED)
      && C12_OFF(ARR_AT(ret, 1)) == LB + col
      && C12_TAG(ARR_AT(ret, 2)) == tag && C12_OFF(ARR_AT(ret, 2)) == RBM + col;
}
