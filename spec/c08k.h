/* C08 spec, concrete-geometry bounded units (inst/c08k.cpp): 2x3 int array a = data (row-major) */
#include "spec/abi.h"
static inline int c08k_small(ib6_t d)
{ int ok = SV_LEN(d) == 6UL; for (unsigned long t = 0; t < 6; t++) ok = ok && SV_AT(d, t) >= -100000 && SV_AT(d, t) <= 100000; return ok; }
static inline int pre_verif_reduce_add_all_initial(ib6_t data, int initial) { return c08k_small(data) && initial >= -100000 && initial <= 100000; }
static inline int post_verif_reduce_add_all_initial(ib6_t data, int initial, int ret)
{ return ret == initial + SV_AT(data, 0) + SV_AT(data, 1) + SV_AT(data, 2) + SV_AT(data, 3) + SV_AT(data, 4) + SV_AT(data, 5); }
static inline int pre_verif_reduce_add_axis0_initial(ib6_t data, int initial) { return c08k_small(data) && initial >= -100000 && initial <= 100000; }
static inline int post_verif_reduce_add_axis0_initial(ib6_t data, int initial, ib6_t ret)
{
  int ok = SV_LEN(ret) == 3UL;
  for (unsigned long j = 0; j < 3; j++) ok = ok && SV_AT(ret, j) == initial + SV_AT(data, j) + SV_AT(data, 3UL + j);
  return ok;
}
static inline int pre_verif_accumulate_add_dtype(cb4_t data) { return SV_LEN(data) == 4UL; }
static inline int post_verif_accumulate_add_dtype(cb4_t data, lb4_t ret)
{
  int ok = SV_LEN(ret) == 4UL; int acc = 0;
  for (unsigned long k = 0; k < 4; k++) { acc = acc + (int)SV_AT(data, k); ok = ok && SV_AT(ret, k) == acc; }
  return ok;
}
static inline int pre_verif_reduce_add_axes_initial(ib6_t data, int initial) { return pre_verif_reduce_add_all_initial(data, initial); }
static inline int post_verif_reduce_add_axes_initial(ib6_t data, int initial, int ret) { return post_verif_reduce_add_all_initial(data, initial, ret); }
