/* C04 spec, concatenate(axis=None): NumPy flattens both operands, so ANY two shapes are accepted (also of different rank) and the result
 * is 1-d with numel(a) + numel(b) elements.  Bounded: ranks <= 3, extents 1..6. */
#include "spec/abi.h"
static inline int c04n_small(sv_t s) { int ok = SV_LEN(s) <= 3UL; for (unsigned long t = 0; t < 3; t++) ok = ok && IMPLIES(t < SV_LEN(s), SV_AT(s, t) >= 1UL && SV_AT(s, t) <= 6UL); return ok; }
static inline unsigned long c04n_numel(sv_t s) { unsigned long p = 1; for (unsigned long t = 0; t < 3; t++) if (t < SV_LEN(s)) p = p * SV_AT(s, t); return p; }
static inline int pre_verif_shape_concatenate_none(sv_t ashape, sv_t bshape) { return c04n_small(ashape) && c04n_small(bshape); }
static inline int post_verif_shape_concatenate_none(sv_t ashape, sv_t bshape, cn_obs_t ret)
{ return ret.ok && ret.dim == 1UL && ret.extent0 == c04n_numel(ashape) + c04n_numel(bshape); }
