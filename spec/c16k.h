/* C16 spec, concrete-geometry bounded units (inst/c16k.cpp): NumPy definitions written out for the concrete shapes.
 * Float + and * are uninterpreted (unit mode 'fuf'): the sums are left folds over the contracted index starting from the first product
 * (how reduce_add without an initial value folds, C08).  Results are compared as values (NaN == NaN). */
#include "spec/abi.h"
#include "spec/mathuf.h"
#define A(a, b) FOP_add_f(a, b)
#define M(a, b) FOP_mul_f(a, b)
#ifdef VERIF_NATIVE
static inline int c16k_same(float a, float b) { if (a == b || (a != a && b != b)) return 1; float d = a - b; if (d < 0) d = -d; float m = a < 0 ? -a : a; float n = b < 0 ? -b : b; if (n > m) m = n; if (m < 1.0f) m = 1.0f; return d <= 1e-4f * m; }
#else
static inline int c16k_same(float a, float b) { return a == b || (a != a && b != b); }
#endif
/* outer of vectors (2), (3): out[i*3+j] = a[i] * b[j] */
static inline int pre_verif_outer_2_3(fb6_t a, fb6_t b) { return SV_LEN(a) == 6UL && SV_LEN(b) == 6UL; }
static inline int post_verif_outer_2_3(fb6_t a, fb6_t b, fb6_t ret)
{ int ok = SV_LEN(ret) == 6UL; for (unsigned long i = 0; i < 2; i++) for (unsigned long j = 0; j < 3; j++) ok = ok && c16k_same(SV_AT(ret, i * 3 + j), M(SV_AT(a, i), SV_AT(b, j))); return ok; }
#undef A
#undef M
