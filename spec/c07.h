/* C07 spec predicates (index side of the element-wise functions):
 *   shape of a ufunc view = NumPy broadcast shape of the operand shapes (rule reused from spec/c06.h);
 *   outer: shape(a) ++ shape(b), and the index is split at len(shape(a)). */
#include "spec/abi.h"
#if !defined(VERIF_NATIVE) && !defined(C07_BTO_STANDIN)
#define C07_BTO_STANDIN
/* C rendering only: spec/c06.h also declares the predicates of its own wrappers over opt_bto_t (result of shape_broadcast_to), a type
 * this TU does not instantiate. Those predicates are never called here; a layout-compatible stand-in lets the header parse. */
typedef struct { _Bool has; struct { sv_t e0; sv_t e1; } val; } opt_bto_t;
#endif
#define C06_NO_FIXED
#include "spec/c06.h"      /* spec_bcast_ok / spec_bcast_dim / spec_bcast_extent: the two-operand NumPy broadcast rule */
#ifndef C07_SPEC_H
#define C07_SPEC_H

GHOST(unsigned long, q)                 /* universally quantified position (spec/c06.h's own ghost is not used here) */
GHOST_ARR(unsigned long, PR, 10)        /* PR[j] = dst_shape[0] * ... * dst_shape[j-1] (left fold as in index::product) */

#define HN16_CAP 16UL

static inline int c07_same(sv_t a, sv_t b)
{
  if (SV_LEN(a) != SV_LEN(b)) return 0;
  int e = 1;
  for (unsigned long t = 0; t < CAP; t++) if (t < SV_LEN(a)) e = e && SV_AT(a, t) == SV_AT(b, t);
  return e;
}

/* ------------------------------------------------------------------ shape_ufunc
 * Call sites (view::ufunc_t's constructor, reached through view::ufunc / broadcast_binary_ufunc / unary_ufunc) hand in the shapes of
 * operands that view::broadcast_arrays has already broadcast against each other: all operands have one common shape.
 * For such operands the result must be that shape -- which is the NumPy broadcast shape of the operands (a shape broadcasts with
 * itself to itself: lemma.idempotent of C06, restated in the postcondition through spec_bcast_*).
 * For operand shapes that differ nothing is demanded here (no call site does that); memory safety is still checked for them. */
static inline int pre_verif_shape_ufunc1(sv_t a) { return SV_LEN(a) <= CAP; }
static inline int post_verif_shape_ufunc1(sv_t a, opt_sv_t ret)
{
  return OPT_HAS(ret) && SV_LEN(OPT_VAL(ret)) == SV_LEN(a) && IMPLIES(q < SV_LEN(a), SV_AT(OPT_VAL(ret), q) == SV_AT(a, q));
}
static inline int pre_verif_shape_ufunc2(sv_t a, sv_t b) { return SV_LEN(a) <= CAP && SV_LEN(b) <= CAP; }
static inline int post_verif_shape_ufunc2(sv_t a, sv_t b, opt_sv_t ret)
{
  if (!c07_same(a, b)) return 1;
  return OPT_HAS(ret) && spec_bcast_ok(a, b) && SV_LEN(OPT_VAL(ret)) == spec_bcast_dim(a, b)
      && IMPLIES(q < spec_bcast_dim(a, b), SV_AT(OPT_VAL(ret), q) == spec_bcast_extent(a, b, q) && SV_AT(OPT_VAL(ret), q) == SV_AT(a, q));
}
static inline int pre_verif_shape_ufunc3(sv_t a, sv_t b, sv_t d) { return SV_LEN(a) <= CAP && SV_LEN(b) <= CAP && SV_LEN(d) <= CAP; }
static inline int post_verif_shape_ufunc3(sv_t a, sv_t b, sv_t d, opt_sv_t ret)
{
  if (!(c07_same(a, b) && c07_same(a, d))) return 1;
  /* three operands: broadcast(broadcast(a,b),d) with a == b == d */
  return OPT_HAS(ret) && spec_bcast_ok(a, b) && spec_bcast_ok(a, d) && SV_LEN(OPT_VAL(ret)) == spec_bcast_dim(a, d)
      && IMPLIES(q < SV_LEN(a), SV_AT(OPT_VAL(ret), q) == spec_bcast_extent(a, b, q) && SV_AT(OPT_VAL(ret), q) == spec_bcast_extent(a, d, q));
}

/* the shape chain of view::ufunc(op, a, b): Nothing iff the operands are not broadcastable; else exactly the NumPy broadcast shape */
static inline int pre_verif_ufunc_shape(sv_t a, sv_t b) { return SV_LEN(a) <= CAP && SV_LEN(b) <= CAP; }
static inline int post_verif_ufunc_shape(sv_t a, sv_t b, opt_hn_t ret)
{
  /* Nothing only if some axis is incompatible; a value only if every axis q is compatible (q universally quantified) */
  if (!OPT_HAS(ret)) return !spec_bcast_ok(a, b);
  return HN_LEN(OPT_VAL(ret)) == spec_bcast_dim(a, b)
      && IMPLIES(q < spec_bcast_dim(a, b), spec_bcast_compat(a, b, q) && HN_AT(OPT_VAL(ret), q) == spec_bcast_extent(a, b, q));
}

/* size_ufunc: number of elements of the ufunc view = product of the result extents */
static inline unsigned long c07_prod(sv_t s)
{
  unsigned long p = 1UL;
  for (unsigned long j = 0; j < CAP; j++) if (j < SV_LEN(s)) p = MUL_ul(p, SV_AT(s, j));
  return p;
}
static inline int pre_verif_size_ufunc(sv_t dst_shape, unsigned long a_size, unsigned long b_size)
{
  int ok = SV_LEN(dst_shape) <= CAP && GHOST_DEF(PR[0], 1UL);
  for (unsigned long j = 0; j < CAP; j++) ok = ok && GHOST_DEF(PR[j + 1], MUL_ul(PR[j], SV_AT(dst_shape, j)));
  return ok;
}
static inline int post_verif_size_ufunc(sv_t dst_shape, unsigned long a_size, unsigned long b_size, unsigned long ret)
{ return ret == PR[SV_LEN(dst_shape)] && ret == c07_prod(dst_shape); }

/* ------------------------------------------------------------------ outer: shape(a) ++ shape(b) */
static inline int pre_verif_shape_outer(sv_t a, sv_t b) { return SV_LEN(a) <= CAP && SV_LEN(b) <= CAP; }
static inline int post_verif_shape_outer(sv_t a, sv_t b, hn16_t ret)
{
  return HN_LEN(ret) == SV_LEN(a) + SV_LEN(b)
      && IMPLIES(q < SV_LEN(a), HN_AT(ret, q) == SV_AT(a, q))
      && IMPLIES(q < SV_LEN(b), HN_AT(ret, SV_LEN(a) + q) == SV_AT(b, q));
}
/* size of the outer view = size(a) * size(b) */
static inline int pre_verif_size_outer(hn16_t dst_shape, unsigned long a_size, unsigned long b_size) { return HN_LEN(dst_shape) <= HN16_CAP; }
static inline int post_verif_size_outer(hn16_t dst_shape, unsigned long a_size, unsigned long b_size, unsigned long ret)
{ return ret == MUL_ul(a_size, b_size); }
/* index::outer: element (i ++ j) of the outer view reads a[i] and b[j]: the index is split at len(shape(a)) */
static inline int pre_verif_outer(hn16_t idx, sv_t ashape, sv_t bshape)
{ return SV_LEN(ashape) <= CAP && SV_LEN(bshape) <= CAP && HN_LEN(idx) == SV_LEN(ashape) + SV_LEN(bshape); }
static inline int post_verif_outer(hn16_t idx, sv_t ashape, sv_t bshape, split_t ret)
{
  return SV_LEN(TUP_GET(ret, 0)) == SV_LEN(ashape) && SV_LEN(TUP_GET(ret, 1)) == SV_LEN(bshape)
      && IMPLIES(q < SV_LEN(ashape), SV_AT(TUP_GET(ret, 0), q) == HN_AT(idx, q))
      && IMPLIES(q < SV_LEN(bshape), SV_AT(TUP_GET(ret, 1), q) == HN_AT(idx, SV_LEN(ashape) + q));
}
#endif
