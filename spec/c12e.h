/* C12 spec, evaluator part: evaluator_t<view, simd_base_t<tag>>::eval_unary -- packed loop + scalar tail -- over abstract operands
 * (inst/c12e.cpp): input / output are 1-d arrays of n <= 32 floats, a pack is N lanes moved by N checked element accesses, the
 * scalar operation is op(x) = -x applied lane by lane (packed loop) or element by element (tail). */
#include "spec/abi.h"
#define ECAP 32UL
GHOST(unsigned long, g)               /* universally quantified element position */
GHOST_ARR(float, EXPV, 32)            /* EXPV[k] = op(inp[k]): what scalar evaluation yields at k */
GHOST_ARR(float, OLDV, 32)            /* OLDV[k] = out[k] before the call */
#define C12E_OP(x) (-(x))

static inline int c12e_pre(verif_arr_t inp, verif_arr_t out)
{
  int ok = inp.n <= ECAP && out.n <= ECAP;
  for (unsigned long k = 0; k < ECAP; k++) {
    ok = ok && inp.buf[k] == inp.buf[k] && out.buf[k] == out.buf[k];      /* no NaN payloads: float equality below is exact */
    ok = ok && GHOST_DEF(EXPV[k], C12E_OP(inp.buf[k])) && GHOST_DEF(OLDV[k], out.buf[k]);
  }
  return ok;
}
/* same shape: every element k < n equals the scalar result op(inp[k]); nothing beyond the n elements is written; the size field
 * is untouched.  different shape: refused (false), output untouched. */
static inline int c12e_post(verif_arr_t inp, verif_arr_t out, verif_eval_res_t ret)
{
  if (ret.out.n != out.n) return 0;
  if (inp.n != out.n) return !ret.ok && IMPLIES(g < ECAP, ret.out.buf[g] == OLDV[g]);
  return ret.ok && IMPLIES(g < out.n, ret.out.buf[g] == EXPV[g] && ret.out.buf[g] == C12E_OP(inp.buf[g]))
                && IMPLIES(g >= out.n && g < ECAP, ret.out.buf[g] == OLDV[g]);
}
static inline int pre_verif_eval_unary_4(verif_arr_t inp, verif_arr_t out) { return c12e_pre(inp, out); }
static inline int post_verif_eval_unary_4(verif_arr_t inp, verif_arr_t out, verif_eval_res_t ret) { return c12e_post(inp, out, ret); }
static inline int pre_verif_eval_unary_8(verif_arr_t inp, verif_arr_t out) { return c12e_pre(inp, out); }
static inline int post_verif_eval_unary_8(verif_arr_t inp, verif_arr_t out, verif_eval_res_t ret) { return c12e_post(inp, out, ret); }
