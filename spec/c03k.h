/* C03 spec, concrete-geometry bounded units (inst/c03k.cpp): shape of the view and, for every position k of its C-order enumeration, the
 * position of the source element NumPy yields there (tables computed with the NumPy definitions for the concrete geometry). */
#include "spec/abi.h"
static inline int c03k_check(ib6_t d, rk_obs_t r, unsigned long n, unsigned long s0, unsigned long s1, unsigned long s2, unsigned long p0, unsigned long p1, unsigned long p2, unsigned long p3, unsigned long p4, unsigned long p5)
{
  unsigned long sh[3] = {s0, s1, s2}; unsigned long p[6] = {p0, p1, p2, p3, p4, p5};
  int ok = SV_LEN(r.shape) == n && SV_LEN(r.elems) == 6UL;
  for (unsigned long t = 0; t < 3; t++) ok = ok && IMPLIES(t < n, SV_AT(r.shape, t) == sh[t]);
  for (unsigned long k = 0; k < 6; k++) ok = ok && SV_AT(r.elems, k) == SV_AT(d, p[k]);
  return ok;
}
static inline int pre_verif_k_transpose_axes(ib6_t d) { return SV_LEN(d) == 6UL; }
static inline int post_verif_k_transpose_axes(ib6_t d, rk_obs_t ret) { return c03k_check(d, ret, 3UL, 3UL, 1UL, 2UL, 0UL, 3UL, 1UL, 4UL, 2UL, 5UL); }
static inline int pre_verif_k_swapaxes(ib6_t d) { return SV_LEN(d) == 6UL; }
static inline int post_verif_k_swapaxes(ib6_t d, rk_obs_t ret) { return c03k_check(d, ret, 3UL, 3UL, 2UL, 1UL, 0UL, 3UL, 1UL, 4UL, 2UL, 5UL); }
static inline int pre_verif_k_moveaxis(ib6_t d) { return SV_LEN(d) == 6UL; }
static inline int post_verif_k_moveaxis(ib6_t d, rk_obs_t ret) { return c03k_check(d, ret, 3UL, 3UL, 1UL, 2UL, 0UL, 3UL, 1UL, 4UL, 2UL, 5UL); }
static inline int pre_verif_k_expand_dims(ib6_t d) { return SV_LEN(d) == 6UL; }
static inline int post_verif_k_expand_dims(ib6_t d, rk_obs_t ret) { return c03k_check(d, ret, 3UL, 2UL, 1UL, 3UL, 0UL, 1UL, 2UL, 3UL, 4UL, 5UL); }
static inline int pre_verif_k_squeeze(ib6_t d) { return SV_LEN(d) == 6UL; }
static inline int post_verif_k_squeeze(ib6_t d, rk_obs_t ret) { return c03k_check(d, ret, 2UL, 2UL, 3UL, 0UL, 0UL, 1UL, 2UL, 3UL, 4UL, 5UL); }
static inline int pre_verif_k_flatten(ib6_t d) { return SV_LEN(d) == 6UL; }
static inline int post_verif_k_flatten(ib6_t d, rk_obs_t ret) { return c03k_check(d, ret, 1UL, 6UL, 0UL, 0UL, 0UL, 3UL, 1UL, 4UL, 2UL, 5UL); }
static inline int pre_verif_k_flip_axis(ib6_t d) { return SV_LEN(d) == 6UL; }
static inline int post_verif_k_flip_axis(ib6_t d, rk_obs_t ret) { return c03k_check(d, ret, 2UL, 2UL, 3UL, 0UL, 3UL, 4UL, 5UL, 0UL, 1UL, 2UL); }
static inline int pre_verif_k_flip_none(ib6_t d) { return SV_LEN(d) == 6UL; }
static inline int post_verif_k_flip_none(ib6_t d, rk_obs_t ret) { return c03k_check(d, ret, 2UL, 2UL, 3UL, 0UL, 5UL, 4UL, 3UL, 2UL, 1UL, 0UL); }
static inline int pre_verif_k_reshape(ib6_t d) { return SV_LEN(d) == 6UL; }
static inline int post_verif_k_reshape(ib6_t d, rk_obs_t ret) { return c03k_check(d, ret, 2UL, 3UL, 2UL, 0UL, 0UL, 1UL, 2UL, 3UL, 4UL, 5UL); }
/* expand_dims with the axis list (-1,-2) of a (2,3) array: NumPy normalises list entries against ndim + len(axes) -> (2,3,1,1) */
static inline int pre_verif_k_expand_dims_list(ib6_t d) { return SV_LEN(d) == 6UL; }
static inline int post_verif_k_expand_dims_list(ib6_t d, rk_obs_t ret)
{
  int ok = SV_LEN(ret.shape) == 4UL && SV_AT(ret.shape, 0) == 2UL && SV_AT(ret.shape, 1) == 3UL && SV_AT(ret.shape, 2) == 1UL && SV_AT(ret.shape, 3) == 1UL && SV_LEN(ret.elems) == 6UL;
  for (unsigned long k = 0; k < 6; k++) ok = ok && SV_AT(ret.elems, k) == SV_AT(d, k);
  return ok;
}
