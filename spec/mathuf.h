/* Math functions of <cmath> as seen by the verifier: UNINTERPRETED functions (only x == y ==> f(x) == f(y) is known) in the CBMC
 * build, the real libm functions in the native builds (replay: VERIF_NATIVE, translation validation: VERIF_NATIVE_C).
 * Used by the generated C (cxx2c renders std::exp(x) as VERIF_M_expf(x) / VERIF_M_exp(x)) and by spec headers, so that a reference
 * formula and the code agree iff they apply the same functions to the same arguments in the same float operations. */
#ifndef VERIF_MATHUF_H
#define VERIF_MATHUF_H
#if defined(VERIF_NATIVE) || defined(VERIF_NATIVE_C)
#include <math.h>
#define VERIF_M_expf expf
#define VERIF_M_exp exp
#define VERIF_M_logf logf
#define VERIF_M_log log
#define VERIF_M_cosf cosf
#define VERIF_M_cos cos
#define VERIF_M_sinf sinf
#define VERIF_M_sin sin
#define VERIF_M_tanf tanf
#define VERIF_M_tan tan
#define VERIF_M_coshf coshf
#define VERIF_M_cosh cosh
#define VERIF_M_sinhf sinhf
#define VERIF_M_sinh sinh
#define VERIF_M_tanhf tanhf
#define VERIF_M_tanh tanh
#define VERIF_M_exp2f exp2f
#define VERIF_M_exp2 exp2
#define VERIF_M_acosf acosf
#define VERIF_M_acos acos
#define VERIF_M_asinf asinf
#define VERIF_M_asin asin
#define VERIF_M_atanf atanf
#define VERIF_M_atan atan
#define VERIF_M_rintf rintf
#define VERIF_M_rint rint
#define VERIF_M_log2f log2f
#define VERIF_M_log2 log2
#define VERIF_M_sqrtf sqrtf
#define VERIF_M_sqrt sqrt
#define VERIF_M_cbrtf cbrtf
#define VERIF_M_cbrt cbrt
#define VERIF_M_ceilf ceilf
#define VERIF_M_ceil ceil
#define VERIF_M_truncf truncf
#define VERIF_M_trunc trunc
#define VERIF_M_floorf floorf
#define VERIF_M_floor floor
#define VERIF_M_atanhf atanhf
#define VERIF_M_atanh atanh
#define VERIF_M_acoshf acoshf
#define VERIF_M_acosh acosh
#define VERIF_M_asinhf asinhf
#define VERIF_M_asinh asinh
#define VERIF_M_expm1f expm1f
#define VERIF_M_expm1 expm1
#define VERIF_M_log1pf log1pf
#define VERIF_M_log1p log1p
#define VERIF_M_log10f log10f
#define VERIF_M_log10 log10
#define VERIF_M_powf powf
#define VERIF_M_pow pow
#define VERIF_M_fmodf fmodf
#define VERIF_M_fmod fmod
#define VERIF_M_atan2f atan2f
#define VERIF_M_atan2 atan2
#define VERIF_M_hypotf hypotf
#define VERIF_M_hypot hypot
#define VERIF_M_fmaxf fmaxf
#define VERIF_M_fmax fmax
#define VERIF_M_fminf fminf
#define VERIF_M_fmin fmin
#define VERIF_M_fabsf fabsf
#define VERIF_M_fabs fabs
#else
float __CPROVER_uninterpreted_m_expf(float); double __CPROVER_uninterpreted_m_exp(double);
#define VERIF_M_expf(x) __CPROVER_uninterpreted_m_expf(x)
#define VERIF_M_exp(x) __CPROVER_uninterpreted_m_exp(x)
float __CPROVER_uninterpreted_m_logf(float); double __CPROVER_uninterpreted_m_log(double);
#define VERIF_M_logf(x) __CPROVER_uninterpreted_m_logf(x)
#define VERIF_M_log(x) __CPROVER_uninterpreted_m_log(x)
float __CPROVER_uninterpreted_m_cosf(float); double __CPROVER_uninterpreted_m_cos(double);
#define VERIF_M_cosf(x) __CPROVER_uninterpreted_m_cosf(x)
#define VERIF_M_cos(x) __CPROVER_uninterpreted_m_cos(x)
float __CPROVER_uninterpreted_m_sinf(float); double __CPROVER_uninterpreted_m_sin(double);
#define VERIF_M_sinf(x) __CPROVER_uninterpreted_m_sinf(x)
#define VERIF_M_sin(x) __CPROVER_uninterpreted_m_sin(x)
float __CPROVER_uninterpreted_m_tanf(float); double __CPROVER_uninterpreted_m_tan(double);
#define VERIF_M_tanf(x) __CPROVER_uninterpreted_m_tanf(x)
#define VERIF_M_tan(x) __CPROVER_uninterpreted_m_tan(x)
float __CPROVER_uninterpreted_m_coshf(float); double __CPROVER_uninterpreted_m_cosh(double);
#define VERIF_M_coshf(x) __CPROVER_uninterpreted_m_coshf(x)
#define VERIF_M_cosh(x) __CPROVER_uninterpreted_m_cosh(x)
float __CPROVER_uninterpreted_m_sinhf(float); double __CPROVER_uninterpreted_m_sinh(double);
#define VERIF_M_sinhf(x) __CPROVER_uninterpreted_m_sinhf(x)
#define VERIF_M_sinh(x) __CPROVER_uninterpreted_m_sinh(x)
float __CPROVER_uninterpreted_m_tanhf(float); double __CPROVER_uninterpreted_m_tanh(double);
#define VERIF_M_tanhf(x) __CPROVER_uninterpreted_m_tanhf(x)
#define VERIF_M_tanh(x) __CPROVER_uninterpreted_m_tanh(x)
float __CPROVER_uninterpreted_m_exp2f(float); double __CPROVER_uninterpreted_m_exp2(double);
#define VERIF_M_exp2f(x) __CPROVER_uninterpreted_m_exp2f(x)
#define VERIF_M_exp2(x) __CPROVER_uninterpreted_m_exp2(x)
float __CPROVER_uninterpreted_m_acosf(float); double __CPROVER_uninterpreted_m_acos(double);
#define VERIF_M_acosf(x) __CPROVER_uninterpreted_m_acosf(x)
#define VERIF_M_acos(x) __CPROVER_uninterpreted_m_acos(x)
float __CPROVER_uninterpreted_m_asinf(float); double __CPROVER_uninterpreted_m_asin(double);
#define VERIF_M_asinf(x) __CPROVER_uninterpreted_m_asinf(x)
#define VERIF_M_asin(x) __CPROVER_uninterpreted_m_asin(x)
float __CPROVER_uninterpreted_m_atanf(float); double __CPROVER_uninterpreted_m_atan(double);
#define VERIF_M_atanf(x) __CPROVER_uninterpreted_m_atanf(x)
#define VERIF_M_atan(x) __CPROVER_uninterpreted_m_atan(x)
float __CPROVER_uninterpreted_m_rintf(float); double __CPROVER_uninterpreted_m_rint(double);
#define VERIF_M_rintf(x) __CPROVER_uninterpreted_m_rintf(x)
#define VERIF_M_rint(x) __CPROVER_uninterpreted_m_rint(x)
float __CPROVER_uninterpreted_m_log2f(float); double __CPROVER_uninterpreted_m_log2(double);
#define VERIF_M_log2f(x) __CPROVER_uninterpreted_m_log2f(x)
#define VERIF_M_log2(x) __CPROVER_uninterpreted_m_log2(x)
float __CPROVER_uninterpreted_m_sqrtf(float); double __CPROVER_uninterpreted_m_sqrt(double);
#define VERIF_M_sqrtf(x) __CPROVER_uninterpreted_m_sqrtf(x)
#define VERIF_M_sqrt(x) __CPROVER_uninterpreted_m_sqrt(x)
float __CPROVER_uninterpreted_m_cbrtf(float); double __CPROVER_uninterpreted_m_cbrt(double);
#define VERIF_M_cbrtf(x) __CPROVER_uninterpreted_m_cbrtf(x)
#define VERIF_M_cbrt(x) __CPROVER_uninterpreted_m_cbrt(x)
float __CPROVER_uninterpreted_m_ceilf(float); double __CPROVER_uninterpreted_m_ceil(double);
#define VERIF_M_ceilf(x) __CPROVER_uninterpreted_m_ceilf(x)
#define VERIF_M_ceil(x) __CPROVER_uninterpreted_m_ceil(x)
float __CPROVER_uninterpreted_m_truncf(float); double __CPROVER_uninterpreted_m_trunc(double);
#define VERIF_M_truncf(x) __CPROVER_uninterpreted_m_truncf(x)
#define VERIF_M_trunc(x) __CPROVER_uninterpreted_m_trunc(x)
float __CPROVER_uninterpreted_m_floorf(float); double __CPROVER_uninterpreted_m_floor(double);
#define VERIF_M_floorf(x) __CPROVER_uninterpreted_m_floorf(x)
#define VERIF_M_floor(x) __CPROVER_uninterpreted_m_floor(x)
float __CPROVER_uninterpreted_m_atanhf(float); double __CPROVER_uninterpreted_m_atanh(double);
#define VERIF_M_atanhf(x) __CPROVER_uninterpreted_m_atanhf(x)
#define VERIF_M_atanh(x) __CPROVER_uninterpreted_m_atanh(x)
float __CPROVER_uninterpreted_m_acoshf(float); double __CPROVER_uninterpreted_m_acosh(double);
#define VERIF_M_acoshf(x) __CPROVER_uninterpreted_m_acoshf(x)
#define VERIF_M_acosh(x) __CPROVER_uninterpreted_m_acosh(x)
float __CPROVER_uninterpreted_m_asinhf(float); double __CPROVER_uninterpreted_m_asinh(double);
#define VERIF_M_asinhf(x) __CPROVER_uninterpreted_m_asinhf(x)
#define VERIF_M_asinh(x) __CPROVER_uninterpreted_m_asinh(x)
float __CPROVER_uninterpreted_m_expm1f(float); double __CPROVER_uninterpreted_m_expm1(double);
#define VERIF_M_expm1f(x) __CPROVER_uninterpreted_m_expm1f(x)
#define VERIF_M_expm1(x) __CPROVER_uninterpreted_m_expm1(x)
float __CPROVER_uninterpreted_m_log1pf(float); double __CPROVER_uninterpreted_m_log1p(double);
#define VERIF_M_log1pf(x) __CPROVER_uninterpreted_m_log1pf(x)
#define VERIF_M_log1p(x) __CPROVER_uninterpreted_m_log1p(x)
float __CPROVER_uninterpreted_m_log10f(float); double __CPROVER_uninterpreted_m_log10(double);
#define VERIF_M_log10f(x) __CPROVER_uninterpreted_m_log10f(x)
#define VERIF_M_log10(x) __CPROVER_uninterpreted_m_log10(x)
float __CPROVER_uninterpreted_m_powf(float, float); double __CPROVER_uninterpreted_m_pow(double, double);
#define VERIF_M_powf(x, y) __CPROVER_uninterpreted_m_powf(x, y)
#define VERIF_M_pow(x, y) __CPROVER_uninterpreted_m_pow(x, y)
float __CPROVER_uninterpreted_m_fmodf(float, float); double __CPROVER_uninterpreted_m_fmod(double, double);
#define VERIF_M_fmodf(x, y) __CPROVER_uninterpreted_m_fmodf(x, y)
#define VERIF_M_fmod(x, y) __CPROVER_uninterpreted_m_fmod(x, y)
float __CPROVER_uninterpreted_m_atan2f(float, float); double __CPROVER_uninterpreted_m_atan2(double, double);
#define VERIF_M_atan2f(x, y) __CPROVER_uninterpreted_m_atan2f(x, y)
#define VERIF_M_atan2(x, y) __CPROVER_uninterpreted_m_atan2(x, y)
float __CPROVER_uninterpreted_m_hypotf(float, float); double __CPROVER_uninterpreted_m_hypot(double, double);
#define VERIF_M_hypotf(x, y) __CPROVER_uninterpreted_m_hypotf(x, y)
#define VERIF_M_hypot(x, y) __CPROVER_uninterpreted_m_hypot(x, y)
float __CPROVER_uninterpreted_m_fmaxf(float, float); double __CPROVER_uninterpreted_m_fmax(double, double);
#define VERIF_M_fmaxf(x, y) __CPROVER_uninterpreted_m_fmaxf(x, y)
#define VERIF_M_fmax(x, y) __CPROVER_uninterpreted_m_fmax(x, y)
float __CPROVER_uninterpreted_m_fminf(float, float); double __CPROVER_uninterpreted_m_fmin(double, double);
#define VERIF_M_fminf(x, y) __CPROVER_uninterpreted_m_fminf(x, y)
#define VERIF_M_fmin(x, y) __CPROVER_uninterpreted_m_fmin(x, y)
#define VERIF_M_fabsf(x) __CPROVER_fabsf(x)
#define VERIF_M_fabs(x) __CPROVER_fabs(x)
#endif
/* float arithmetic of the code and of reference formulas: the C operators, or (VERIF_FUF, unit mode 'fuf') uninterpreted functions, so
 * that agreement of a functor with its reference formula is decided structurally instead of by comparing two float circuits */
#if defined(VERIF_FUF) && !defined(VERIF_NATIVE) && !defined(VERIF_NATIVE_C)
float __CPROVER_uninterpreted_fadd_f(float, float); float __CPROVER_uninterpreted_fsub_f(float, float);
float __CPROVER_uninterpreted_fmul_f(float, float); float __CPROVER_uninterpreted_fdiv_f(float, float);
double __CPROVER_uninterpreted_fadd_d(double, double); double __CPROVER_uninterpreted_fsub_d(double, double);
double __CPROVER_uninterpreted_fmul_d(double, double); double __CPROVER_uninterpreted_fdiv_d(double, double);
#define FOP_add_f(a, b) __CPROVER_uninterpreted_fadd_f(a, b)
#define FOP_sub_f(a, b) __CPROVER_uninterpreted_fsub_f(a, b)
#define FOP_mul_f(a, b) __CPROVER_uninterpreted_fmul_f(a, b)
#define FOP_div_f(a, b) __CPROVER_uninterpreted_fdiv_f(a, b)
#define FOP_add_d(a, b) __CPROVER_uninterpreted_fadd_d(a, b)
#define FOP_sub_d(a, b) __CPROVER_uninterpreted_fsub_d(a, b)
#define FOP_mul_d(a, b) __CPROVER_uninterpreted_fmul_d(a, b)
#define FOP_div_d(a, b) __CPROVER_uninterpreted_fdiv_d(a, b)
#else
#define FOP_add_f(a, b) ((float)(a) + (float)(b))
#define FOP_sub_f(a, b) ((float)(a) - (float)(b))
#define FOP_mul_f(a, b) ((float)(a) * (float)(b))
#define FOP_div_f(a, b) ((float)(a) / (float)(b))
#define FOP_add_d(a, b) ((double)(a) + (double)(b))
#define FOP_sub_d(a, b) ((double)(a) - (double)(b))
#define FOP_mul_d(a, b) ((double)(a) * (double)(b))
#define FOP_div_d(a, b) ((double)(a) / (double)(b))
#endif
#endif
