/* C04 spec predicates: selecting / replicating / joining / generating views, at the level of their index functions
 * (kind B = utl::static_vector<size_t,8>; axis / shift = int).  Postconditions are NumPy's rules (tile, repeat, roll,
 * concatenate, take, ...) resp. the documented definitions (pad: ONNX pad_width layout, resize: nearest neighbour, expand). */
#include "spec/abi.h"

/* ghost index (universally quantified axis / position) */
GHOST(unsigned long, g)

#define C04_MAX(a, b) ((a) > (b) ? (a) : (b))

/* =============================================================== tile
 * np.tile(A, reps): d = max(A.ndim, len(reps)); A.shape and reps are promoted to length d by prepending 1s;
 * result.shape[k] = A.shape'[k] * reps'[k];  result[i] = A[i' mod A.shape] with i' the last A.ndim coordinates of i. */
GHOST_ARR(unsigned long, EST, 10)   /* EST[k] = expected extent k of the tiled shape */
GHOST_ARR(unsigned long, ETI, 10)   /* ETI[a] = expected source coordinate a = idx[a+off] mod shape[a] */

static inline int pre_verif_shape_tile(sv_t shape, sv_t reps)
{
  unsigned long m = SV_LEN(shape), n = SV_LEN(reps), s = C04_MAX(m, n);
  int ok = m <= CAP && n <= CAP;
  for (unsigned long k = 0; k < CAP; k++)
    if (ok && k < s) {
      unsigned long a = (k + m >= s) ? SV_AT(shape, k + m - s) : 1UL;
      unsigned long b = (k + n >= s) ? SV_AT(reps, k + n - s) : 1UL;
      ok = ok && GHOST_DEF(EST[k], MUL_ul(a, b));
    }
  return ok;
}
static inline int post_verif_shape_tile(sv_t shape, sv_t reps, sv_t ret)
{
  unsigned long m = SV_LEN(shape), n = SV_LEN(reps), s = C04_MAX(m, n);
  return SV_LEN(ret) == s && IMPLIES(g < s, SV_AT(ret, g) == EST[g]);
}

/* idx is an index into the tiled shape: len(idx) == max(ndim, len(reps)); idx[k] < shape'[k]*reps'[k] implies shape[a] >= 1 */
static inline int pre_verif_tile(sv_t shape, sv_t reps, sv_t idx)
{
  unsigned long m = SV_LEN(shape), r = SV_LEN(reps), n = SV_LEN(idx);
  int ok = m <= CAP && r <= CAP && n == C04_MAX(m, r);
  for (unsigned long a = 0; a < CAP; a++)
    if (ok && a < m) {
      ok = ok && SV_AT(shape, a) >= 1UL;
      ok = ok && GHOST_DEF(ETI[a], MOD_ul(SV_AT(idx, a + (n - m)), SV_AT(shape, a)));
    }
  return ok;
}
static inline int post_verif_tile(sv_t shape, sv_t reps, sv_t idx, sv_t ret)
{
  unsigned long m = SV_LEN(shape);
  return SV_LEN(ret) == m
      && IMPLIES(g < m, SV_AT(ret, g) == ETI[g] && SV_AT(ret, g) < SV_AT(shape, g));
}

/* =============================================================== roll
 * np.roll(a, shift, axis): shape unchanged (axis must satisfy -ndim <= axis < ndim, else AxisError);
 * out[..., i, ...] = a[..., (i - shift) mod n, ...] on the rolled axis (mathematical mod, any shift sign / magnitude),
 * all other coordinates unchanged. */
#define C04_AXIS_OK(axis, ndim)  ((ndim) <= CAP && -(long)(ndim) <= (long)(axis) && (long)(axis) < (long)(ndim))
/* int % int (C's truncating remainder) of the code under contract and of the spec: the C operator natively and in
 * bit-precise mode; in UF mode an uninterpreted function constrained by theorems of C's `%` (the equivalence of two
 * symbolic-divisor remainders is out of reach of the SAT back end; needed for index::roll with a reduced shift). */
#ifdef VERIF_NATIVE
  #define MOD_i(a, b) ((a) % (b))
#elif defined(VERIF_UF)
  #undef MOD_i
  int __CPROVER_uninterpreted_smod(int, int);
  static inline int MOD_i(int a, int b)
  {
    __CPROVER_assert(b != 0, "division by zero (UF mode, int %)");
    __CPROVER_assert(!(b == -1 && a == (-2147483647 - 1)), "int % overflow INT_MIN % -1 (UF mode)");
    int r = __CPROVER_uninterpreted_smod(a, b);
    __CPROVER_assume(a < 0 || r >= 0);
    __CPROVER_assume(a > 0 || r <= 0);
    if (b > 0) {
      __CPROVER_assume(-b < r && r < b);
      __CPROVER_assume(!(-b < a && a < b) || r == a);
      __CPROVER_assume(!(b <= a && a - b < b) || r == a - b);
      __CPROVER_assume(!(a <= -b && -b < a + b) || r == a + b);
    }
    return r;
  }
#endif

/* Python-style normalised axis (0 when the axis is not valid for ndim <= CAP) */
static inline unsigned long c04_nax(int axis, unsigned long ndim)
{
  if (ndim > CAP || !C04_AXIS_OK(axis, ndim)) return 0UL;
  return axis < 0 ? (unsigned long)(axis + (int)ndim) : (unsigned long)axis;
}
#define C04_NAX(axis, ndim)      c04_nax((axis), (ndim))
/* mathematical (floor) modulo of a signed value by a positive modulus */
static inline long c04_floor_mod(long a, long n) { long r = a % n; return r < 0 ? r + n : r; }
/* executable form of (i - s) mod n used in the verifier's postcondition, for 0 <= i < n <= 2^30 and any int s:
 * reduce s with C's truncating remainder, subtract, wrap once.  It equals the mathematical modulo for every s:
 * lemmas/c04_roll_mod.lean (theorem c04_roll_src_eq_math_mod); natively both forms are evaluated and compared. */
static inline long c04_roll_src(long i, int s, long n)
{
  long r1 = (long)MOD_i(s, (int)n), d = i - r1;
  return d < 0 ? d + n : (d >= n ? d - n : d);
}
#ifdef VERIF_NATIVE
  #define C04_NATIVE_ALSO(x) (x)
#else
  #define C04_NATIVE_ALSO(x) 1
#endif
/* d = idx[axis] - shift, the un-normalised source coordinate */
#define C04_ROLL_N(shape, axis)              ((long)SV_AT(shape, C04_NAX(axis, SV_LEN(shape))))
#define C04_ROLL_D(shape, idx, shift, axis)  ((long)SV_AT(idx, C04_NAX(axis, SV_LEN(shape))) - (long)(shift))
/* region of the known finding: normalize_roll_index wraps only once, wrong when d < -n or d >= 2n */
#define C04_ROLL_WRAPS_TWICE(shape, idx, shift, axis) \
  (C04_ROLL_D(shape, idx, shift, axis) < -C04_ROLL_N(shape, axis) || C04_ROLL_D(shape, idx, shift, axis) >= 2L * C04_ROLL_N(shape, axis))
/* nm_index_t is int: extents of the rolled axis up to 2^30 are in the domain of the int arithmetic of index::roll */
#define C04_ROLL_MAX_EXTENT 1073741824UL

static inline int pre_verif_shape_roll(sv_t shape, int shift, int axis)
{ return SV_LEN(shape) <= CAP; }
static inline int post_verif_shape_roll(sv_t shape, int shift, int axis, opt_sv_t ret)
{
  unsigned long nd = SV_LEN(shape);
  return (OPT_HAS(ret) != 0) == (C04_AXIS_OK(axis, nd) != 0)
      && IMPLIES(OPT_HAS(ret), SV_LEN(OPT_VAL(ret)) == nd && IMPLIES(g < nd, SV_AT(OPT_VAL(ret), g) == SV_AT(shape, g)));
}

static inline int pre_verif_roll(sv_t shape, sv_t idx, int shift, int axis)
{
  unsigned long nd = SV_LEN(shape);
  int ok = nd <= CAP && SV_LEN(idx) == nd && C04_AXIS_OK(axis, nd);   /* accepted by shape_roll */
  for (unsigned long k = 0; k < CAP; k++)
    if (ok && k < nd) ok = ok && SV_AT(idx, k) < SV_AT(shape, k);       /* idx inside the (unchanged) view shape */
  ok = ok && SV_AT(shape, C04_NAX(axis, nd)) <= C04_ROLL_MAX_EXTENT;
  return ok;
}
static inline int post_verif_roll(sv_t shape, sv_t idx, int shift, int axis, sv_t ret)
{
  unsigned long nd = SV_LEN(shape), ax = C04_NAX(axis, nd);
  return SV_LEN(ret) == nd
      && IMPLIES(g < nd && g != ax, SV_AT(ret, g) == SV_AT(idx, g))
      && SV_AT(ret, ax) == (unsigned long)c04_roll_src((long)SV_AT(idx, ax), shift, C04_ROLL_N(shape, axis))
      && C04_NATIVE_ALSO(SV_AT(ret, ax) == (unsigned long)c04_floor_mod(C04_ROLL_D(shape, idx, shift, axis), C04_ROLL_N(shape, axis)))
      && IMPLIES(g < nd, SV_AT(ret, g) < SV_AT(shape, g));
}

/* closed-form "for all k < i: B[k]" / over a ghost 0/1 array (CAP = 8 positions), usable inside loop invariants */
#define C04_ALL_UPTO(B, i) \
  (((i) <= 0UL || B[0]) && ((i) <= 1UL || B[1]) && ((i) <= 2UL || B[2]) && ((i) <= 3UL || B[3]) && \
   ((i) <= 4UL || B[4]) && ((i) <= 5UL || B[5]) && ((i) <= 6UL || B[6]) && ((i) <= 7UL || B[7]))
/* extents / widths up to 2^61: sums of three stay below 2^63 (signed index arithmetic of index::pad, no wrap-around) */
#define C04_BIG 2305843009213693952UL

/* =============================================================== pad  (documented definition, pad.hpp:17-22, 86-99)
 * pad_width = [before_0, .., before_{d-1}, after_0, .., after_{d-1}] (ONNX layout);
 * shape_pad: Nothing iff len(pad_width) != 2*ndim, else out[k] = shape[k] + before_k + after_k;
 * pad(idx): Nothing (=> the view returns the fill value) iff some coordinate lies in the pad margin, else idx - before. */
GHOST_ARR(unsigned long, PIN, 10)   /* PIN[k] = 1 iff coordinate k lies inside the source: before_k <= idx[k] < before_k + shape[k] */
GHOST_ARR(unsigned long, PEX, 10)   /* PEX[k] = idx[k] - before_k */

static inline int pre_verif_shape_pad(sv_t shape, sv_t pad_width)
{ return SV_LEN(shape) <= CAP && SV_LEN(pad_width) <= CAP; }
static inline int post_verif_shape_pad(sv_t shape, sv_t pad_width, opt_sv_t ret)
{
  unsigned long d = SV_LEN(shape);
  return (OPT_HAS(ret) != 0) == (SV_LEN(pad_width) == 2UL * d)
      && IMPLIES(OPT_HAS(ret), SV_LEN(OPT_VAL(ret)) == d
                 && IMPLIES(g < d, SV_AT(OPT_VAL(ret), g) == SV_AT(shape, g) + SV_AT(pad_width, g) + SV_AT(pad_width, d + g)));
}

static inline int pre_verif_pad(sv_t idx, sv_t shape, sv_t dst_shape, sv_t pad_width)
{
  unsigned long d = SV_LEN(shape);
  int ok = d <= CAP && SV_LEN(pad_width) == 2UL * d && SV_LEN(pad_width) <= CAP     /* accepted by shape_pad */
        && SV_LEN(dst_shape) == d && SV_LEN(idx) == d;
  for (unsigned long k = 0; k < CAP; k++)
    if (ok && k < d) {
      unsigned long b = SV_AT(pad_width, k), e = SV_AT(pad_width, d + k), s = SV_AT(shape, k);
      ok = ok && s <= C04_BIG && b <= C04_BIG && e <= C04_BIG;
      ok = ok && SV_AT(dst_shape, k) == s + b + e;          /* dst_shape = shape_pad(shape, pad_width) */
      ok = ok && SV_AT(idx, k) < SV_AT(dst_shape, k);        /* idx inside the padded shape */
      ok = ok && GHOST_DEF(PIN[k], (unsigned long)(b <= SV_AT(idx, k) && SV_AT(idx, k) < b + s));
      ok = ok && GHOST_DEF(PEX[k], SV_AT(idx, k) - b);
    } else if (ok) ok = ok && GHOST_DEF(PIN[k], 1UL);
  return ok;
}
static inline int post_verif_pad(sv_t idx, sv_t shape, sv_t dst_shape, sv_t pad_width, opt_sv_t ret)
{
  unsigned long d = SV_LEN(shape);
  int inside = 1;
  for (unsigned long k = 0; k < CAP; k++)
    if (k < d) inside = inside && SV_AT(pad_width, k) <= SV_AT(idx, k) && SV_AT(idx, k) < SV_AT(pad_width, k) + SV_AT(shape, k);
  return (OPT_HAS(ret) != 0) == (inside != 0)
      && IMPLIES(OPT_HAS(ret), SV_LEN(OPT_VAL(ret)) == d
                 && IMPLIES(g < d, SV_AT(OPT_VAL(ret), g) == SV_AT(idx, g) - SV_AT(pad_width, g)
                                   && SV_AT(OPT_VAL(ret), g) < SV_AT(shape, g)));
}

/* =============================================================== concatenate (two operands, integer axis)
 * np.concatenate((a,b), axis): ndim equal, -ndim <= axis < ndim, all extents equal except on the (normalised) axis,
 * out.shape[axis] = a.shape[axis] + b.shape[axis];  out[i] = a[i] if i[axis] < a.shape[axis] else b[i with i[axis] - a.shape[axis]]. */
GHOST_ARR(unsigned long, CEQ, 10)   /* CEQ[k] = 1 iff k is the axis or a[k] == b[k] */
GHOST_ARR(unsigned long, CSH, 10)   /* CSH[k] = expected extent k of the joined shape */
GHOST_ARR(unsigned long, CBX, 10)   /* CBX[k] = expected coordinate k in the right operand */
GHOST_ARR(unsigned long, CCP, 2)    /* CCP[0] = 1 iff NumPy accepts the pair of shapes (c04_concat_compat) */

/* all extents off the (normalised) axis agree and the ranks agree: NumPy accepts the pair */
static inline int c04_concat_compat(sv_t ashape, sv_t bshape, int axis)
{
  unsigned long d = SV_LEN(ashape), ax = C04_NAX(axis, d);
  int compat = SV_LEN(bshape) == d;
  for (unsigned long k = 0; k < CAP; k++)
    if (compat && k < d && k != ax) compat = compat && SV_AT(ashape, k) == SV_AT(bshape, k);
  return compat;
}
/* extent / coordinate on the normalised axis */
#define C04_ON_AXIS(v, shape, axis) SV_AT(v, C04_NAX(axis, SV_LEN(shape)))
static inline int pre_verif_shape_concatenate(sv_t ashape, sv_t bshape, int axis)
{
  unsigned long d = SV_LEN(ashape), ax = C04_NAX(axis, d);
  int ok = d <= CAP && SV_LEN(bshape) <= CAP && C04_AXIS_OK(axis, d);
  if (ok) ok = ok && GHOST_DEF(CCP[0], (unsigned long)(c04_concat_compat(ashape, bshape, axis) != 0));
  for (unsigned long k = 0; k < CAP; k++)
    if (ok) {
      ok = ok && GHOST_DEF(CEQ[k], (unsigned long)(k >= d || k == ax || SV_AT(ashape, k) == SV_AT(bshape, k)));
      ok = ok && GHOST_DEF(CSH[k], k == ax ? SV_AT(ashape, k) + SV_AT(bshape, k) : SV_AT(ashape, k));
    }
  return ok;
}
static inline int post_verif_shape_concatenate(sv_t ashape, sv_t bshape, int axis, scat_t ret)
{
  unsigned long d = SV_LEN(ashape), ax = C04_NAX(axis, d);
  int compat = c04_concat_compat(ashape, bshape, axis);
  return (TUP_GET(ret, 0) != 0) == (compat != 0)
      && IMPLIES(TUP_GET(ret, 0), SV_LEN(TUP_GET(ret, 1)) == d
                 && IMPLIES(g < d, SV_AT(TUP_GET(ret, 1), g) == (g == ax ? SV_AT(ashape, g) + SV_AT(bshape, g) : SV_AT(ashape, g))));
}

static inline int pre_verif_concatenate(sv_t ashape, sv_t bshape, sv_t idx, int axis)
{
  unsigned long d = SV_LEN(ashape), ax = C04_NAX(axis, d);
  int ok = d <= CAP && SV_LEN(bshape) == d && SV_LEN(idx) == d && C04_AXIS_OK(axis, d);
  for (unsigned long k = 0; k < CAP; k++)
    if (ok && k < d) {
      if (k == ax) ok = ok && SV_AT(ashape, k) <= C04_BIG && SV_AT(bshape, k) <= C04_BIG
                          && SV_AT(idx, k) < SV_AT(ashape, k) + SV_AT(bshape, k);
      else         ok = ok && SV_AT(ashape, k) == SV_AT(bshape, k) && SV_AT(idx, k) < SV_AT(ashape, k);   /* accepted by shape_concatenate; idx inside the joined shape */
      ok = ok && GHOST_DEF(CBX[k], k == ax ? SV_AT(idx, k) - SV_AT(ashape, k) : SV_AT(idx, k));
    }
  return ok;
}
static inline int post_verif_concatenate(sv_t ashape, sv_t bshape, sv_t idx, int axis, cat_t ret)
{
  unsigned long d = SV_LEN(ashape), ax = C04_NAX(axis, d);
  int left = SV_AT(idx, ax) < SV_AT(ashape, ax);
  return (TUP_GET(ret, 0) != 0) == (left != 0) && (TUP_GET(ret, 1) != 0) == (left == 0)
      && IMPLIES(left, SV_LEN(TUP_GET(ret, 2)) == d
                 && IMPLIES(g < d, SV_AT(TUP_GET(ret, 2), g) == SV_AT(idx, g) && SV_AT(TUP_GET(ret, 2), g) < SV_AT(ashape, g)))
      && IMPLIES(!left, SV_LEN(TUP_GET(ret, 3)) == d
                 && IMPLIES(g < d, SV_AT(TUP_GET(ret, 3), g) == (g == ax ? SV_AT(idx, g) - SV_AT(ashape, g) : SV_AT(idx, g))
                                   && SV_AT(TUP_GET(ret, 3), g) < SV_AT(bshape, g)));
}

/* =============================================================== repeat (scalar repeats, integer axis)
 * np.repeat(a, r, axis): out.shape[axis] = a.shape[axis] * r;  out[i] = a[i with i[axis] / r]  (floor division). */
GHOST_ARR(unsigned long, RSH, 10)   /* RSH[k] = expected extent k of the repeated shape */
GHOST_ARR(unsigned long, RPX, 10)   /* RPX[k] = expected source coordinate k */

static inline int pre_verif_shape_repeat(sv_t shape, unsigned long repeats, int axis)
{
  unsigned long d = SV_LEN(shape), ax = C04_NAX(axis, d);
  int ok = d <= CAP && C04_AXIS_OK(axis, d);
  for (unsigned long k = 0; k < CAP; k++)
    if (ok && k < d) ok = ok && GHOST_DEF(RSH[k], k == ax ? MUL_ul(SV_AT(shape, k), repeats) : SV_AT(shape, k));
  return ok;
}
static inline int post_verif_shape_repeat(sv_t shape, unsigned long repeats, int axis, hn_t ret)
{
  unsigned long d = SV_LEN(shape);
  return HN_LEN(ret) == d && IMPLIES(g < d, HN_AT(ret, g) == RSH[g]);
}

static inline int pre_verif_repeat(sv_t shape, sv_t idx, unsigned long repeats, int axis)
{
  unsigned long d = SV_LEN(shape), ax = C04_NAX(axis, d);
  int ok = d <= CAP && SV_LEN(idx) == d && C04_AXIS_OK(axis, d) && repeats >= 1UL;
  for (unsigned long k = 0; k < CAP; k++)
    if (ok && k < d) {
      /* idx inside the repeated shape */
      ok = ok && SV_AT(idx, k) < (k == ax ? MUL_ul(SV_AT(shape, k), repeats) : SV_AT(shape, k));
      ok = ok && GHOST_DEF(RPX[k], k == ax ? DIV_ul(SV_AT(idx, k), repeats) : SV_AT(idx, k));
    }
  /* arithmetic fact (theorem of machine arithmetic, also when s*r wraps): r != 0 && a < s*r  ==>  a / r < s */
  if (ok) ok = ok && IMPLIES(SV_AT(idx, ax) < MUL_ul(SV_AT(shape, ax), repeats), DIV_ul(SV_AT(idx, ax), repeats) < SV_AT(shape, ax));
  return ok;
}
static inline int post_verif_repeat(sv_t shape, sv_t idx, unsigned long repeats, int axis, hn_t ret)
{
  unsigned long d = SV_LEN(shape);
  return HN_LEN(ret) == d && IMPLIES(g < d, HN_AT(ret, g) == RPX[g] && HN_AT(ret, g) < SV_AT(shape, g));
}

/* =============================================================== repeat (PER-ELEMENT repeats, integer axis)
 * np.repeat(a, repeats, axis) with len(repeats) == a.shape[axis] (ValueError otherwise; nmtools: assertion, compiled out under NDEBUG):
 *   out.shape[axis] = sum(repeats), the other extents unchanged;
 *   out[..., i, ...] = a[..., j, ...] with j the unique position such that cumsum(repeats)[j-1] <= i < cumsum(repeats)[j]
 *   (element j of the axis occupies repeats[j] consecutive places; entries equal to 0 drop the element). */
GHOST_ARR(unsigned long, RCS, 10)   /* RCS[t] = repeats[0] + ... + repeats[t-1]  (RCS[0] = 0; entries beyond len(repeats) add 0) */
GHOST(unsigned long, RJ)            /* the source position along the axis */
#define C04_REPEAT_MAX (1UL << 60)  /* per-entry bound: the sum of at most 8 entries does not wrap */
static inline int trace_RCS(sv_t repeats)
{
  int ok = GHOST_DEF(RCS[0], 0UL);
  for (unsigned long t = 0; t < CAP; t++)
    ok = ok && GHOST_DEF(RCS[t + 1], RCS[t] + (t < SV_LEN(repeats) ? SV_AT(repeats, t) : 0UL));
  return ok;
}
/* independent definitions used by the postconditions */
static inline unsigned long spec_repeats_cumsum(sv_t repeats, unsigned long k)      /* repeats[0] + ... + repeats[k-1] */
{
  unsigned long acc = 0UL, r = 0UL;
  for (unsigned long t = 0; t < CAP; t++) {
    if (t == k) r = acc;
    acc += (t < SV_LEN(repeats) ? SV_AT(repeats, t) : 0UL);
  }
  return k >= CAP ? acc : r;
}
static inline int repeats_small(sv_t repeats)
{
  int ok = 1;
  for (unsigned long t = 0; t < CAP; t++)
    if (t < SV_LEN(repeats) && SV_AT(repeats, t) > C04_REPEAT_MAX) ok = 0;
  return ok;
}
/* first position whose cumulative count exceeds x (0 if there is none) */
static inline unsigned long spec_repeat_src(sv_t repeats, unsigned long x)
{
  unsigned long acc = 0UL, j = 0UL; int found = 0;
  for (unsigned long t = 0; t < CAP; t++) {
    acc += (t < SV_LEN(repeats) ? SV_AT(repeats, t) : 0UL);
    if (!found && t < SV_LEN(repeats) && x < acc) { found = 1; j = t; }
  }
  return j;
}
static inline int pre_verif_shape_repeat_each(sv_t shape, sv_t repeats, int axis)
{
  unsigned long d = SV_LEN(shape), ax = C04_NAX(axis, d);
  int ok = d <= CAP && C04_AXIS_OK(axis, d) && SV_LEN(repeats) <= CAP;
  if (ok) ok = ok && SV_LEN(repeats) == SV_AT(shape, ax) && repeats_small(repeats) && trace_RCS(repeats);
  for (unsigned long k = 0; k < CAP; k++)
    if (ok && k < d) ok = ok && GHOST_DEF(RSH[k], k == ax ? RCS[SV_LEN(repeats)] : SV_AT(shape, k));
  return ok;
}
static inline int post_verif_shape_repeat_each(sv_t shape, sv_t repeats, int axis, hn_t ret)
{
  unsigned long d = SV_LEN(shape), ax = C04_NAX(axis, d);
  return HN_LEN(ret) == d && IMPLIES(g < d, HN_AT(ret, g) == RSH[g])
      && HN_AT(ret, ax) == spec_repeats_cumsum(repeats, SV_LEN(repeats))
      && IMPLIES(g < d && g != ax, HN_AT(ret, g) == SV_AT(shape, g));
}
static inline int pre_verif_repeat_each(sv_t shape, sv_t idx, sv_t repeats, int axis)
{
  unsigned long d = SV_LEN(shape), ax = C04_NAX(axis, d);
  int ok = d <= CAP && SV_LEN(idx) == d && C04_AXIS_OK(axis, d) && SV_LEN(repeats) <= CAP;
  if (ok) ok = ok && SV_LEN(repeats) == SV_AT(shape, ax) && repeats_small(repeats) && trace_RCS(repeats)
                  && GHOST_DEF(RJ, spec_repeat_src(repeats, SV_AT(idx, ax)));
  for (unsigned long k = 0; k < CAP; k++)
    if (ok && k < d) {
      /* idx inside the repeated shape */
      ok = ok && SV_AT(idx, k) < (k == ax ? RCS[SV_LEN(repeats)] : SV_AT(shape, k));
      ok = ok && GHOST_DEF(RPX[k], k == ax ? RJ : SV_AT(idx, k));
    }
  return ok;
}
static inline int post_verif_repeat_each(sv_t shape, sv_t idx, sv_t repeats, int axis, hn_t ret)
{
  unsigned long d = SV_LEN(shape), ax = C04_NAX(axis, d), j = HN_AT(ret, g < d ? g : 0UL);
  return HN_LEN(ret) == d && IMPLIES(g < d, HN_AT(ret, g) == RPX[g] && HN_AT(ret, g) < SV_AT(shape, g))
      && IMPLIES(g < d && g != ax, HN_AT(ret, g) == SV_AT(idx, g))
      /* numpy: along the axis, the unique j with cumsum[j-1] <= i < cumsum[j]   (g is any position: here the axis) */
      && IMPLIES(g < d && g == ax, j < SV_LEN(repeats) && spec_repeats_cumsum(repeats, j) <= SV_AT(idx, ax)
                                   && SV_AT(idx, ax) < spec_repeats_cumsum(repeats, j + 1UL));
}
/* bounded unit repeat_each.bounded: the same contract on rank <= C04_RB_RANK, len(repeats) <= C04_RB_LEN */
#define C04_RB_RANK 4UL
#define C04_RB_LEN 5UL
static inline int pre_verif_repeat_each_b(sv_t shape, sv_t idx, sv_t repeats, int axis)
{ return SV_LEN(shape) <= C04_RB_RANK && SV_LEN(repeats) <= C04_RB_LEN && pre_verif_repeat_each(shape, idx, repeats, axis); }
static inline int post_verif_repeat_each_b(sv_t shape, sv_t idx, sv_t repeats, int axis, hn_t ret)
{ return post_verif_repeat_each(shape, idx, repeats, axis, ret); }
/* loop-contract vocabulary (expanded inside the instantiated functions only) */
#define C04_CUMSUM_DONE(k) (!((k) < i && (k) < array->size_) || ret.buffer_._M_elems[k] == RCS[(k) + 1UL])

/* =============================================================== take (1-d index list, integer axis)
 * np.take(a, ind, axis): out.shape = a.shape with the axis extent replaced by len(ind);
 * out[.., j, ..] = a[.., ind[j], ..]; entries of ind must satisfy -n <= ind[j] < n, negative entries count from the end. */
GHOST_ARR(unsigned long, TSH, 10)   /* TSH[k] = expected extent k of the take shape */
GHOST_ARR(unsigned long, TKX, 10)   /* TKX[k] = expected source coordinate k */
/* the source coordinate designated on the axis: ind[idx[axis]] normalised Python-style */
static inline unsigned long c04_take_src(sv_t idx, sv_t shape, iv_t indices, int axis)
{
  unsigned long ax = C04_NAX(axis, SV_LEN(shape));
  unsigned long j = SV_AT(idx, ax);
  if (j >= CAP) return 0UL;
  long e = (long)SV_AT(indices, j);
  return (unsigned long)(e < 0 ? e + (long)SV_AT(shape, ax) : e);
}
static inline int pre_verif_shape_take(sv_t shape, iv_t indices, int axis)
{
  unsigned long d = SV_LEN(shape), ax = C04_NAX(axis, d);
  int ok = d <= CAP && SV_LEN(indices) <= CAP && C04_AXIS_OK(axis, d);
  for (unsigned long k = 0; k < CAP; k++)
    if (ok && k < d) ok = ok && GHOST_DEF(TSH[k], k == ax ? SV_LEN(indices) : SV_AT(shape, k));
  return ok;
}
static inline int post_verif_shape_take(sv_t shape, iv_t indices, int axis, sv_t ret)
{
  unsigned long d = SV_LEN(shape), ax = C04_NAX(axis, d);
  return SV_LEN(ret) == d && IMPLIES(g < d, SV_AT(ret, g) == (g == ax ? SV_LEN(indices) : SV_AT(shape, g)));
}
static inline int pre_verif_take(sv_t idx, sv_t shape, iv_t indices, int axis)
{
  unsigned long d = SV_LEN(shape), ax = C04_NAX(axis, d), n = SV_LEN(indices);
  int ok = d <= CAP && n <= CAP && SV_LEN(idx) == d && C04_AXIS_OK(axis, d);
  if (ok) ok = ok && SV_AT(shape, ax) <= C04_BIG;
  for (unsigned long k = 0; k < CAP; k++) {
    if (ok && k < d) ok = ok && SV_AT(idx, k) < (k == ax ? n : SV_AT(shape, k));                 /* idx inside the take shape */
    if (ok && k < n) ok = ok && -(long)SV_AT(shape, ax) <= (long)SV_AT(indices, k) && (long)SV_AT(indices, k) < (long)SV_AT(shape, ax);  /* entries valid for NumPy */
  }
  for (unsigned long k = 0; k < CAP; k++)
    if (ok && k < d) ok = ok && GHOST_DEF(TKX[k], k == ax ? c04_take_src(idx, shape, indices, axis) : SV_AT(idx, k));
  return ok;
}
static inline int post_verif_take(sv_t idx, sv_t shape, iv_t indices, int axis, hn_t ret)
{
  unsigned long d = SV_LEN(shape);
  return HN_LEN(ret) == d && IMPLIES(g < d, HN_AT(ret, g) == TKX[g] && HN_AT(ret, g) < SV_AT(shape, g));
}

/* =============================================================== resize (documented: nearest-neighbour sampling)
 * shape_resize(src,dst): Nothing iff ranks differ or some dst extent is 0, else dst;  resize(i)[k] = floor(src[k] * i[k] / dst[k]). */
GHOST_ARR(unsigned long, RZP, 10)   /* RZP[k] = 1 iff k >= ndim or dst[k] > 0 */
GHOST_ARR(unsigned long, RZQ, 10)   /* RZQ[k] = floor(src[k]*idx[k]/dst[k]) */
#define C04_U32MAX 4294967295UL
static inline int pre_verif_shape_resize(sv_t src_shape, sv_t dst_shape)
{
  int ok = SV_LEN(src_shape) <= CAP && SV_LEN(dst_shape) <= CAP;
  for (unsigned long k = 0; k < CAP; k++)
    if (ok) ok = ok && GHOST_DEF(RZP[k], (unsigned long)(k >= SV_LEN(dst_shape) || SV_AT(dst_shape, k) > 0UL));
  return ok;
}
static inline int post_verif_shape_resize(sv_t src_shape, sv_t dst_shape, opt_sv_t ret)
{
  unsigned long d = SV_LEN(dst_shape);
  int valid = SV_LEN(src_shape) == d;
  for (unsigned long k = 0; k < CAP; k++)
    if (valid && k < d) valid = valid && SV_AT(dst_shape, k) > 0UL;
  return (OPT_HAS(ret) != 0) == (valid != 0)
      && IMPLIES(OPT_HAS(ret), SV_LEN(OPT_VAL(ret)) == d && IMPLIES(g < d, SV_AT(OPT_VAL(ret), g) == SV_AT(dst_shape, g)));
}
/* region of the known finding: the quotient does not survive the conversion to float and back (needs >= 25 significant bits) */
static inline int c04_resize_lossy(sv_t idx, sv_t src_shape, sv_t dst_shape)
{
  int lossy = 0;
  for (unsigned long k = 0; k < CAP; k++)
    if (k < SV_LEN(src_shape)) {
      unsigned long q = DIV_ul(MUL_ul(SV_AT(src_shape, k), SV_AT(idx, k)), SV_AT(dst_shape, k));
      lossy = lossy || (unsigned long)(float)q != q;
    }
  return lossy;
}
static inline int pre_verif_resize(sv_t idx, sv_t src_shape, sv_t dst_shape)
{
  unsigned long d = SV_LEN(src_shape);
  int ok = d <= CAP && SV_LEN(dst_shape) == d && SV_LEN(idx) == d;
  for (unsigned long k = 0; k < CAP; k++)
    if (ok && k < d) {
      /* accepted by shape_resize, idx inside dst_shape, source axis not empty, src*idx fits in 64 bits */
      ok = ok && SV_AT(dst_shape, k) >= 1UL && SV_AT(idx, k) < SV_AT(dst_shape, k)
              && SV_AT(src_shape, k) >= 1UL && SV_AT(src_shape, k) <= C04_U32MAX && SV_AT(dst_shape, k) <= C04_U32MAX;
      ok = ok && GHOST_DEF(RZQ[k], DIV_ul(MUL_ul(SV_AT(src_shape, k), SV_AT(idx, k)), SV_AT(dst_shape, k)));
      /* arithmetic fact (theorem for products that fit): i < d && s >= 1  ==>  s*i/d < s */
      ok = ok && RZQ[k] < SV_AT(src_shape, k);
    }
  return ok;
}
static inline int post_verif_resize(sv_t idx, sv_t src_shape, sv_t dst_shape, sv_t ret)
{
  unsigned long d = SV_LEN(src_shape);
  return SV_LEN(ret) == d && IMPLIES(g < d, SV_AT(ret, g) == RZQ[g] && SV_AT(ret, g) < SV_AT(src_shape, g));
}

/* =============================================================== expand: shape (documented: `spacing` fill elements between neighbours)
 * out[axis] = n + (n-1)*spacing for n >= 1, other extents unchanged. */
GHOST_ARR(unsigned long, XSH, 10)
static inline int pre_verif_shape_expand(sv_t shape, int axis, unsigned long spacing)
{
  unsigned long d = SV_LEN(shape), ax = C04_NAX(axis, d);
  int ok = d <= CAP && C04_AXIS_OK(axis, d);
  if (ok) ok = ok && SV_AT(shape, ax) >= 1UL;
  for (unsigned long k = 0; k < CAP; k++)
    if (ok && k < d) ok = ok && GHOST_DEF(XSH[k], k == ax ? SV_AT(shape, k) + MUL_ul(SV_AT(shape, k) - 1UL, spacing) : SV_AT(shape, k));
  return ok;
}
static inline int post_verif_shape_expand(sv_t shape, int axis, unsigned long spacing, sv_t ret)
{
  unsigned long d = SV_LEN(shape);
  return SV_LEN(ret) == d && IMPLIES(g < d, SV_AT(ret, g) == XSH[g]);
}

/* =============================================================== diagonal
 * np.diagonal(a, offset, axis1, axis2): ndim >= 2, axis1 != axis2 (normalised); out.shape = a.shape without the two axes,
 * with the diagonal length appended: max(0, min(n1, n2 - offset)) for offset >= 0, max(0, min(n1 + offset, n2)) for offset < 0;
 * out[..., i] = a[.. axis1: i + max(-offset,0) .. axis2: i + max(offset,0) ..]. */
GHOST_ARR(unsigned long, DSH, 10)   /* DSH[j] = j-th extent of the result (kept axes in order, then the diagonal length) */
GHOST_ARR(unsigned long, DIX, 10)   /* DIX[k] = expected source coordinate k */
#define C04_DIAG_MAX_EXTENT 1073741824UL
static inline unsigned long c04_diag_len(unsigned long n1, unsigned long n2, int offset)
{
  long a = (long)n1 + (offset < 0 ? (long)offset : 0L), b = (long)n2 - (offset > 0 ? (long)offset : 0L);
  long m = a < b ? a : b;
  return m < 0 ? 0UL : (unsigned long)m;
}
/* position of source axis k among the kept axes */
#define C04_KEPT_POS(k, a1, a2) ((k) - ((a1) < (k) ? 1UL : 0UL) - ((a2) < (k) ? 1UL : 0UL))
static inline int c04_diag_args_ok(sv_t shape, int axis1, int axis2)
{
  unsigned long d = SV_LEN(shape);
  return d >= 2UL && d <= CAP && C04_AXIS_OK(axis1, d) && C04_AXIS_OK(axis2, d) && C04_NAX(axis1, d) != C04_NAX(axis2, d);
}
static inline int pre_verif_shape_diagonal(sv_t shape, int offset, int axis1, int axis2)
{
  unsigned long d = SV_LEN(shape), a1 = C04_NAX(axis1, d), a2 = C04_NAX(axis2, d);
  int ok = c04_diag_args_ok(shape, axis1, axis2);
  if (ok) ok = ok && SV_AT(shape, a1) <= C04_DIAG_MAX_EXTENT && SV_AT(shape, a2) <= C04_DIAG_MAX_EXTENT;
  for (unsigned long k = 0; k < CAP; k++)
    if (ok && k < d && k != a1 && k != a2) ok = ok && GHOST_DEF(DSH[C04_KEPT_POS(k, a1, a2)], SV_AT(shape, k));
  if (ok) ok = ok && GHOST_DEF(DSH[d - 2UL], c04_diag_len(SV_AT(shape, a1), SV_AT(shape, a2), offset));
  return ok;
}
static inline int post_verif_shape_diagonal(sv_t shape, int offset, int axis1, int axis2, sv7_t ret)
{
  unsigned long d = SV_LEN(shape);
  return SV_LEN(ret) == d - 1UL && IMPLIES(g < d - 1UL, SV_AT(ret, g) == DSH[g]);
}
/* view::diagonal_indexer passes the normalised (unsigned) axes and the raw offset to index::diagonal */
static inline int pre_verif_diagonal(sv_t shape, sv_t idx, int offset, unsigned int axis1, unsigned int axis2)
{
  unsigned long d = SV_LEN(shape), a1 = axis1, a2 = axis2;
  int ok = d >= 2UL && d <= CAP && a1 < d && a2 < d && a1 != a2 && SV_LEN(idx) == d - 1UL;
  if (ok) ok = ok && SV_AT(shape, a1) <= C04_DIAG_MAX_EXTENT && SV_AT(shape, a2) <= C04_DIAG_MAX_EXTENT;
  for (unsigned long k = 0; k < CAP; k++)
    if (ok && k < d && k != a1 && k != a2) {
      ok = ok && SV_AT(idx, C04_KEPT_POS(k, a1, a2)) < SV_AT(shape, k);          /* idx inside the diagonal view's shape */
      ok = ok && GHOST_DEF(DIX[k], SV_AT(idx, C04_KEPT_POS(k, a1, a2)));
    }
  if (ok) {
    unsigned long i = SV_AT(idx, d - 2UL);
    ok = ok && i < c04_diag_len(SV_AT(shape, a1), SV_AT(shape, a2), offset);
    ok = ok && GHOST_DEF(DIX[a1], offset < 0 ? i + (unsigned long)(-(long)offset) : i);
    ok = ok && GHOST_DEF(DIX[a2], offset > 0 ? i + (unsigned long)offset : i);
  }
  return ok;
}
static inline int post_verif_diagonal(sv_t shape, sv_t idx, int offset, unsigned int axis1, unsigned int axis2, sv_t ret)
{
  unsigned long d = SV_LEN(shape);
  return SV_LEN(ret) == d && IMPLIES(g < d, SV_AT(ret, g) == DIX[g] && SV_AT(ret, g) < SV_AT(shape, g));
}

/* =============================================================== tril / triu / eye / tri
 * np.tril(m,k): keep m[..,i,j] where j - i <= k; np.triu(m,k): keep where j - i >= k (1-d input of length N is used as an (N,N) matrix of rows);
 * np.eye(N,M,k): 1 where j - i == k; np.tri(N,M,k): 1 where j - i <= k.  Nothing = "not taken from the (zero) source" = fill / one. */
#define C04_TRI_MAX 1073741823L
static inline int pre_verif_shape_tril(sv_t shape) { return SV_LEN(shape) >= 1UL && SV_LEN(shape) <= CAP; }
static inline int post_verif_shape_tril(sv_t shape, sv_t ret)
{
  unsigned long d = SV_LEN(shape);
  if (d == 1UL) return SV_LEN(ret) == 2UL && SV_AT(ret, 0) == SV_AT(shape, 0) && SV_AT(ret, 1) == SV_AT(shape, 0);
  return SV_LEN(ret) == d && IMPLIES(g < d, SV_AT(ret, g) == SV_AT(shape, g));
}
static inline int pre_verif_shape_triu(sv_t shape) { return pre_verif_shape_tril(shape); }
static inline int post_verif_shape_triu(sv_t shape, sv_t ret) { return post_verif_shape_tril(shape, ret); }
/* idx is an index into shape_tril(shape); the last two extents and |k| are within the int arithmetic of the predicate */
static inline int c04_tri_pre(sv_t shape, sv_t idx, int k, int promote_1d)
{
  unsigned long d = SV_LEN(shape), dd = (promote_1d && d == 1UL) ? 2UL : d;
  int ok = d >= 1UL && dd >= 2UL && d <= CAP && SV_LEN(idx) == dd && -C04_TRI_MAX <= (long)k && (long)k <= C04_TRI_MAX;
  for (unsigned long t = 0; t < CAP; t++)
    if (ok && t < dd) ok = ok && SV_AT(idx, t) < SV_AT(shape, d == 1UL ? 0UL : t);
  if (ok) ok = ok && SV_AT(idx, dd - 1UL) <= (unsigned long)C04_TRI_MAX && SV_AT(idx, dd - 2UL) <= (unsigned long)C04_TRI_MAX;
  return ok;
}
/* j - i for the last two coordinates */
static inline long c04_tri_diff(sv_t idx) { return (long)SV_AT(idx, SV_LEN(idx) - 1UL) - (long)SV_AT(idx, SV_LEN(idx) - 2UL); }
static inline int c04_tri_src_ok(sv_t shape, sv_t idx, opt_sv_t ret)
{
  unsigned long d = SV_LEN(shape);
  if (d == 1UL) return SV_LEN(OPT_VAL(ret)) == 1UL && SV_AT(OPT_VAL(ret), 0) == SV_AT(idx, 1) && SV_AT(OPT_VAL(ret), 0) < SV_AT(shape, 0);
  return SV_LEN(OPT_VAL(ret)) == d && IMPLIES(g < d, SV_AT(OPT_VAL(ret), g) == SV_AT(idx, g) && SV_AT(OPT_VAL(ret), g) < SV_AT(shape, g));
}
static inline int pre_verif_tril(sv_t shape, sv_t idx, int k) { return c04_tri_pre(shape, idx, k, 1); }
static inline int post_verif_tril(sv_t shape, sv_t idx, int k, opt_sv_t ret)
{ return (OPT_HAS(ret) != 0) == (c04_tri_diff(idx) <= (long)k) && IMPLIES(OPT_HAS(ret), c04_tri_src_ok(shape, idx, ret)); }
static inline int pre_verif_triu(sv_t shape, sv_t idx, int k) { return c04_tri_pre(shape, idx, k, 1); }
static inline int post_verif_triu(sv_t shape, sv_t idx, int k, opt_sv_t ret)
{ return (OPT_HAS(ret) != 0) == (c04_tri_diff(idx) >= (long)k) && IMPLIES(OPT_HAS(ret), c04_tri_src_ok(shape, idx, ret)); }
static inline int pre_verif_eye(sv_t shape, sv_t idx, int k) { return c04_tri_pre(shape, idx, k, 0); }
static inline int post_verif_eye(sv_t shape, sv_t idx, int k, opt_sv_t ret)
{ return (OPT_HAS(ret) == 0) == (c04_tri_diff(idx) == (long)k) && IMPLIES(OPT_HAS(ret), c04_tri_src_ok(shape, idx, ret)); }
static inline int pre_verif_tri(sv_t shape, sv_t idx, int k) { return c04_tri_pre(shape, idx, k, 0); }
static inline int post_verif_tri(sv_t shape, sv_t idx, int k, opt_sv_t ret)
{ return (OPT_HAS(ret) == 0) == (c04_tri_diff(idx) <= (long)k) && IMPLIES(OPT_HAS(ret), c04_tri_src_ok(shape, idx, ret)); }

/* =============================================================== roll with several axes: shape (axis list validity)
 * np.roll(a, shifts, axes): shape unchanged, every axis must satisfy -ndim <= axis < ndim. */
GHOST_ARR(unsigned long, RAV, 10)    /* RAV[j] = 1 iff j >= len(axis) or axis[j] is valid for ndim */
static inline int c04_axes_valid(iv_t axis, unsigned long nd)
{
  int ok = 1;
  for (unsigned long j = 0; j < CAP; j++)
    if (j < SV_LEN(axis)) ok = ok && C04_AXIS_OK(SV_AT(axis, j), nd);
  return ok;
}
static inline int pre_verif_shape_roll_axes(sv_t shape, iv_t shift, iv_t axis)
{
  int ok = SV_LEN(shape) <= CAP && SV_LEN(axis) <= CAP && SV_LEN(shift) <= CAP;
  for (unsigned long j = 0; j < CAP; j++)
    if (ok) ok = ok && GHOST_DEF(RAV[j], (unsigned long)(j >= SV_LEN(axis) || C04_AXIS_OK(SV_AT(axis, j), SV_LEN(shape))));
  return ok;
}
static inline int post_verif_shape_roll_axes(sv_t shape, iv_t shift, iv_t axis, opt_sv_t ret)
{
  unsigned long nd = SV_LEN(shape);
  return (OPT_HAS(ret) != 0) == (c04_axes_valid(axis, nd) != 0)
      && IMPLIES(OPT_HAS(ret), SV_LEN(OPT_VAL(ret)) == nd && IMPLIES(g < nd, SV_AT(OPT_VAL(ret), g) == SV_AT(shape, g)));
}
/* =============================================================== helpers of the stack family
 * np.hstack joins along axis 1, except for 1-d operands (axis 0); np.vstack first promotes 1-d operands (N) to (1,N). */
static inline int pre_verif_hstack_axis(sv_t lhs, sv_t rhs) { return SV_LEN(lhs) <= CAP && SV_LEN(rhs) <= CAP; }
static inline int post_verif_hstack_axis(sv_t lhs, sv_t rhs, unsigned long ret) { return ret == (SV_LEN(lhs) == 1UL ? 0UL : 1UL); }
static inline int pre_verif_shape_vstack(sv_t shape) { return SV_LEN(shape) >= 1UL && SV_LEN(shape) <= CAP; }
static inline int post_verif_shape_vstack(sv_t shape, sv_t ret)
{
  unsigned long d = SV_LEN(shape);
  if (d == 1UL) return SV_LEN(ret) == 2UL && SV_AT(ret, 0) == 1UL && SV_AT(ret, 1) == SV_AT(shape, 0);
  return SV_LEN(ret) == d && IMPLIES(g < d, SV_AT(ret, g) == SV_AT(shape, g));
}
