/* C07 spec, scalar operations of the ufunc functors (inst/c07u.cpp): each functor applies the C operator / the <cmath> function of the same
 * name to its operands in the given order.  Float + - * / and <cmath> are uninterpreted in the verifier build (unit mode 'fuf', spec/mathuf.h);
 * integer functors are checked bit-precisely on the range where the C operation is defined. */
#include "spec/abi.h"
#include "spec/mathuf.h"
#if defined(VERIF_FUF) && !defined(VERIF_NATIVE) && !defined(VERIF_NATIVE_C)
/* int % int of the code (rendered MOD_i by cxx2c) and of the reference: one uninterpreted function (two 32-bit dividers do not compare in SAT) */
#undef MOD_i
int __CPROVER_uninterpreted_modi(int, int);
#define MOD_i(a, b) __CPROVER_uninterpreted_modi(a, b)
#endif
#ifndef MOD_i
#define MOD_i(a, b) ((a) % (b))
#endif
#ifdef VERIF_NATIVE
static inline int c07u_same(float a, float b) { if (a == b || (a != a && b != b)) return 1; float d = a - b; if (d < 0) d = -d; float m = a < 0 ? -a : a; float n = b < 0 ? -b : b; if (n > m) m = n; if (m < 1.0f) m = 1.0f; return d <= 1e-4f * m; }
#else
static inline int c07u_same(float a, float b) { return a == b || (a != a && b != b); }
#endif
static inline int c07u_small(int x) { return x >= -1000000000 && x <= 1000000000; }
static inline int pre_verif_uf_f_add(float t, float u) { return 1; }
static inline int post_verif_uf_f_add(float t, float u, float ret) { return c07u_same(ret, FOP_add_f(t, u)); }
static inline int pre_verif_uf_f_subtract(float t, float u) { return 1; }
static inline int post_verif_uf_f_subtract(float t, float u, float ret) { return c07u_same(ret, FOP_sub_f(t, u)); }
static inline int pre_verif_uf_f_multiply(float t, float u) { return 1; }
static inline int post_verif_uf_f_multiply(float t, float u, float ret) { return c07u_same(ret, FOP_mul_f(t, u)); }
static inline int pre_verif_uf_f_divide(float t, float u) { return 1; }
static inline int post_verif_uf_f_divide(float t, float u, float ret) { return c07u_same(ret, FOP_div_f(t, u)); }
static inline int pre_verif_uf_f_arctan2(float t, float u) { return 1; }
static inline int post_verif_uf_f_arctan2(float t, float u, float ret) { return c07u_same(ret, VERIF_M_atan2f(t, u)); }
static inline int pre_verif_uf_f_hypot(float t, float u) { return 1; }
static inline int post_verif_uf_f_hypot(float t, float u, float ret) { return c07u_same(ret, VERIF_M_hypotf(t, u)); }
static inline int pre_verif_uf_f_fmod(float t, float u) { return 1; }
static inline int post_verif_uf_f_fmod(float t, float u, float ret) { return c07u_same(ret, VERIF_M_fmodf(t, u)); }
static inline int pre_verif_uf_f_maximum(float t, float u) { return 1; }
static inline int post_verif_uf_f_maximum(float t, float u, float ret) { return c07u_same(ret, (t > u ? t : u)); }
static inline int pre_verif_uf_f_minimum(float t, float u) { return 1; }
static inline int post_verif_uf_f_minimum(float t, float u, float ret) { return c07u_same(ret, (t < u ? t : u)); }
static inline int pre_verif_uf_f_fmax(float t, float u) { return 1; }
static inline int post_verif_uf_f_fmax(float t, float u, float ret) { return c07u_same(ret, VERIF_M_fmaxf(t, u)); }
static inline int pre_verif_uf_f_fmin(float t, float u) { return 1; }
static inline int post_verif_uf_f_fmin(float t, float u, float ret) { return c07u_same(ret, VERIF_M_fminf(t, u)); }
static inline int pre_verif_uf_f_power(float t, float u) { return 1; }
static inline int post_verif_uf_f_power(float t, float u, float ret) { return c07u_same(ret, VERIF_M_powf(t, u)); }
static inline int pre_verif_uf_f_arccos(float t) { return 1; }
static inline int post_verif_uf_f_arccos(float t, float ret) { return c07u_same(ret, VERIF_M_acosf(t)); }
static inline int pre_verif_uf_f_arccosh(float t) { return 1; }
static inline int post_verif_uf_f_arccosh(float t, float ret) { return c07u_same(ret, VERIF_M_acoshf(t)); }
static inline int pre_verif_uf_f_arcsin(float t) { return 1; }
static inline int post_verif_uf_f_arcsin(float t, float ret) { return c07u_same(ret, VERIF_M_asinf(t)); }
static inline int pre_verif_uf_f_arcsinh(float t) { return 1; }
static inline int post_verif_uf_f_arcsinh(float t, float ret) { return c07u_same(ret, VERIF_M_asinhf(t)); }
static inline int pre_verif_uf_f_arctan(float t) { return 1; }
static inline int post_verif_uf_f_arctan(float t, float ret) { return c07u_same(ret, VERIF_M_atanf(t)); }
static inline int pre_verif_uf_f_arctanh(float t) { return 1; }
static inline int post_verif_uf_f_arctanh(float t, float ret) { return c07u_same(ret, VERIF_M_atanhf(t)); }
static inline int pre_verif_uf_f_cbrt(float t) { return 1; }
static inline int post_verif_uf_f_cbrt(float t, float ret) { return c07u_same(ret, VERIF_M_cbrtf(t)); }
static inline int pre_verif_uf_f_ceil(float t) { return 1; }
static inline int post_verif_uf_f_ceil(float t, float ret) { return c07u_same(ret, VERIF_M_ceilf(t)); }
static inline int pre_verif_uf_f_cos(float t) { return 1; }
static inline int post_verif_uf_f_cos(float t, float ret) { return c07u_same(ret, VERIF_M_cosf(t)); }
static inline int pre_verif_uf_f_cosh(float t) { return 1; }
static inline int post_verif_uf_f_cosh(float t, float ret) { return c07u_same(ret, VERIF_M_coshf(t)); }
static inline int pre_verif_uf_f_exp(float t) { return 1; }
static inline int post_verif_uf_f_exp(float t, float ret) { return c07u_same(ret, VERIF_M_expf(t)); }
static inline int pre_verif_uf_f_exp2(float t) { return 1; }
static inline int post_verif_uf_f_exp2(float t, float ret) { return c07u_same(ret, VERIF_M_exp2f(t)); }
static inline int pre_verif_uf_f_expm1(float t) { return 1; }
static inline int post_verif_uf_f_expm1(float t, float ret) { return c07u_same(ret, VERIF_M_expm1f(t)); }
static inline int pre_verif_uf_f_fabs(float t) { return 1; }
static inline int post_verif_uf_f_fabs(float t, float ret) { return c07u_same(ret, VERIF_M_fabsf(t)); }
static inline int pre_verif_uf_f_floor(float t) { return 1; }
static inline int post_verif_uf_f_floor(float t, float ret) { return c07u_same(ret, VERIF_M_floorf(t)); }
static inline int pre_verif_uf_f_log(float t) { return 1; }
static inline int post_verif_uf_f_log(float t, float ret) { return c07u_same(ret, VERIF_M_logf(t)); }
static inline int pre_verif_uf_f_log10(float t) { return 1; }
static inline int post_verif_uf_f_log10(float t, float ret) { return c07u_same(ret, VERIF_M_log10f(t)); }
static inline int pre_verif_uf_f_log1p(float t) { return 1; }
static inline int post_verif_uf_f_log1p(float t, float ret) { return c07u_same(ret, VERIF_M_log1pf(t)); }
static inline int pre_verif_uf_f_log2(float t) { return 1; }
static inline int post_verif_uf_f_log2(float t, float ret) { return c07u_same(ret, VERIF_M_log2f(t)); }
static inline int pre_verif_uf_f_rint(float t) { return 1; }
static inline int post_verif_uf_f_rint(float t, float ret) { return c07u_same(ret, VERIF_M_rintf(t)); }
static inline int pre_verif_uf_f_sin(float t) { return 1; }
static inline int post_verif_uf_f_sin(float t, float ret) { return c07u_same(ret, VERIF_M_sinf(t)); }
static inline int pre_verif_uf_f_sinh(float t) { return 1; }
static inline int post_verif_uf_f_sinh(float t, float ret) { return c07u_same(ret, VERIF_M_sinhf(t)); }
static inline int pre_verif_uf_f_sqrt(float t) { return 1; }
static inline int post_verif_uf_f_sqrt(float t, float ret) { return c07u_same(ret, VERIF_M_sqrtf(t)); }
static inline int pre_verif_uf_f_tan(float t) { return 1; }
static inline int post_verif_uf_f_tan(float t, float ret) { return c07u_same(ret, VERIF_M_tanf(t)); }
static inline int pre_verif_uf_f_tanh(float t) { return 1; }
static inline int post_verif_uf_f_tanh(float t, float ret) { return c07u_same(ret, VERIF_M_tanhf(t)); }
static inline int pre_verif_uf_f_trunc(float t) { return 1; }
static inline int post_verif_uf_f_trunc(float t, float ret) { return c07u_same(ret, VERIF_M_truncf(t)); }
static inline int pre_verif_uf_f_negative(float t) { return 1; }
static inline int post_verif_uf_f_negative(float t, float ret) { return c07u_same(ret, (-t)); }
static inline int pre_verif_uf_f_positive(float t) { return 1; }
static inline int post_verif_uf_f_positive(float t, float ret) { return c07u_same(ret, (+t)); }
static inline int pre_verif_uf_f_square(float t) { return 1; }
static inline int post_verif_uf_f_square(float t, float ret) { return c07u_same(ret, FOP_mul_f(t, t)); }
static inline int pre_verif_uf_f_reciprocal(float t) { return 1; }
static inline int post_verif_uf_f_reciprocal(float t, float ret) { return c07u_same(ret, FOP_div_f(1.0f, t)); }
static inline int pre_verif_uf_f_less(float t, float u) { return 1; }
static inline int post_verif_uf_f_less(float t, float u, _Bool ret) { return (ret != 0) == (t < u); }
static inline int pre_verif_uf_f_less_equal(float t, float u) { return 1; }
static inline int post_verif_uf_f_less_equal(float t, float u, _Bool ret) { return (ret != 0) == (t <= u); }
static inline int pre_verif_uf_f_greater(float t, float u) { return 1; }
static inline int post_verif_uf_f_greater(float t, float u, _Bool ret) { return (ret != 0) == (t > u); }
static inline int pre_verif_uf_f_greater_equal(float t, float u) { return 1; }
static inline int post_verif_uf_f_greater_equal(float t, float u, _Bool ret) { return (ret != 0) == (t >= u); }
static inline int pre_verif_uf_f_equal(float t, float u) { return 1; }
static inline int post_verif_uf_f_equal(float t, float u, _Bool ret) { return (ret != 0) == (t == u); }
static inline int pre_verif_uf_f_not_equal(float t, float u) { return 1; }
static inline int post_verif_uf_f_not_equal(float t, float u, _Bool ret) { return (ret != 0) == (t != u); }
static inline int pre_verif_uf_i_add(int t, int u) { return c07u_small(t) && c07u_small(u); }
static inline int post_verif_uf_i_add(int t, int u, int ret) { return ret == (t + u); }
static inline int pre_verif_uf_i_subtract(int t, int u) { return c07u_small(t) && c07u_small(u); }
static inline int post_verif_uf_i_subtract(int t, int u, int ret) { return ret == (t - u); }
static inline int pre_verif_uf_i_bitwise_and(int t, int u) { return 1; }
static inline int post_verif_uf_i_bitwise_and(int t, int u, int ret) { return ret == (t & u); }
static inline int pre_verif_uf_i_bitwise_or(int t, int u) { return 1; }
static inline int post_verif_uf_i_bitwise_or(int t, int u, int ret) { return ret == (t | u); }
static inline int pre_verif_uf_i_bitwise_xor(int t, int u) { return 1; }
static inline int post_verif_uf_i_bitwise_xor(int t, int u, int ret) { return ret == (t ^ u); }
static inline int pre_verif_uf_i_left_shift(int t, int u) { return t >= 0 && t <= 0xffff && u >= 0 && u <= 14; }
static inline int post_verif_uf_i_left_shift(int t, int u, int ret) { return ret == (t << u); }
static inline int pre_verif_uf_i_right_shift(int t, int u) { return t >= 0 && u >= 0 && u <= 31; }
static inline int post_verif_uf_i_right_shift(int t, int u, int ret) { return ret == (t >> u); }
static inline int pre_verif_uf_i_mod(int t, int u) { return u != 0 && !(t == (-2147483647 - 1) && u == -1); }
static inline int post_verif_uf_i_mod(int t, int u, int ret) { return ret == (MOD_i(t, u)); }
static inline int pre_verif_uf_i_maximum(int t, int u) { return 1; }
static inline int post_verif_uf_i_maximum(int t, int u, int ret) { return ret == ((t > u ? t : u)); }
static inline int pre_verif_uf_i_minimum(int t, int u) { return 1; }
static inline int post_verif_uf_i_minimum(int t, int u, int ret) { return ret == ((t < u ? t : u)); }
static inline int pre_verif_uf_i_invert(int t) { return 1; }
static inline int post_verif_uf_i_invert(int t, int ret) { return ret == (~t); }
static inline int pre_verif_uf_i_negative(int t) { return t != (-2147483647 - 1); }
static inline int post_verif_uf_i_negative(int t, int ret) { return ret == (-t); }
static inline int pre_verif_uf_i_square(int t) { return t >= -30000 && t <= 30000; }
static inline int post_verif_uf_i_square(int t, int ret) { return ret == (t * t); }
static inline int pre_verif_uf_i_logical_and(int t, int u) { return 1; }
static inline int post_verif_uf_i_logical_and(int t, int u, _Bool ret) { return (ret != 0) == ((t != 0) && (u != 0)); }
static inline int pre_verif_uf_i_logical_or(int t, int u) { return 1; }
static inline int post_verif_uf_i_logical_or(int t, int u, _Bool ret) { return (ret != 0) == ((t != 0) || (u != 0)); }
static inline int pre_verif_uf_i_logical_xor(int t, int u) { return 1; }
static inline int post_verif_uf_i_logical_xor(int t, int u, _Bool ret) { return (ret != 0) == ((t != 0) != (u != 0)); }
static inline int pre_verif_uf_i_logical_not(int t) { return 1; }
static inline int post_verif_uf_i_logical_not(int t, _Bool ret) { return (ret != 0) == (t == 0); }
