/* C12 spec, evaluator part, binary ufuncs (inst/c12b.cpp): evaluator_t<view, simd_base_t<tag>>::eval_binary over abstract 2-d operands.
 * lhs (r1,c1), rhs (r2,c2) broadcastable in the NumPy sense, view shape (R,C) = element-wise max; output (ro,co); op(x,y) = x - y on unsigned elements (modular).
 *   output shape != (R,C): refused (false), the output is untouched;
 *   otherwise: true, out[i][j] = lhs[bi][bj] - rhs[...] for every (i,j), nothing beyond the R*C elements is written;
 *   every buffer access stays inside the 16-element buffers (the verifier's bounds checks on the real loops). */
#include "spec/abi.h"
#define BCAP 16UL
static inline int c12b_shape_ok(verif_arr2_t a) { return ARR_AT(a.shp, 0) >= 1UL && ARR_AT(a.shp, 1) >= 1UL && ARR_AT(a.shp, 0) <= 3UL && ARR_AT(a.shp, 1) <= 6UL && ARR_AT(a.shp, 0) * ARR_AT(a.shp, 1) <= 12UL; }
static inline int c12b_bc(unsigned long a, unsigned long b) { return a == b || a == 1UL || b == 1UL; }
static inline unsigned long c12b_max(unsigned long a, unsigned long b) { return a > b ? a : b; }
static inline int c12b_pre(verif_arr2_t lhs, verif_arr2_t rhs, verif_arr2_t out)
{
  int ok = c12b_shape_ok(lhs) && c12b_shape_ok(rhs) && c12b_shape_ok(out)
        && c12b_bc(ARR_AT(lhs.shp, 0), ARR_AT(rhs.shp, 0)) && c12b_bc(ARR_AT(lhs.shp, 1), ARR_AT(rhs.shp, 1))
        && c12b_max(ARR_AT(lhs.shp, 0), ARR_AT(rhs.shp, 0)) * c12b_max(ARR_AT(lhs.shp, 1), ARR_AT(rhs.shp, 1)) <= 12UL;
  return ok;
}
static inline int c12b_post(verif_arr2_t lhs, verif_arr2_t rhs, verif_arr2_t out, verif_eval2_res_t ret)
{
  unsigned long R = c12b_max(ARR_AT(lhs.shp, 0), ARR_AT(rhs.shp, 0)), C = c12b_max(ARR_AT(lhs.shp, 1), ARR_AT(rhs.shp, 1));
  int ok = ARR_AT(ret.out.shp, 0) == ARR_AT(out.shp, 0) && ARR_AT(ret.out.shp, 1) == ARR_AT(out.shp, 1);
  if (!(ARR_AT(out.shp, 0) == R && ARR_AT(out.shp, 1) == C)) {
    ok = ok && !ret.ok;
    for (unsigned long k = 0; k < BCAP; k++) ok = ok && ret.out.buf[k] == out.buf[k];
    return ok;
  }
  ok = ok && ret.ok;
  for (unsigned long k = 0; k < BCAP; k++) {
    if (k < R * C) {
      unsigned long i = k / C, j = k % C;
      unsigned long li = (ARR_AT(lhs.shp, 0) == 1UL ? 0UL : i) * ARR_AT(lhs.shp, 1) + (ARR_AT(lhs.shp, 1) == 1UL ? 0UL : j);
      unsigned long ri = (ARR_AT(rhs.shp, 0) == 1UL ? 0UL : i) * ARR_AT(rhs.shp, 1) + (ARR_AT(rhs.shp, 1) == 1UL ? 0UL : j);
      ok = ok && li < BCAP && ri < BCAP && ret.out.buf[k] == lhs.buf[li] - rhs.buf[ri];
    } else ok = ok && ret.out.buf[k] == out.buf[k];
  }
  return ok;
}
static inline int pre_verif_eval_binary_4(verif_arr2_t lhs, verif_arr2_t rhs, verif_arr2_t out) { return c12b_pre(lhs, rhs, out); }
static inline int post_verif_eval_binary_4(verif_arr2_t lhs, verif_arr2_t rhs, verif_arr2_t out, verif_eval2_res_t ret) { return c12b_post(lhs, rhs, out, ret); }
