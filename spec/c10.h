/* C10 spec: the evaluator loop  `for i < n: apply_at(output, out_index[i]) = apply_at(view, inp_index[i])`  of
 * evaluator_t<view,none>::operator()(output&), proved against ABSTRACT operands (DESIGN.md 4.6): the view is an uninterpreted pure
 * function of the multi-index, the enumeration ndindex(shape)[i] and the output addressing are used through their contracts. */
#include "spec/abi.h"
#define ALL4(P) (P(0UL) && P(1UL) && P(2UL) && P(3UL))
#define ALL6(P) (P(0UL) && P(1UL) && P(2UL) && P(3UL) && P(4UL) && P(5UL))
#define FEQ(x, y) ((x) == (y) || ((x) != (x) && (y) != (y)))

GHOST_ARR(unsigned long, GS, 5)      /* the view's shape: GS[0] = rank, GS[1+k] = extent of axis k */
GHOST(unsigned long, GN)             /* the view's element count */
GHOST_ARR(unsigned long, IDXV, 24)   /* IDXV[i*4+k] = coordinate k of ndindex(shape)[i], the i-th multi-index in row-major order */
GHOST_ARR(float, VG, 6)              /* VG[i] = view element at the i-th multi-index */

GHOST(unsigned long, W4)             /* first position at which two index arrays differ (for the isequal contract unit) */
#ifndef VERIF_NATIVE
/* the lazy view: an arbitrary pure function of the (live part of the) multi-index */
float __CPROVER_uninterpreted_vv(unsigned long, unsigned long, unsigned long, unsigned long, unsigned long);
/* buffer position addressed by output(idx): an arbitrary pure function of the multi-index ... */
unsigned long __CPROVER_uninterpreted_pos(unsigned long, unsigned long, unsigned long, unsigned long, unsigned long);
#define C10_CO(v, k)   ((k) < (v).size_ ? (v).buffer.buffer[k] : 0UL)
#define C10_CI(p, k)   ((k) < GS[0] ? IDXV[(p) * 4UL + (k)] : 0UL)
#define VVF(v)         __CPROVER_uninterpreted_vv((v).size_, C10_CO(v, 0UL), C10_CO(v, 1UL), C10_CO(v, 2UL), C10_CO(v, 3UL))
#define VVF_AT(p)      __CPROVER_uninterpreted_vv(GS[0], C10_CI(p, 0UL), C10_CI(p, 1UL), C10_CI(p, 2UL), C10_CI(p, 3UL))
#define POSF(v)        __CPROVER_uninterpreted_pos((v).size_, C10_CO(v, 0UL), C10_CO(v, 1UL), C10_CO(v, 2UL), C10_CO(v, 3UL))
#define POSF_AT(p)     __CPROVER_uninterpreted_pos(GS[0], C10_CI(p, 0UL), C10_CI(p, 1UL), C10_CI(p, 2UL), C10_CI(p, 3UL))
#define C10_GS_AXIS(s, k)  (!((k) < GS[0]) || (s).buffer.buffer[k] == GS[1UL + (k)])
#define SHAPE_IS_GS(s) ((s).size_ == GS[0] && C10_GS_AXIS(s, 0UL) && C10_GS_AXIS(s, 1UL) && C10_GS_AXIS(s, 2UL) && C10_GS_AXIS(s, 3UL))
/* VG is bound to the view's values at the enumerated indices */
#define C10_VG_BOUND(p)   FEQ(VG[p], VVF_AT(p))
/* ... which, at the i-th enumerated multi-index of a well-formed array, is position i (C01: ndindex[i] = indices(i),
 * base_ndarray(idx) = data[offset(idx)]; lemma L1 of lemmas/MixedRadix.lean: offset(indices(i)) = i) */
#define C10_POS_ENUM(p)   (!((p) < GN) || POSF_AT(p) == (p))
#endif

#ifndef VERIF_NATIVE
/* first differing position of two index arrays of the same length (len if none) */
static inline unsigned long c10_first_diff(sv4_t a, sv4_t b)
{
  unsigned long r = SV_LEN(a);
  for (unsigned long k = 4; k > 0; k--) if (k - 1 < SV_LEN(a) && SV_AT(a, k - 1) != SV_AT(b, k - 1)) r = k - 1;
  return r;
}
#endif

/* ---- bounded unit: element of the lazy view transpose(src) at multi-index idx == NumPy's src.T[idx] = src[reversed idx] */
static inline int c10_small_shape(sv4_t s)
{ if (SV_LEN(s) > 3UL) return 0; int ok = 1; for (unsigned long k = 0; k < 3; k++) if (k < SV_LEN(s)) ok = ok && SV_AT(s, k) >= 1UL && SV_AT(s, k) <= 6UL; return ok; }
static inline unsigned long c10_numel3(sv4_t s) { unsigned long p = 1; for (unsigned long k = 0; k < 3; k++) if (k < SV_LEN(s)) p = p * SV_AT(s, k); return p; }
static inline int pre_verif_transpose_at(fb6_t src_data, sv4_t src_shape, sv4_t idx)
{
  if (!(c10_small_shape(src_shape) && SV_LEN(idx) == SV_LEN(src_shape) && SV_LEN(src_data) <= 6UL)) return 0;
  int ok = 1;   /* idx is a valid index of the TRANSPOSED shape: idx[k] < src_shape[n-1-k] */
  for (unsigned long k = 0; k < 3; k++) if (k < SV_LEN(idx)) ok = ok && SV_AT(idx, k) < SV_AT(src_shape, SV_LEN(idx) - 1UL - k);
  return ok;
}
static inline int post_verif_transpose_at(fb6_t src_data, sv4_t src_shape, sv4_t idx, vat_res_t ret)
{
  if (ret.ok != (c10_numel3(src_shape) <= 6UL)) return 0;
  if (!ret.ok) return 1;
  unsigned long n = SV_LEN(src_shape), q = 0UL;
  for (unsigned long j = 0; j < 3; j++)
    if (j < n) {
      unsigned long stride = 1UL;
      for (unsigned long t = 0; t < 3; t++) if (t > j && t < n) stride = stride * SV_AT(src_shape, t);
      q = q + SV_AT(idx, n - 1UL - j) * stride;      /* source coordinate j is destination coordinate n-1-j */
    }
  return q < 6UL && FEQ(ret.value, SV_AT(src_data, q));
}

