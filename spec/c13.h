/* C13 spec: per-thread device kernel helpers (eval/kernel_helper.hpp): global thread id, shape reconstruction from a raw
 * (pointer, dim) pair, guarded per-thread assignment with its frame. */
#include "spec/abi.h"
GHOST(unsigned long, g)        /* universally quantified position */
GHOST(unsigned long, IDX)      /* the global id of the thread: block * block_size + thread */

#define KMAXDIM 8UL            /* NMTOOLS_KERNEL_MAX_DIM (default): capacity of the static_vector built by create_vector<0> */
#ifdef VERIF_NATIVE
  #define KS_X(k) ((k).id[0])
#else
  #define KS_X(k) ((k).id[0])
#endif
#define C13_GID(thread_id, block_id, block_size) (MUL_ul(KS_X(block_id), KS_X(block_size)) + KS_X(thread_id))

/* ---- compute_offset(thread, block, block_size) == block.x * block_size.x + thread.x */
static inline int pre_verif_compute_offset(ks_t thread_id, ks_t block_id, ks_t block_size) { return 1; }
static inline int post_verif_compute_offset(ks_t thread_id, ks_t block_id, ks_t block_size, unsigned long ret)
{ return ret == C13_GID(thread_id, block_id, block_size); }
/* bit-precise, for launch extents that fit 32 bits (CUDA/HIP: gridDim.x <= 2^31-1, blockDim.x <= 1024): nothing wraps
 * (unsigned-overflow checks are on for this unit), so the machine value IS the natural number block*block_size+thread, and the
 * value equation itself is the unit compute_offset.uf; the block range [block*bs, block*bs+bs) is lemma grid_block_range) */
#define C13_LAUNCH32(thread_id, block_id, block_size) \
  (KS_X(block_id) <= 0xffffffffUL && KS_X(block_size) <= 0xffffffffUL && KS_X(thread_id) < KS_X(block_size))
static inline int pre_verif_compute_offset_nowrap(ks_t thread_id, ks_t block_id, ks_t block_size)
{ return C13_LAUNCH32(thread_id, block_id, block_size); }
static inline int post_verif_compute_offset_nowrap(ks_t thread_id, ks_t block_id, ks_t block_size, unsigned long ret)
{ return ret >= KS_X(thread_id); }   /* the deciding obligations of this unit are the two unsigned-overflow checks on `*` and `+` */
#ifndef VERIF_NATIVE
/* bounded bit-precise cross-check of the Lean lemma grid_injective (lemmas/c13_grid.lean) on the machine expression:
 * block sizes 1..33, block ids 0..255 (the range of launch shapes named in the property statement) */
static inline int lemma_grid_injective_small(unsigned long b1, unsigned long t1, unsigned long b2, unsigned long t2, unsigned long bs)
{
  if (!(b1 <= 255UL && b2 <= 255UL && bs <= 33UL && t1 < bs && t2 < bs)) return 1;
  if (b1 * bs + t1 != b2 * bs + t2) return 1;
  return b1 == b2 && t1 == t2;
}
/* every idx below grid*bs is the id of the legal thread (idx / bs, idx % bs) (cross-check of grid_cover) */
static inline int lemma_grid_cover_small(unsigned long grid, unsigned long bs, unsigned long idx)
{
  if (!(grid <= 255UL && bs >= 1UL && bs <= 33UL && idx < grid * bs)) return 1;
  return idx / bs < grid && idx % bs < bs && (idx / bs) * bs + idx % bs == idx;
}
#endif

/* ---- create_vector<0>(ptr, dim): a vector of length dim with the first dim entries of ptr; needs dim <= capacity.
 *      The source is a by-value container of 16 entries, so dim <= 16 entries are readable. */
#define C13_SRC_AT(src, k) SV_AT(src, k)
static inline int pre_verif_create_vector(sv16_t src, unsigned long dim) { return dim <= 16UL; }
static inline int post_verif_create_vector(sv16_t src, unsigned long dim, sv_t ret)
{ return SV_LEN(ret) == dim && dim <= KMAXDIM && IMPLIES(g < dim, SV_AT(ret, g) == C13_SRC_AT(src, g)); }
/* known finding (known_findings.json): nothing bounds dim by the capacity */
#define C13_DIM_EXCEEDS_CAPACITY(dim) ((dim) > KMAXDIM)
/* create_vector<3>: fixed-size result, copies dim <= 3 entries */
static inline int pre_verif_create_vector_fixed3(sv16_t src, unsigned long dim) { return dim <= 3UL; }
static inline int post_verif_create_vector_fixed3(sv16_t src, unsigned long dim, a3_t ret)
{ return IMPLIES(g < dim, ARR_AT(ret, g) == C13_SRC_AT(src, g)) && IMPLIES(g >= dim && g < 3UL, ARR_AT(ret, g) == 0UL); }

/* ---- assign_result(out, rhs, thread, block, block_size) with abstract flat views:
 *      idx < size : out[idx] = rhs(idx) and NOTHING else changes (frame);   idx >= size : nothing changes at all */
static inline int pre_verif_assign_result(verif_out_t out, verif_rhs_t rhs, ks_t thread_id, ks_t block_id, ks_t block_size)
{ return out.n <= 32UL && GHOST_DEF(IDX, C13_GID(thread_id, block_id, block_size)); }
static inline int post_verif_assign_result(verif_out_t out, verif_rhs_t rhs, ks_t thread_id, ks_t block_id, ks_t block_size, verif_out_t ret)
{
  int ok = ret.n == out.n;
  if (IDX < out.n) ok = ok && ret.buf[IDX] == rhs.val[IDX];                 /* the thread's own element */
  if (g < 32UL && !(IDX < out.n && g == IDX)) ok = ok && ret.buf[g] == out.buf[g];   /* frame: every other cell (also beyond n) is untouched */
  return ok;
}

/* create_array<0>(data, shape_ptr, dim): the rebuilt operand has exactly the dim extents shape_ptr[0..dim) (every position), in order.
 * Extents are below 2^63 (reshape reads a "negative" extent as the -1 wildcard). */
static inline int c13_extents_ok(sv16_t src, unsigned long dim)
{
  int ok = 1;
  for (unsigned long t = 0; t < 8UL; t++) ok = ok && IMPLIES(t < dim, SV_AT(src, t) <= 0x7fffffffffffffffUL);
  return ok;
}
static inline int pre_verif_create_array_shape(sv16_t src, unsigned long dim)
{ return SV_LEN(src) == 16UL && 1UL <= dim && dim <= 8UL && c13_extents_ok(src, dim); }   /* rank 0 (numbers) go through create_array(T) */
static inline int post_verif_create_array_shape(sv16_t src, unsigned long dim, ca_obs_t ret)
{ return ret.ok && ret.dim == dim && SV_LEN(ret.shape) == dim && IMPLIES(g < dim, SV_AT(ret.shape, g) == SV_AT(src, g)); }
/* the same for dim <= 4 (the quick bounded unit) */
static inline int pre_verif_create_array_shape4(sv16_t src, unsigned long dim)
{ return pre_verif_create_array_shape(src, dim) && dim <= 4UL; }
static inline int post_verif_create_array_shape4(sv16_t src, unsigned long dim, ca_obs_t ret)
{ return post_verif_create_array_shape(src, dim, ret); }
