/* C06 spec: NumPy broadcasting of two shapes (right-aligned; per axis equal or 1; result = per-axis max) */
#include "spec/abi.h"
GHOST(unsigned long, g)

#define MAXU(a, b) ((a) > (b) ? (a) : (b))
/* extent of operand v (rank lv) at result axis k of a result of rank rd; 1 if the operand has no such axis */
#define BC_HAS(lv, rd, k)     ((k) + (lv) >= (rd))
#define BC_EXT(v, lv, rd, k)  (BC_HAS(lv, rd, k) ? SV_AT(v, (k) + (lv) - (rd)) : 1UL)

static inline unsigned long spec_bcast_dim(sv_t a, sv_t b) { return MAXU(SV_LEN(a), SV_LEN(b)); }
/* axis k (0 = leftmost of the result) is compatible */
static inline int spec_bcast_compat(sv_t a, sv_t b, unsigned long k)
{
  unsigned long rd = spec_bcast_dim(a, b);
  if (!BC_HAS(SV_LEN(a), rd, k) || !BC_HAS(SV_LEN(b), rd, k)) return 1;
  unsigned long x = BC_EXT(a, SV_LEN(a), rd, k), y = BC_EXT(b, SV_LEN(b), rd, k);
  return x == y || x == 1UL || y == 1UL;
}
static inline unsigned long spec_bcast_extent(sv_t a, sv_t b, unsigned long k)
{
  unsigned long rd = spec_bcast_dim(a, b);
  if (BC_HAS(SV_LEN(a), rd, k) && BC_HAS(SV_LEN(b), rd, k))
    return MAXU(BC_EXT(a, SV_LEN(a), rd, k), BC_EXT(b, SV_LEN(b), rd, k));
  return BC_HAS(SV_LEN(a), rd, k) ? BC_EXT(a, SV_LEN(a), rd, k) : BC_EXT(b, SV_LEN(b), rd, k);
}
static inline int spec_bcast_ok(sv_t a, sv_t b)
{
  int ok = 1;
  for (unsigned long k = 0; k < CAP; k++)
    if (k < spec_bcast_dim(a, b)) ok = ok && spec_bcast_compat(a, b, k);
  return ok;
}

static inline int pre_verif_broadcast_shape(sv_t a, sv_t b)
{ return SV_LEN(a) <= CAP && SV_LEN(b) <= CAP; }
static inline int post_verif_broadcast_shape(sv_t a, sv_t b, opt_hn_t ret)
{
  /* success exactly when all aligned extents are equal or 1 (forall-direction via ghost g, exists-direction via spec_bcast_ok) */
  if (!OPT_HAS(ret)) return !spec_bcast_ok(a, b);   /* failure only if some axis is incompatible */
  if (HN_LEN(OPT_VAL(ret)) != spec_bcast_dim(a, b)) return 0;
  return IMPLIES(g < spec_bcast_dim(a, b), spec_bcast_compat(a, b, g) && HN_AT(OPT_VAL(ret), g) == spec_bcast_extent(a, b, g));
}

/* ---- kind F (std::array operands, meta::template_for branch): the SAME rule through a logical conversion
 * (TUs that reuse this header without instantiating kind F define C06_NO_FIXED first) */
#ifndef C06_NO_FIXED
#ifndef ARR_AT
#ifdef VERIF_NATIVE
  #define ARR_AT(a, i) ((a)[i])
#else
  #define ARR_AT(a, i) ((a)._M_elems[i])
#endif
#endif
#ifdef VERIF_NATIVE
static inline sv_t c06_sv3(a3_t a) { sv_t s; s.resize(3); for (int k = 0; k < 3; k++) s[k] = a[k]; return s; }
static inline sv_t c06_sv2(a2_t a) { sv_t s; s.resize(2); for (int k = 0; k < 2; k++) s[k] = a[k]; return s; }
#else
static inline sv_t c06_sv3(a3_t a) { sv_t s; s.size_ = 3UL; for (int k = 0; k < 8; k++) s.buffer.buffer[k] = (k < 3) ? a._M_elems[k] : 0UL; return s; }
static inline sv_t c06_sv2(a2_t a) { sv_t s; s.size_ = 2UL; for (int k = 0; k < 8; k++) s.buffer.buffer[k] = (k < 2) ? a._M_elems[k] : 0UL; return s; }
#endif
static inline int c06_post_fixed(sv_t a, sv_t b, opt_a3_t ret)
{
  if (!OPT_HAS(ret)) return !spec_bcast_ok(a, b);
  if (!spec_bcast_ok(a, b) || spec_bcast_dim(a, b) != 3UL) return 0;
  int ok = 1;
  for (unsigned long k = 0; k < 3; k++) ok = ok && ARR_AT(OPT_VAL(ret), k) == spec_bcast_extent(a, b, k);
  return ok;
}
static inline int pre_verif_f_broadcast_shape(a3_t a, a3_t b) { return 1; }
static inline int post_verif_f_broadcast_shape(a3_t a, a3_t b, opt_a3_t ret) { return c06_post_fixed(c06_sv3(a), c06_sv3(b), ret); }
/* kind C: clipped operands (bound 8) -- the same predicate */
static inline int pre_verif_c_broadcast_shape(a3_t a, a3_t b)
{ return ARR_AT(a, 0) <= 8UL && ARR_AT(a, 1) <= 8UL && ARR_AT(a, 2) <= 8UL && ARR_AT(b, 0) <= 8UL && ARR_AT(b, 1) <= 8UL && ARR_AT(b, 2) <= 8UL; }
static inline int post_verif_c_broadcast_shape(a3_t a, a3_t b, opt_a3_t ret) { return c06_post_fixed(c06_sv3(a), c06_sv3(b), ret); }
static inline int pre_verif_f_broadcast_shape32(a3_t a, a2_t b) { return 1; }
static inline int post_verif_f_broadcast_shape32(a3_t a, a2_t b, opt_a3_t ret) { return c06_post_fixed(c06_sv3(a), c06_sv2(b), ret); }
#endif /* C06_NO_FIXED */

/* ---- shape_broadcast_to(a -> b): NumPy broadcast_to rule; result (b, free_axes) */
static inline int spec_bto_axis_ok(sv_t a, sv_t b, unsigned long k)   /* k: axis of b */
{
  if (!BC_HAS(SV_LEN(a), SV_LEN(b), k)) return 1;                      /* prepended axis */
  unsigned long x = SV_AT(a, k + SV_LEN(a) - SV_LEN(b)), y = SV_AT(b, k);
  return x == y || x == 1UL;
}
static inline int spec_bto_axis_free(sv_t a, sv_t b, unsigned long k)
{
  if (!BC_HAS(SV_LEN(a), SV_LEN(b), k)) return 1;
  unsigned long x = SV_AT(a, k + SV_LEN(a) - SV_LEN(b)), y = SV_AT(b, k);
  return x != y;                                                       /* stretched (x == 1, y != 1) */
}
static inline int spec_bto_ok(sv_t a, sv_t b)
{
  if (SV_LEN(b) < SV_LEN(a)) return 0;
  int ok = 1;
  for (unsigned long k = 0; k < CAP; k++) if (k < SV_LEN(b)) ok = ok && spec_bto_axis_ok(a, b, k);
  return ok;
}
static inline int pre_verif_shape_broadcast_to(sv_t a, sv_t b)
{ return SV_LEN(a) <= CAP && SV_LEN(b) <= CAP; }
static inline int post_verif_shape_broadcast_to(sv_t a, sv_t b, opt_bto_t ret)
{
  if (!OPT_HAS(ret)) return !spec_bto_ok(a, b);
  if (SV_LEN(b) < SV_LEN(a)) return 0;
  if (SV_LEN(TUP_GET(OPT_VAL(ret), 0)) != SV_LEN(b) || SV_LEN(TUP_GET(OPT_VAL(ret), 1)) != SV_LEN(b)) return 0;
  return IMPLIES(g < SV_LEN(b), spec_bto_axis_ok(a, b, g)
                                && SV_AT(TUP_GET(OPT_VAL(ret), 0), g) == SV_AT(b, g)
                                && (SV_AT(TUP_GET(OPT_VAL(ret), 1), g) != 0) == (spec_bto_axis_free(a, b, g) != 0));
}

/* ---- algebraic laws of the broadcast rule, stated over the spec functions (lemma units; ranks 0..CAP, any extents) */
typedef struct { int ok; unsigned long dim; unsigned long ext[8]; } bc_t;
static inline bc_t spec_bcast(sv_t a, sv_t b)
{
  bc_t r; r.ok = spec_bcast_ok(a, b); r.dim = spec_bcast_dim(a, b);
  for (unsigned long k = 0; k < CAP; k++) r.ext[k] = (k < r.dim) ? spec_bcast_extent(a, b, k) : 0UL;
  return r;
}
#ifndef VERIF_NATIVE
static inline sv_t bc_to_sv(bc_t r)
{ sv_t s; s.size_ = r.dim; for (unsigned long k = 0; k < CAP; k++) s.buffer.buffer[k] = r.ext[k]; return s; }
static inline int bc_eq(bc_t x, bc_t y)
{
  if (x.ok != y.ok) return 0;
  if (!x.ok) return 1;
  if (x.dim != y.dim) return 0;
  int e = 1;
  for (unsigned long k = 0; k < CAP; k++) if (k < x.dim) e = e && x.ext[k] == y.ext[k];
  return e;
}
static inline int sv_wf(sv_t a) { return SV_LEN(a) <= CAP; }
/* positive extents (the property quantifies over shapes of positive extents; with a 0 extent the max rule gives
 * (0,)+(1,) -> (1,) and grouping then matters: ((0,)+(1,))+(2,) succeeds, (0,)+((1,)+(2,)) fails) */
static inline int sv_pos(sv_t a) { int e = 1; for (unsigned long k = 0; k < CAP; k++) if (k < SV_LEN(a)) e = e && SV_AT(a, k) >= 1UL; return e; }
/* operand order does not matter */
static inline int lemma_bcast_commutative(sv_t a, sv_t b)
{ return !(sv_wf(a) && sv_wf(b)) || bc_eq(spec_bcast(a, b), spec_bcast(b, a)); }
/* broadcasting a shape with itself changes nothing */
static inline int lemma_bcast_idempotent(sv_t a)
{ if (!sv_wf(a)) return 1; bc_t r = spec_bcast(a, a); int e = r.ok && r.dim == SV_LEN(a);
  for (unsigned long k = 0; k < CAP; k++) if (k < r.dim) e = e && r.ext[k] == SV_AT(a, k); return e; }
/* broadcasting with the result changes nothing */
static inline int lemma_bcast_absorb(sv_t a, sv_t b)
{ if (!(sv_wf(a) && sv_wf(b))) return 1; bc_t r = spec_bcast(a, b); if (!r.ok) return 1;
  return bc_eq(spec_bcast(a, bc_to_sv(r)), r) && bc_eq(spec_bcast(bc_to_sv(r), b), r); }
/* a scalar (rank 0) broadcasts with everything */
static inline int lemma_bcast_scalar(sv_t a, sv_t s)
{ if (!(sv_wf(a) && SV_LEN(s) == 0)) return 1; bc_t r = spec_bcast(a, s); int e = r.ok && r.dim == SV_LEN(a);
  for (unsigned long k = 0; k < CAP; k++) if (k < r.dim) e = e && r.ext[k] == SV_AT(a, k); return e; }
/* axis-wise form: with missing axes padded by 1, every result axis is comb(x,y) = (x==y||x==1||y==1, max(x,y)) */
static inline int lemma_bcast_axiswise(sv_t a, sv_t b, unsigned long k)
{
  if (!(sv_wf(a) && sv_wf(b) && sv_pos(a) && sv_pos(b))) return 1;
  unsigned long rd = spec_bcast_dim(a, b);
  if (k >= rd) return 1;
  unsigned long x = BC_EXT(a, SV_LEN(a), rd, k), y = BC_EXT(b, SV_LEN(b), rd, k);   /* 1 when the operand has no such axis */
  return spec_bcast_compat(a, b, k) == (x == y || x == 1UL || y == 1UL) && spec_bcast_extent(a, b, k) == MAXU(x, y);
}
/* the scalar combine is associative on positive extents (including failure) */
static inline int lemma_comb_associative(unsigned long x, unsigned long y, unsigned long z)
{
  if (!(x >= 1 && y >= 1 && z >= 1)) return 1;
  int okxy = (x == y || x == 1 || y == 1); unsigned long xy = MAXU(x, y);
  int okyz = (y == z || y == 1 || z == 1); unsigned long yz = MAXU(y, z);
  int okl = okxy && (xy == z || xy == 1 || z == 1); unsigned long l = MAXU(xy, z);
  int okr = okyz && (x == yz || x == 1 || yz == 1); unsigned long r = MAXU(x, yz);
  return okl == okr && (!okl || l == r);
}
/* grouping does not matter: (a+b)+c == a+(b+c), including failure */
static inline int lemma_bcast_associative(sv_t a, sv_t b, sv_t c)
{
  if (!(sv_wf(a) && sv_wf(b) && sv_wf(c) && sv_pos(a) && sv_pos(b) && sv_pos(c))) return 1;
  bc_t ab = spec_bcast(a, b), bc = spec_bcast(b, c);
  bc_t l; l.ok = 0; if (ab.ok) l = spec_bcast(bc_to_sv(ab), c);
  bc_t r; r.ok = 0; if (bc.ok) r = spec_bcast(a, bc_to_sv(bc));
  return bc_eq(l, r);
}
#endif

/* ---- element mapping of broadcast_to (bounded unit): source index = destination index with prepended axes dropped and
 *      stretched axes mapped to 0 */
#ifndef C06_NO_FIXED
static inline int c06_small(sv_t s, unsigned long maxrank, unsigned long maxext)
{ if (SV_LEN(s) > maxrank) return 0; int ok = 1; for (unsigned long k = 0; k < 4; k++) if (k < SV_LEN(s)) ok = ok && SV_AT(s, k) >= 1UL && SV_AT(s, k) <= maxext; return ok; }
static inline int pre_verif_broadcast_to_index(sv_t indices, sv_t src_shape, sv_t dst_shape)
{
  if (!(c06_small(src_shape, 4, 4) && c06_small(dst_shape, 4, 4) && SV_LEN(indices) == SV_LEN(dst_shape))) return 0;
  int ok = 1;
  for (unsigned long k = 0; k < 4; k++) if (k < SV_LEN(dst_shape)) ok = ok && SV_AT(indices, k) < SV_AT(dst_shape, k);   /* a valid destination index */
  return ok;
}
static inline int post_verif_broadcast_to_index(sv_t indices, sv_t src_shape, sv_t dst_shape, bti_res_t ret)
{
  if (ret.ok != (spec_bto_ok(src_shape, dst_shape) != 0)) return 0;
  if (!ret.ok) return 1;
  if (SV_LEN(ret.src_index) != SV_LEN(src_shape)) return 0;
  unsigned long shift = SV_LEN(dst_shape) - SV_LEN(src_shape);
  int ok = 1;
  for (unsigned long k = 0; k < 4; k++)
    if (k < SV_LEN(src_shape))
      ok = ok && SV_AT(ret.src_index, k) == (SV_AT(src_shape, k) == 1UL ? 0UL : SV_AT(indices, k + shift)) && SV_AT(ret.src_index, k) < SV_AT(src_shape, k);
  return ok;
}
#endif
