/* C06 spec: NumPy broadcasting of two shapes (right-aligned; per axis equal or 1; result = per-axis max) */
#include "spec/abi.h"
GHOST(unsigned long, g)

#define MAXU(a, b) ((a) > (b) ? (a) : (b))
/* extent of operand v (rank lv) at result axis k of a result of rank rd; 1 if the operand has no such axis */
#define BC_HAS(lv, rd, k)     ((k) + (lv) >= (rd))
#define BC_EXT(v, lv, rd, k)  (BC_HAS(lv, rd, k) ? SV_AT(v, (k) + (lv) - (rd)) : 1UL)

static inline unsigned long spec_bcast_dim(sv_t a, sv_t b) { return MAXU(SV_LEN(a), SV_LEN(b)); }
/* axis k (0 = leftmost of the result) is compatible */
static inline int spec_bcast_compat(sv_t a, sv_t b, unsigned long k)
{
  unsigned long rd = spec_bcast_dim(a, b);
  if (!BC_HAS(SV_LEN(a), rd, k) || !BC_HAS(SV_LEN(b), rd, k)) return 1;
  unsigned long x = BC_EXT(a, SV_LEN(a), rd, k), y = BC_EXT(b, SV_LEN(b), rd, k);
  return x == y || x == 1UL || y == 1UL;
}
static inline unsigned long spec_bcast_extent(sv_t a, sv_t b, unsigned long k)
{
  unsigned long rd = spec_bcast_dim(a, b);
  if (BC_HAS(SV_LEN(a), rd, k) && BC_HAS(SV_LEN(b), rd, k))
    return MAXU(BC_EXT(a, SV_LEN(a), rd, k), BC_EXT(b, SV_LEN(b), rd, k));
  return BC_HAS(SV_LEN(a), rd, k) ? BC_EXT(a, SV_LEN(a), rd, k) : BC_EXT(b, SV_LEN(b), rd, k);
}
static inline int spec_bcast_ok(sv_t a, sv_t b)
{
  int ok = 1;
  for (unsigned long k = 0; k < CAP; k++)
    if (k < spec_bcast_dim(a, b)) ok = ok && spec_bcast_compat(a, b, k);
  return ok;
}

static inline int pre_verif_broadcast_shape(sv_t a, sv_t b)
{ return SV_LEN(a) <= CAP && SV_LEN(b) <= CAP; }
static inline int post_verif_broadcast_shape(sv_t a, sv_t b, opt_hn_t ret)
{
  /* success exactly when all aligned extents are equal or 1 (forall-direction via ghost g, exists-direction via spec_bcast_ok) */
  if (!OPT_HAS(ret)) return !spec_bcast_ok(a, b);   /* failure only if some axis is incompatible */
  if (HN_LEN(OPT_VAL(ret)) != spec_bcast_dim(a, b)) return 0;
  return IMPLIES(g < spec_bcast_dim(a, b), spec_bcast_compat(a, b, g) && HN_AT(OPT_VAL(ret), g) == spec_bcast_extent(a, b, g));
}
