/* C04 spec, concrete-geometry bounded units (inst/c04k.cpp): shape of the view and, for each of its first 12 positions in C order, which
 * source element NumPy yields there: p < 6: d[p]; 6 <= p < 12: e[p-6] (second operand); p == 99: the constant 0 (padding / masked). */
#include "spec/abi.h"
static inline int c04k_check(ib6_t d, ib6_t e, sk_obs_t r, unsigned long n, unsigned long s0, unsigned long s1, unsigned long s2, const unsigned long *p)
{
  unsigned long sh[3] = {s0, s1, s2};
  int ok = SV_LEN(r.shape) == n && SV_LEN(r.elems) == 12UL;
  for (unsigned long t = 0; t < 3; t++) ok = ok && IMPLIES(t < n, SV_AT(r.shape, t) == sh[t]);
  for (unsigned long k = 0; k < 12; k++) ok = ok && SV_AT(r.elems, k) == (p[k] < 6UL ? SV_AT(d, p[k]) : (p[k] < 12UL ? SV_AT(e, p[k] - 6UL) : 0));
  return ok;
}
static const unsigned long c04k_p_tile[12] = {0UL, 1UL, 2UL, 3UL, 4UL, 5UL, 0UL, 1UL, 2UL, 3UL, 4UL, 5UL};
static inline int pre_verif_k_tile(ib6_t d) { return SV_LEN(d) == 6UL; }
static inline int post_verif_k_tile(ib6_t d, sk_obs_t ret) { return c04k_check(d, d, ret, 2UL, 4UL, 3UL, 0UL, c04k_p_tile); }
static const unsigned long c04k_p_repeat_axis[12] = {0UL, 1UL, 2UL, 0UL, 1UL, 2UL, 3UL, 4UL, 5UL, 3UL, 4UL, 5UL};
static inline int pre_verif_k_repeat_axis(ib6_t d) { return SV_LEN(d) == 6UL; }
static inline int post_verif_k_repeat_axis(ib6_t d, sk_obs_t ret) { return c04k_check(d, d, ret, 2UL, 4UL, 3UL, 0UL, c04k_p_repeat_axis); }
static const unsigned long c04k_p_roll_axis[12] = {2UL, 0UL, 1UL, 5UL, 3UL, 4UL, 99UL, 99UL, 99UL, 99UL, 99UL, 99UL};
static inline int pre_verif_k_roll_axis(ib6_t d) { return SV_LEN(d) == 6UL; }
static inline int post_verif_k_roll_axis(ib6_t d, sk_obs_t ret) { return c04k_check(d, d, ret, 2UL, 2UL, 3UL, 0UL, c04k_p_roll_axis); }
static const unsigned long c04k_p_roll_flat[12] = {4UL, 5UL, 0UL, 1UL, 2UL, 3UL, 99UL, 99UL, 99UL, 99UL, 99UL, 99UL};
static inline int pre_verif_k_roll_flat(ib6_t d) { return SV_LEN(d) == 6UL; }
static inline int post_verif_k_roll_flat(ib6_t d, sk_obs_t ret) { return c04k_check(d, d, ret, 2UL, 2UL, 3UL, 0UL, c04k_p_roll_flat); }
static const unsigned long c04k_p_pad[12] = {99UL, 0UL, 1UL, 2UL, 99UL, 3UL, 4UL, 5UL, 99UL, 99UL, 99UL, 99UL};
static inline int pre_verif_k_pad(ib6_t d) { return SV_LEN(d) == 6UL; }
static inline int post_verif_k_pad(ib6_t d, sk_obs_t ret) { return c04k_check(d, d, ret, 2UL, 3UL, 4UL, 0UL, c04k_p_pad); }
static const unsigned long c04k_p_take[12] = {2UL, 0UL, 5UL, 3UL, 99UL, 99UL, 99UL, 99UL, 99UL, 99UL, 99UL, 99UL};
static inline int pre_verif_k_take(ib6_t d) { return SV_LEN(d) == 6UL; }
static inline int post_verif_k_take(ib6_t d, sk_obs_t ret) { return c04k_check(d, d, ret, 2UL, 2UL, 2UL, 0UL, c04k_p_take); }
static const unsigned long c04k_p_diagonal[12] = {1UL, 5UL, 99UL, 99UL, 99UL, 99UL, 99UL, 99UL, 99UL, 99UL, 99UL, 99UL};
static inline int pre_verif_k_diagonal(ib6_t d) { return SV_LEN(d) == 6UL; }
static inline int post_verif_k_diagonal(ib6_t d, sk_obs_t ret) { return c04k_check(d, d, ret, 1UL, 2UL, 0UL, 0UL, c04k_p_diagonal); }
static const unsigned long c04k_p_tril[12] = {0UL, 99UL, 99UL, 3UL, 4UL, 99UL, 99UL, 99UL, 99UL, 99UL, 99UL, 99UL};
static inline int pre_verif_k_tril(ib6_t d) { return SV_LEN(d) == 6UL; }
static inline int post_verif_k_tril(ib6_t d, sk_obs_t ret) { return c04k_check(d, d, ret, 2UL, 2UL, 3UL, 0UL, c04k_p_tril); }
static const unsigned long c04k_p_triu[12] = {99UL, 1UL, 2UL, 99UL, 99UL, 5UL, 99UL, 99UL, 99UL, 99UL, 99UL, 99UL};
static inline int pre_verif_k_triu(ib6_t d) { return SV_LEN(d) == 6UL; }
static inline int post_verif_k_triu(ib6_t d, sk_obs_t ret) { return c04k_check(d, d, ret, 2UL, 2UL, 3UL, 0UL, c04k_p_triu); }
