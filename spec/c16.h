/* C16 spec: linear-algebra shape / validity / index helpers (NumPy semantics). */
#include "spec/abi.h"
GHOST(unsigned long, g)
/* the two-operand NumPy broadcast rule: these three macros are verbatim those of spec/c06.h (that header cannot be included
 * as a whole: its predicates mention result types that exist only in inst/c06.cpp) */
#define MAXU(a, b) ((a) > (b) ? (a) : (b))
#define BC_HAS(lv, rd, k)     ((k) + (lv) >= (rd))
#define BC_EXT(v, lv, rd, k)  (BC_HAS(lv, rd, k) ? SV_AT(v, (k) + (lv) - (rd)) : 1UL)

/* all extents of a shape are positive (the property quantifies over extents >= 1) */
static inline int sv_pos16(sv_t a) { int e = 1; for (unsigned long k = 0; k < CAP; k++) if (k < SV_LEN(a)) e = e && SV_AT(a, k) >= 1UL; return e; }

/* ------------------------------------------------------------------ matmul result shape (numpy.matmul)
 *   a: (..A.., n, k) or (k,)     b: (..B.., k, m) or (k,)
 *   valid iff the contracted extents agree and the batch parts A, B broadcast;
 *   result = broadcast(A, B) ++ [n if a.ndim >= 2] ++ [m if b.ndim >= 2]                                  */
#define MM_LB(v)  (SV_LEN(v) >= 2UL ? SV_LEN(v) - 2UL : 0UL)              /* batch rank of an operand (batch = leading MM_LB entries) */
#define MM_RD(a, b) MAXU(MM_LB(a), MM_LB(b))                               /* batch rank of the result */
#define MM_KA(a)  SV_AT(a, SV_LEN(a) - 1UL)                                /* contracted extent of a: last axis */
#define MM_KB(b)  (SV_LEN(b) == 1UL ? SV_AT(b, 0UL) : SV_AT(b, SV_LEN(b) - 2UL))  /* of b: the only axis / the second-to-last */
static inline int spec_mm_compat(sv_t a, sv_t b, unsigned long k)
{
  unsigned long la = MM_LB(a), lb = MM_LB(b), rd = MM_RD(a, b);
  if (!BC_HAS(la, rd, k) || !BC_HAS(lb, rd, k)) return 1;
  unsigned long x = BC_EXT(a, la, rd, k), y = BC_EXT(b, lb, rd, k);
  return x == y || x == 1UL || y == 1UL;
}
static inline unsigned long spec_mm_bext(sv_t a, sv_t b, unsigned long k)
{
  unsigned long la = MM_LB(a), lb = MM_LB(b), rd = MM_RD(a, b);
  if (BC_HAS(la, rd, k) && BC_HAS(lb, rd, k)) return MAXU(BC_EXT(a, la, rd, k), BC_EXT(b, lb, rd, k));
  return BC_HAS(la, rd, k) ? BC_EXT(a, la, rd, k) : BC_EXT(b, lb, rd, k);
}
static inline int spec_mm_ok(sv_t a, sv_t b)
{
  int ok = MM_KA(a) == MM_KB(b);
  for (unsigned long k = 0; k < CAP; k++) if (k < MM_RD(a, b)) ok = ok && spec_mm_compat(a, b, k);
  return ok;
}
static inline unsigned long spec_mm_dim(sv_t a, sv_t b)
{ return MM_RD(a, b) + (SV_LEN(a) >= 2UL ? 1UL : 0UL) + (SV_LEN(b) >= 2UL ? 1UL : 0UL); }
static inline unsigned long spec_mm_extent(sv_t a, sv_t b, unsigned long k)
{
  unsigned long rd = MM_RD(a, b);
  if (k < rd) return spec_mm_bext(a, b, k);
  if (k == rd && SV_LEN(a) >= 2UL) return SV_AT(a, SV_LEN(a) - 2UL);
  return SV_AT(b, SV_LEN(b) - 1UL);
}
static inline int pre_verif_shape_matmul(sv_t a, sv_t b)
{ return SV_LEN(a) >= 1UL && SV_LEN(a) <= CAP && SV_LEN(b) >= 1UL && SV_LEN(b) <= CAP && sv_pos16(a) && sv_pos16(b); }
static inline int post_verif_shape_matmul(sv_t a, sv_t b, opt_hn_t ret)
{
  if (!OPT_HAS(ret)) return !spec_mm_ok(a, b);                    /* Nothing only if invalid */
  if (MM_KA(a) != MM_KB(b)) return 0;                             /* a value only if valid: contracted extents agree ... */
  if (HN_LEN(OPT_VAL(ret)) != spec_mm_dim(a, b)) return 0;
  return IMPLIES(g < spec_mm_dim(a, b),
                 IMPLIES(g < MM_RD(a, b), spec_mm_compat(a, b, g))  /* ... and every batch axis (g arbitrary) is compatible */
                 && HN_AT(OPT_VAL(ret), g) == spec_mm_extent(a, b, g));
}

/* split(shape, n): (shape[:n], shape[n:]) with Python's negative position */
#define SPLIT_POS(shape, n) ((n) < 0 ? SV_LEN(shape) - (unsigned long)(-(long)(n)) : (unsigned long)(n))
static inline int pre_verif_split(sv_t shape, int n)
{ return SV_LEN(shape) <= CAP && (n < 0 ? (unsigned long)(-(long)n) <= SV_LEN(shape) : (unsigned long)n <= SV_LEN(shape)); }
static inline int post_verif_split(sv_t shape, int n, svpair_t ret)
{
  unsigned long p = SPLIT_POS(shape, n);
  return SV_LEN(TUP_GET(ret, 0)) == p && SV_LEN(TUP_GET(ret, 1)) == SV_LEN(shape) - p
      && IMPLIES(g < SV_LEN(shape), g < p ? SV_AT(TUP_GET(ret, 0), g) == SV_AT(shape, g)
                                          : SV_AT(TUP_GET(ret, 1), g - p) == SV_AT(shape, g));
}

/* ------------------------------------------------------------------ matmul element selection (index::matmul, used by matmul_t::view_at)
 * result element (..batch.., i, j) = sum_k A[bA.., i, k] * B[bB.., k, j]: the left slice is (bA.., i, :), the right one (bB.., :, j) where
 * bA / bB is the batch index right-aligned to the operand's batch axes with 0 on axes the operand has with extent 1 (broadcast).
 * Fixed-rank kinds (loop-free); `all` (the ':' slice) is the empty tuple<none,none>.  Precondition: shape is the matmul result shape
 * of (l, r) as established by matmul_t's constructor, idx lies inside it. */
#define MS_SEL(ext, ix)  ((ext) == 1UL ? 0UL : (ix))
#define MS_BC_OK(x, y)   ((x) == (y) || (x) == 1UL || (y) == 1UL)
#define MS_IN(idx, shape, n) ms_in(&ARR_AT(idx, 0), &ARR_AT(shape, 0), n)
static inline int ms_in(const unsigned long *idx, const unsigned long *shape, unsigned long n)
{ int e = 1; for (unsigned long k = 0; k < 4; k++) if (k < n) e = e && shape[k] >= 1UL && idx[k] < shape[k]; return e; }
static inline int ms_pos(const unsigned long *shape, unsigned long n)
{ int e = 1; for (unsigned long k = 0; k < 4; k++) if (k < n) e = e && shape[k] >= 1UL; return e; }

static inline int pre_verif_matmul_slices_22(a2_t idx, a2_t l, a2_t r, a2_t shape)
{ return ms_pos(&ARR_AT(l, 0), 2) && ms_pos(&ARR_AT(r, 0), 2) && ARR_AT(l, 1) == ARR_AT(r, 0)
      && ARR_AT(shape, 0) == ARR_AT(l, 0) && ARR_AT(shape, 1) == ARR_AT(r, 1) && MS_IN(idx, shape, 2); }
static inline int post_verif_matmul_slices_22(a2_t idx, a2_t l, a2_t r, a2_t shape, sl22_t ret)
{ return TUP_GET(TUP_GET(ret, 0), 0) == ARR_AT(idx, 0) && TUP_GET(TUP_GET(ret, 0), 0) < ARR_AT(l, 0)
      && TUP_GET(TUP_GET(ret, 1), 1) == ARR_AT(idx, 1) && TUP_GET(TUP_GET(ret, 1), 1) < ARR_AT(r, 1); }

static inline int pre_verif_matmul_slices_33(a3_t idx, a3_t l, a3_t r, a3_t shape)
{ return ms_pos(&ARR_AT(l, 0), 3) && ms_pos(&ARR_AT(r, 0), 3) && ARR_AT(l, 2) == ARR_AT(r, 1)
      && MS_BC_OK(ARR_AT(l, 0), ARR_AT(r, 0)) && ARR_AT(shape, 0) == MAXU(ARR_AT(l, 0), ARR_AT(r, 0))
      && ARR_AT(shape, 1) == ARR_AT(l, 1) && ARR_AT(shape, 2) == ARR_AT(r, 2) && MS_IN(idx, shape, 3); }
static inline int post_verif_matmul_slices_33(a3_t idx, a3_t l, a3_t r, a3_t shape, sl33_t ret)
{ return TUP_GET(TUP_GET(ret, 0), 0) == MS_SEL(ARR_AT(l, 0), ARR_AT(idx, 0)) && TUP_GET(TUP_GET(ret, 0), 0) < ARR_AT(l, 0)
      && TUP_GET(TUP_GET(ret, 0), 1) == ARR_AT(idx, 1) && TUP_GET(TUP_GET(ret, 0), 1) < ARR_AT(l, 1)
      && TUP_GET(TUP_GET(ret, 1), 0) == MS_SEL(ARR_AT(r, 0), ARR_AT(idx, 0)) && TUP_GET(TUP_GET(ret, 1), 0) < ARR_AT(r, 0)
      && TUP_GET(TUP_GET(ret, 1), 2) == ARR_AT(idx, 2) && TUP_GET(TUP_GET(ret, 1), 2) < ARR_AT(r, 2); }

/* (b0,b1,n,k) x (k,m) -> (b0,b1,n,m) */
static inline int pre_verif_matmul_slices_42(a4_t idx, a4_t l, a2_t r, a4_t shape)
{ return ms_pos(&ARR_AT(l, 0), 4) && ms_pos(&ARR_AT(r, 0), 2) && ARR_AT(l, 3) == ARR_AT(r, 0)
      && ARR_AT(shape, 0) == ARR_AT(l, 0) && ARR_AT(shape, 1) == ARR_AT(l, 1)
      && ARR_AT(shape, 2) == ARR_AT(l, 2) && ARR_AT(shape, 3) == ARR_AT(r, 1) && MS_IN(idx, shape, 4); }
static inline int post_verif_matmul_slices_42(a4_t idx, a4_t l, a2_t r, a4_t shape, sl42_t ret)
{ return TUP_GET(TUP_GET(ret, 0), 0) == MS_SEL(ARR_AT(l, 0), ARR_AT(idx, 0)) && TUP_GET(TUP_GET(ret, 0), 0) < ARR_AT(l, 0)
      && TUP_GET(TUP_GET(ret, 0), 1) == MS_SEL(ARR_AT(l, 1), ARR_AT(idx, 1)) && TUP_GET(TUP_GET(ret, 0), 1) < ARR_AT(l, 1)
      && TUP_GET(TUP_GET(ret, 0), 2) == ARR_AT(idx, 2) && TUP_GET(TUP_GET(ret, 0), 2) < ARR_AT(l, 2)
      && TUP_GET(TUP_GET(ret, 1), 1) == ARR_AT(idx, 3) && TUP_GET(TUP_GET(ret, 1), 1) < ARR_AT(r, 1); }

/* (n,k) x (b0,b1,k,m) -> (b0,b1,n,m) */
static inline int pre_verif_matmul_slices_24(a4_t idx, a2_t l, a4_t r, a4_t shape)
{ return ms_pos(&ARR_AT(l, 0), 2) && ms_pos(&ARR_AT(r, 0), 4) && ARR_AT(l, 1) == ARR_AT(r, 2)
      && ARR_AT(shape, 0) == ARR_AT(r, 0) && ARR_AT(shape, 1) == ARR_AT(r, 1)
      && ARR_AT(shape, 2) == ARR_AT(l, 0) && ARR_AT(shape, 3) == ARR_AT(r, 3) && MS_IN(idx, shape, 4); }
static inline int post_verif_matmul_slices_24(a4_t idx, a2_t l, a4_t r, a4_t shape, sl24_t ret)
{ return TUP_GET(TUP_GET(ret, 0), 0) == ARR_AT(idx, 2) && TUP_GET(TUP_GET(ret, 0), 0) < ARR_AT(l, 0)
      && TUP_GET(TUP_GET(ret, 1), 0) == MS_SEL(ARR_AT(r, 0), ARR_AT(idx, 0)) && TUP_GET(TUP_GET(ret, 1), 0) < ARR_AT(r, 0)
      && TUP_GET(TUP_GET(ret, 1), 1) == MS_SEL(ARR_AT(r, 1), ARR_AT(idx, 1)) && TUP_GET(TUP_GET(ret, 1), 1) < ARR_AT(r, 1)
      && TUP_GET(TUP_GET(ret, 1), 3) == ARR_AT(idx, 3) && TUP_GET(TUP_GET(ret, 1), 3) < ARR_AT(r, 3); }

/* (b0,b1,n,k) x (c1,k,m) -> (b0, bcast(b1,c1), n, m): batch parts of different rank on both sides */
static inline int pre_verif_matmul_slices_43(a4_t idx, a4_t l, a3_t r, a4_t shape)
{ return ms_pos(&ARR_AT(l, 0), 4) && ms_pos(&ARR_AT(r, 0), 3) && ARR_AT(l, 3) == ARR_AT(r, 1)
      && MS_BC_OK(ARR_AT(l, 1), ARR_AT(r, 0))
      && ARR_AT(shape, 0) == ARR_AT(l, 0) && ARR_AT(shape, 1) == MAXU(ARR_AT(l, 1), ARR_AT(r, 0))
      && ARR_AT(shape, 2) == ARR_AT(l, 2) && ARR_AT(shape, 3) == ARR_AT(r, 2) && MS_IN(idx, shape, 4); }
static inline int post_verif_matmul_slices_43(a4_t idx, a4_t l, a3_t r, a4_t shape, sl43_t ret)
{ return TUP_GET(TUP_GET(ret, 0), 0) == MS_SEL(ARR_AT(l, 0), ARR_AT(idx, 0)) && TUP_GET(TUP_GET(ret, 0), 0) < ARR_AT(l, 0)
      && TUP_GET(TUP_GET(ret, 0), 1) == MS_SEL(ARR_AT(l, 1), ARR_AT(idx, 1)) && TUP_GET(TUP_GET(ret, 0), 1) < ARR_AT(l, 1)
      && TUP_GET(TUP_GET(ret, 0), 2) == ARR_AT(idx, 2) && TUP_GET(TUP_GET(ret, 0), 2) < ARR_AT(l, 2)
      && TUP_GET(TUP_GET(ret, 1), 0) == MS_SEL(ARR_AT(r, 0), ARR_AT(idx, 1)) && TUP_GET(TUP_GET(ret, 1), 0) < ARR_AT(r, 0)
      && TUP_GET(TUP_GET(ret, 1), 2) == ARR_AT(idx, 3) && TUP_GET(TUP_GET(ret, 1), 2) < ARR_AT(r, 2); }

/* ------------------------------------------------------------------ matmulv2 pipeline arguments
 *   a (..A.., n, k)  --tile(1,..,1,m)-->  (..A.., n, k*m)  --reshape-->  (..A.., n, m, k)
 *   b (..B.., k, m)  --transpose(last two)-->  (..B.., m, k)  --reshape-->  (..B.., 1, m, k)
 *   multiply (broadcast) and sum over the last axis.  With a 1-d operand nothing is tiled / inserted.            */
#define DIM_OK(v) (SV_LEN(v) >= 1UL && SV_LEN(v) <= CAP)
#define BOTH2(l, r) (SV_LEN(l) >= 2UL && SV_LEN(r) >= 2UL)
/* identity permutation of n axes with the last two exchanged when n >= 2 */
#define SWAP_LAST2(n, k) (((n) >= 2UL && (k) == (n) - 1UL) ? (n) - 2UL : ((n) >= 2UL && (k) == (n) - 2UL) ? (n) - 1UL : (k))
static inline int pre_verif_matmul_rhs_transpose(unsigned long rhs_dim) { return rhs_dim <= CAP; }
static inline int post_verif_matmul_rhs_transpose(unsigned long rhs_dim, sv_t ret)
{ return SV_LEN(ret) == rhs_dim && IMPLIES(g < rhs_dim, SV_AT(ret, g) == SWAP_LAST2(rhs_dim, g) && SV_AT(ret, g) < rhs_dim); }

static inline int pre_verif_matmul_lhs_tile(sv_t lhs, sv_t rhs) { return DIM_OK(lhs) && DIM_OK(rhs); }
static inline int post_verif_matmul_lhs_tile(sv_t lhs, sv_t rhs, sv_t ret)
{ return SV_LEN(ret) == SV_LEN(lhs)
      && IMPLIES(g < SV_LEN(lhs), SV_AT(ret, g) == ((BOTH2(lhs, rhs) && g == SV_LEN(lhs) - 1UL) ? SV_AT(rhs, SV_LEN(rhs) - 1UL) : 1UL)); }

static inline int pre_verif_matmul_lhs_reshape(sv_t lhs, sv_t rhs) { return DIM_OK(lhs) && DIM_OK(rhs); }
static inline int post_verif_matmul_lhs_reshape(sv_t lhs, sv_t rhs, sv9_t ret)
{
  unsigned long n = SV_LEN(lhs);
  if (!BOTH2(lhs, rhs)) return SV_LEN(ret) == n && IMPLIES(g < n, SV_AT(ret, g) == SV_AT(lhs, g));
  return SV_LEN(ret) == n + 1UL
      && IMPLIES(g < n + 1UL, SV_AT(ret, g) == (g + 1UL < n ? SV_AT(lhs, g) : g + 1UL == n ? SV_AT(rhs, SV_LEN(rhs) - 1UL) : SV_AT(lhs, n - 1UL)));
}
static inline int pre_verif_matmul_rhs_reshape(sv_t lhs, sv_t rhs) { return DIM_OK(lhs) && DIM_OK(rhs); }
static inline int post_verif_matmul_rhs_reshape(sv_t lhs, sv_t rhs, sv9_t ret)
{
  unsigned long n = SV_LEN(rhs);
  if (!BOTH2(lhs, rhs)) return SV_LEN(ret) == n && IMPLIES(g < n, SV_AT(ret, g) == SV_AT(rhs, g));
  return SV_LEN(ret) == n + 1UL
      && IMPLIES(g < n + 1UL, SV_AT(ret, g) == (g + 2UL < n ? SV_AT(rhs, g) : g + 2UL == n ? 1UL : SV_AT(rhs, g - 1UL)));
}

/* ------------------------------------------------------------------ dot (numpy.dot): a (..A.., k) . b (..B.., k, m) -> (..A.., ..B.., m)
 *   a --tile(1,..,1,m)--> --reshape--> (..A.., 1 x (rdim-2), m, k);  b --transpose(last two)--> (..B.., m, k); multiply, sum(-1).
 *   b 1-d: a is only reshaped to itself ((..A.., k) with k taken from b).                                            */
static inline int pre_verif_dot_rhs_transpose(sv_t rhs) { return SV_LEN(rhs) <= CAP; }
static inline int post_verif_dot_rhs_transpose(sv_t rhs, sv_t ret)
{ unsigned long n = SV_LEN(rhs); return SV_LEN(ret) == n && IMPLIES(g < n, SV_AT(ret, g) == SWAP_LAST2(n, g) && SV_AT(ret, g) < n); }
static inline int pre_verif_dot_lhs_tile(sv_t lhs, sv_t rhs) { return DIM_OK(lhs) && DIM_OK(rhs); }
static inline int post_verif_dot_lhs_tile(sv_t lhs, sv_t rhs, sv_t ret)
{ return SV_LEN(ret) == SV_LEN(lhs)
      && IMPLIES(g < SV_LEN(lhs), SV_AT(ret, g) == ((SV_LEN(rhs) >= 2UL && g == SV_LEN(lhs) - 1UL) ? SV_AT(rhs, SV_LEN(rhs) - 1UL) : 1UL)); }
static inline int pre_verif_dot_lhs_reshape(sv_t lhs, sv_t rhs) { return DIM_OK(lhs) && DIM_OK(rhs); }
static inline int post_verif_dot_lhs_reshape(sv_t lhs, sv_t rhs, sv15_t ret)
{
  unsigned long n = SV_LEN(lhs), m = SV_LEN(rhs);
  if (m == 1UL) return SV_LEN(ret) == n && IMPLIES(g < n, SV_AT(ret, g) == (g + 1UL < n ? SV_AT(lhs, g) : SV_AT(rhs, 0UL)));
  unsigned long d = n + m - 1UL;
  return SV_LEN(ret) == d
      && IMPLIES(g < d, SV_AT(ret, g) == (g + 1UL < n ? SV_AT(lhs, g) : g + 2UL < d ? 1UL : g + 2UL == d ? SV_AT(rhs, m - 1UL) : SV_AT(rhs, m - 2UL)));
}

/* ------------------------------------------------------------------ inner (numpy.inner): a (..A.., k), b (..B.., k) -> (..A.., ..B..)
 *   a --reshape--> (..A.., 1 x (rdim-1), k); multiply with b (broadcast), sum(-1)                                     */
static inline int pre_verif_inner_lhs_reshape(sv_t lhs, sv_t rhs) { return DIM_OK(lhs) && DIM_OK(rhs); }
static inline int post_verif_inner_lhs_reshape(sv_t lhs, sv_t rhs, sv15_t ret)
{
  unsigned long n = SV_LEN(lhs), d = SV_LEN(lhs) + SV_LEN(rhs) - 1UL;
  return SV_LEN(ret) == d && IMPLIES(g < d, SV_AT(ret, g) == (g + 1UL < n ? SV_AT(lhs, g) : g + 1UL < d ? 1UL : SV_AT(lhs, n - 1UL)));
}

/* ------------------------------------------------------------------ tensordot, integer axes n: contract the last n axes of a with the first n of b
 *   a: no transposition;  b --transpose--> (b[n:], b[:n]);  a --reshape--> (a[:-n], 1 x (rdim-n), a[-n:]); multiply, sum over the last n axes */
static inline int pre_verif_tensordot_lhs_transpose_n(unsigned long lhs_dim, unsigned long n) { return lhs_dim <= CAP && n <= lhs_dim; }
static inline int post_verif_tensordot_lhs_transpose_n(unsigned long lhs_dim, unsigned long n, sv_t ret)
{ return SV_LEN(ret) == lhs_dim && IMPLIES(g < lhs_dim, SV_AT(ret, g) == g); }
static inline int pre_verif_tensordot_rhs_transpose_n(unsigned long rhs_dim, unsigned long n) { return rhs_dim <= CAP && n <= rhs_dim; }
static inline int post_verif_tensordot_rhs_transpose_n(unsigned long rhs_dim, unsigned long n, sv_t ret)
{ return SV_LEN(ret) == rhs_dim && IMPLIES(g < rhs_dim, SV_AT(ret, g) == (g < rhs_dim - n ? g + n : g - (rhs_dim - n)) && SV_AT(ret, g) < rhs_dim); }
/* lhs: the already transposed shape (contracted axes last); only the number of contracted axes is read from sum_axes.
 * The result type chosen by the library holds 15 extents: lhs_dim + rhs_dim - n <= 15 is required (8-d x 8-d with n = 0 does not fit). */
static inline int pre_verif_tensordot_lhs_reshape(sv_t lhs, sv_t rhs, svi_t sum_axes)
{ return DIM_OK(lhs) && DIM_OK(rhs) && SV_LEN(sum_axes) <= SV_LEN(lhs) && SV_LEN(sum_axes) <= SV_LEN(rhs)
      && SV_LEN(lhs) + SV_LEN(rhs) - SV_LEN(sum_axes) <= 15UL; }
static inline int post_verif_tensordot_lhs_reshape(sv_t lhs, sv_t rhs, svi_t sum_axes, sv15_t ret)
{
  unsigned long n = SV_LEN(sum_axes), l = SV_LEN(lhs), d = SV_LEN(lhs) + SV_LEN(rhs) - SV_LEN(sum_axes);
  return SV_LEN(ret) == d && IMPLIES(g < d, SV_AT(ret, g) == (g < l - n ? SV_AT(lhs, g) : g < d - n ? 1UL : SV_AT(lhs, g - (d - l))));
}

/* ------------------------------------------------------------------ kron (numpy.kron): shapes right-aligned, result extent = product of the aligned extents
 *   a --reshape--> (a.., 1 x rdim) --tile(b.shape)--> (a.., b..) * b --transpose(interleave)--> --reshape--> kron shape */
static inline int pre_verif_kron_lhs_reshape(sv_t lhs, unsigned long rhs_dim) { return SV_LEN(lhs) <= CAP && rhs_dim <= CAP; }
static inline int post_verif_kron_lhs_reshape(sv_t lhs, unsigned long rhs_dim, sv16_t ret)
{ unsigned long d = SV_LEN(lhs) + rhs_dim; return SV_LEN(ret) == d && IMPLIES(g < d, SV_AT(ret, g) == (g < SV_LEN(lhs) ? SV_AT(lhs, g) : 1UL)); }
/* ghost: KRP[t] = product of the extents aligned at result axis t (bound in the precondition; invariants cannot mention the product) */
GHOST_ARR(unsigned long, KRP, 8)
static inline int pre_verif_kron_dst_reshape(sv_t lhs, sv_t rhs)
{
  int ok = SV_LEN(lhs) <= CAP && SV_LEN(rhs) <= CAP;
  unsigned long la = SV_LEN(lhs), lb = SV_LEN(rhs), d = MAXU(SV_LEN(lhs), SV_LEN(rhs));
  for (unsigned long t = 0; t < CAP; t++)
    if (ok && t < d && BC_HAS(la, d, t) && BC_HAS(lb, d, t)) ok = ok && GHOST_DEF(KRP[t], MUL_ul(SV_AT(lhs, t + la - d), SV_AT(rhs, t + lb - d)));
  return ok;
}
static inline int post_verif_kron_dst_reshape(sv_t lhs, sv_t rhs, sv_t ret)
{
  unsigned long la = SV_LEN(lhs), lb = SV_LEN(rhs), d = MAXU(SV_LEN(lhs), SV_LEN(rhs));
  if (SV_LEN(ret) != d) return 0;
  if (!(g < d)) return 1;
  if (BC_HAS(la, d, g) && BC_HAS(lb, d, g)) return SV_AT(ret, g) == KRP[g] && SV_AT(ret, g) == MUL_ul(SV_AT(lhs, g + la - d), SV_AT(rhs, g + lb - d));
  return SV_AT(ret, g) == (BC_HAS(la, d, g) ? SV_AT(lhs, g + la - d) : SV_AT(rhs, g + lb - d));
}

/* ------------------------------------------------------------------ tensordot, explicit axes (a_axes[t] of a is contracted with b_axes[t] of b)
 *   each operand --transpose--> (non-contracted axes in increasing order, contracted axes in the given order); then as for integer axes.
 *   Preconditions as numpy requires them (the view unwraps normalize_axis without a check): axes in [-dim, dim), pairwise distinct.   */
#define NORM(a, n) ((a) < 0 ? (unsigned long)((long)(n) + (long)(a)) : (unsigned long)(a))
#define AXIS_OK(a, n) (-(long)(n) <= (long)(a) && (long)(a) < (long)(n))
/* ghost: CNT[j] = number of axes t < j that are not contracted */
GHOST_ARR(unsigned long, CNT, 10)
static inline int spec_in_axes(svi_t axes, unsigned long dim, unsigned long j)
{ int r = 0; for (unsigned long u = 0; u < CAP; u++) if (u < SV_LEN(axes) && NORM(SV_AT(axes, u), dim) == j) r = 1; return r; }
static inline int pre_tensordot_axes(unsigned long dim, svi_t axes)
{
  int ok = dim <= CAP && SV_LEN(axes) <= dim;
  for (unsigned long a = 0; a < CAP; a++) if (a < SV_LEN(axes)) ok = ok && AXIS_OK(SV_AT(axes, a), dim);
  if (!ok) return 0;
  for (unsigned long a = 0; a < CAP; a++)
    for (unsigned long b = 0; b < CAP; b++) if (a < b && b < SV_LEN(axes)) ok = ok && NORM(SV_AT(axes, a), dim) != NORM(SV_AT(axes, b), dim);
  ok = ok && GHOST_DEF(CNT[0], 0UL);
  for (unsigned long j = 0; j < CAP; j++) ok = ok && GHOST_DEF(CNT[j + 1], CNT[j] + ((j < dim && !spec_in_axes(axes, dim, j)) ? 1UL : 0UL));
  return ok;
}
static inline int post_tensordot_axes(unsigned long dim, svi_t axes, sv_t ret)
{
  unsigned long n = SV_LEN(axes);
  if (SV_LEN(ret) != dim) return 0;
  if (!(g < dim)) return 1;
  if (g >= dim - n) return SV_AT(ret, g) == NORM(SV_AT(axes, g - (dim - n)), dim);
  return SV_AT(ret, g) < dim && !spec_in_axes(axes, dim, SV_AT(ret, g)) && IMPLIES(g + 1UL < dim - n, SV_AT(ret, g) < SV_AT(ret, g + 1UL));
}
static inline int pre_verif_tensordot_lhs_transpose(unsigned long lhs_dim, svi_t axes) { return pre_tensordot_axes(lhs_dim, axes); }
static inline int post_verif_tensordot_lhs_transpose(unsigned long lhs_dim, svi_t axes, sv_t ret) { return post_tensordot_axes(lhs_dim, axes, ret); }
static inline int pre_verif_tensordot_rhs_transpose(unsigned long rhs_dim, svi_t axes) { return pre_tensordot_axes(rhs_dim, axes); }
static inline int post_verif_tensordot_rhs_transpose(unsigned long rhs_dim, svi_t axes, sv_t ret) { return post_tensordot_axes(rhs_dim, axes, ret); }
