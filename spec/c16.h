/* C16 spec: linear-algebra shape / validity / index helpers (NumPy semantics). */
#include "spec/abi.h"
GHOST(unsigned long, g)
/* the two-operand NumPy broadcast rule: these three macros are verbatim those of spec/c06.h (that header cannot be included
 * as a whole: its predicates mention result types that exist only in inst/c06.cpp) */
#define MAXU(a, b) ((a) > (b) ? (a) : (b))
#define BC_HAS(lv, rd, k)     ((k) + (lv) >= (rd))
#define BC_EXT(v, lv, rd, k)  (BC_HAS(lv, rd, k) ? SV_AT(v, (k) + (lv) - (rd)) : 1UL)

/* all extents of a shape are positive (the property quantifies over extents >= 1) */
static inline int sv_pos16(sv_t a) { int e = 1; for (unsigned long k = 0; k < CAP; k++) if (k < SV_LEN(a)) e = e && SV_AT(a, k) >= 1UL; return e; }

/* ------------------------------------------------------------------ matmul result shape (numpy.matmul)
 *   a: (..A.., n, k) or (k,)     b: (..B.., k, m) or (k,)
 *   valid iff the contracted extents agree and the batch parts A, B broadcast;
 *   result = broadcast(A, B) ++ [n if a.ndim >= 2] ++ [m if b.ndim >= 2]                                  */
#define MM_LB(v)  (SV_LEN(v) >= 2UL ? SV_LEN(v) - 2UL : 0UL)              /* batch rank of an operand (batch = leading MM_LB entries) */
#define MM_RD(a, b) MAXU(MM_LB(a), MM_LB(b))                               /* batch rank of the result */
#define MM_KA(a)  SV_AT(a, SV_LEN(a) - 1UL)                                /* contracted extent of a: last axis */
#define MM_KB(b)  (SV_LEN(b) == 1UL ? SV_AT(b, 0UL) : SV_AT(b, SV_LEN(b) - 2UL))  /* of b: the only axis / the second-to-last */
static inline int spec_mm_compat(sv_t a, sv_t b, unsigned long k)
{
  unsigned long la = MM_LB(a), lb = MM_LB(b), rd = MM_RD(a, b);
  if (!BC_HAS(la, rd, k) || !BC_HAS(lb, rd, k)) return 1;
  unsigned long x = BC_EXT(a, la, rd, k), y = BC_EXT(b, lb, rd, k);
  return x == y || x == 1UL || y == 1UL;
}
static inline unsigned long spec_mm_bext(sv_t a, sv_t b, unsigned long k)
{
  unsigned long la = MM_LB(a), lb = MM_LB(b), rd = MM_RD(a, b);
  if (BC_HAS(la, rd, k) && BC_HAS(lb, rd, k)) return MAXU(BC_EXT(a, la, rd, k), BC_EXT(b, lb, rd, k));
  return BC_HAS(la, rd, k) ? BC_EXT(a, la, rd, k) : BC_EXT(b, lb, rd, k);
}
static inline int spec_mm_ok(sv_t a, sv_t b)
{
  int ok = MM_KA(a) == MM_KB(b);
  for (unsigned long k = 0; k < CAP; k++) if (k < MM_RD(a, b)) ok = ok && spec_mm_compat(a, b, k);
  return ok;
}
static inline unsigned long spec_mm_dim(sv_t a, sv_t b)
{ return MM_RD(a, b) + (SV_LEN(a) >= 2UL ? 1UL : 0UL) + (SV_LEN(b) >= 2UL ? 1UL : 0UL); }
static inline unsigned long spec_mm_extent(sv_t a, sv_t b, unsigned long k)
{
  unsigned long rd = MM_RD(a, b);
  if (k < rd) return spec_mm_bext(a, b, k);
  if (k == rd && SV_LEN(a) >= 2UL) return SV_AT(a, SV_LEN(a) - 2UL);
  return SV_AT(b, SV_LEN(b) - 1UL);
}
static inline int pre_verif_shape_matmul(sv_t a, sv_t b)
{ return SV_LEN(a) >= 1UL && SV_LEN(a) <= CAP && SV_LEN(b) >= 1UL && SV_LEN(b) <= CAP && sv_pos16(a) && sv_pos16(b); }
static inline int post_verif_shape_matmul(sv_t a, sv_t b, opt_hn_t ret)
{
  if (!OPT_HAS(ret)) return !spec_mm_ok(a, b);                    /* Nothing only if invalid */
  if (MM_KA(a) != MM_KB(b)) return 0;                             /* a value only if valid: contracted extents agree ... */
  if (HN_LEN(OPT_VAL(ret)) != spec_mm_dim(a, b)) return 0;
  return IMPLIES(g < spec_mm_dim(a, b),
                 IMPLIES(g < MM_RD(a, b), spec_mm_compat(a, b, g))  /* ... and every batch axis (g arbitrary) is compatible */
                 && HN_AT(OPT_VAL(ret), g) == spec_mm_extent(a, b, g));
}

/* split(shape, n): (shape[:n], shape[n:]) with Python's negative position */
#define SPLIT_POS(shape, n) ((n) < 0 ? SV_LEN(shape) - (unsigned long)(-(long)(n)) : (unsigned long)(n))
static inline int pre_verif_split(sv_t shape, int n)
{ return SV_LEN(shape) <= CAP && (n < 0 ? (unsigned long)(-(long)n) <= SV_LEN(shape) : (unsigned long)n <= SV_LEN(shape)); }
static inline int post_verif_split(sv_t shape, int n, svpair_t ret)
{
  unsigned long p = SPLIT_POS(shape, n);
  return SV_LEN(TUP_GET(ret, 0)) == p && SV_LEN(TUP_GET(ret, 1)) == SV_LEN(shape) - p
      && IMPLIES(g < SV_LEN(shape), g < p ? SV_AT(TUP_GET(ret, 0), g) == SV_AT(shape, g)
                                          : SV_AT(TUP_GET(ret, 1), g - p) == SV_AT(shape, g));
}

/* ------------------------------------------------------------------ matmul element selection (index::matmul, used by matmul_t::view_at)
 * result element (..batch.., i, j) = sum_k A[bA.., i, k] * B[bB.., k, j]: the left slice is (bA.., i, :), the right one (bB.., :, j) where
 * bA / bB is the batch index right-aligned to the operand's batch axes with 0 on axes the operand has with extent 1 (broadcast).
 * Fixed-rank kinds (loop-free); `all` (the ':' slice) is the empty tuple<none,none>.  Precondition: shape is the matmul result shape
 * of (l, r) as established by matmul_t's constructor, idx lies inside it. */
#define MS_SEL(ext, ix)  ((ext) == 1UL ? 0UL : (ix))
#define MS_BC_OK(x, y)   ((x) == (y) || (x) == 1UL || (y) == 1UL)
#define MS_IN(idx, shape, n) ms_in(&ARR_AT(idx, 0), &ARR_AT(shape, 0), n)
static inline int ms_in(const unsigned long *idx, const unsigned long *shape, unsigned long n)
{ int e = 1; for (unsigned long k = 0; k < 4; k++) if (k < n) e = e && shape[k] >= 1UL && idx[k] < shape[k]; return e; }
static inline int ms_pos(const unsigned long *shape, unsigned long n)
{ int e = 1; for (unsigned long k = 0; k < 4; k++) if (k < n) e = e && shape[k] >= 1UL; return e; }

static inline int pre_verif_matmul_slices_22(a2_t idx, a2_t l, a2_t r, a2_t shape)
{ return ms_pos(&ARR_AT(l, 0), 2) && ms_pos(&ARR_AT(r, 0), 2) && ARR_AT(l, 1) == ARR_AT(r, 0)
      && ARR_AT(shape, 0) == ARR_AT(l, 0) && ARR_AT(shape, 1) == ARR_AT(r, 1) && MS_IN(idx, shape, 2); }
static inline int post_verif_matmul_slices_22(a2_t idx, a2_t l, a2_t r, a2_t shape, sl22_t ret)
{ return TUP_GET(TUP_GET(ret, 0), 0) == ARR_AT(idx, 0) && TUP_GET(TUP_GET(ret, 0), 0) < ARR_AT(l, 0)
      && TUP_GET(TUP_GET(ret, 1), 1) == ARR_AT(idx, 1) && TUP_GET(TUP_GET(ret, 1), 1) < ARR_AT(r, 1); }

static inline int pre_verif_matmul_slices_33(a3_t idx, a3_t l, a3_t r, a3_t shape)
{ return ms_pos(&ARR_AT(l, 0), 3) && ms_pos(&ARR_AT(r, 0), 3) && ARR_AT(l, 2) == ARR_AT(r, 1)
      && MS_BC_OK(ARR_AT(l, 0), ARR_AT(r, 0)) && ARR_AT(shape, 0) == MAXU(ARR_AT(l, 0), ARR_AT(r, 0))
      && ARR_AT(shape, 1) == ARR_AT(l, 1) && ARR_AT(shape, 2) == ARR_AT(r, 2) && MS_IN(idx, shape, 3); }
static inline int post_verif_matmul_slices_33(a3_t idx, a3_t l, a3_t r, a3_t shape, sl33_t ret)
{ return TUP_GET(TUP_GET(ret, 0), 0) == MS_SEL(ARR_AT(l, 0), ARR_AT(idx, 0)) && TUP_GET(TUP_GET(ret, 0), 0) < ARR_AT(l, 0)
      && TUP_GET(TUP_GET(ret, 0), 1) == ARR_AT(idx, 1) && TUP_GET(TUP_GET(ret, 0), 1) < ARR_AT(l, 1)
      && TUP_GET(TUP_GET(ret, 1), 0) == MS_SEL(ARR_AT(r, 0), ARR_AT(idx, 0)) && TUP_GET(TUP_GET(ret, 1), 0) < ARR_AT(r, 0)
      && TUP_GET(TUP_GET(ret, 1), 2) == ARR_AT(idx, 2) && TUP_GET(TUP_GET(ret, 1), 2) < ARR_AT(r, 2); }

/* (b0,b1,n,k) x (k,m) -> (b0,b1,n,m) */
static inline int pre_verif_matmul_slices_42(a4_t idx, a4_t l, a2_t r, a4_t shape)
{ return ms_pos(&ARR_AT(l, 0), 4) && ms_pos(&ARR_AT(r, 0), 2) && ARR_AT(l, 3) == ARR_AT(r, 0)
      && ARR_AT(shape, 0) == ARR_AT(l, 0) && ARR_AT(shape, 1) == ARR_AT(l, 1)
      && ARR_AT(shape, 2) == ARR_AT(l, 2) && ARR_AT(shape, 3) == ARR_AT(r, 1) && MS_IN(idx, shape, 4); }
static inline int post_verif_matmul_slices_42(a4_t idx, a4_t l, a2_t r, a4_t shape, sl42_t ret)
{ return TUP_GET(TUP_GET(ret, 0), 0) == MS_SEL(ARR_AT(l, 0), ARR_AT(idx, 0)) && TUP_GET(TUP_GET(ret, 0), 0) < ARR_AT(l, 0)
      && TUP_GET(TUP_GET(ret, 0), 1) == MS_SEL(ARR_AT(l, 1), ARR_AT(idx, 1)) && TUP_GET(TUP_GET(ret, 0), 1) < ARR_AT(l, 1)
      && TUP_GET(TUP_GET(ret, 0), 2) == ARR_AT(idx, 2) && TUP_GET(TUP_GET(ret, 0), 2) < ARR_AT(l, 2)
      && TUP_GET(TUP_GET(ret, 1), 1) == ARR_AT(idx, 3) && TUP_GET(TUP_GET(ret, 1), 1) < ARR_AT(r, 1); }

/* (n,k) x (b0,b1,k,m) -> (b0,b1,n,m) */
static inline int pre_verif_matmul_slices_24(a4_t idx, a2_t l, a4_t r, a4_t shape)
{ return ms_pos(&ARR_AT(l, 0), 2) && ms_pos(&ARR_AT(r, 0), 4) && ARR_AT(l, 1) == ARR_AT(r, 2)
      && ARR_AT(shape, 0) == ARR_AT(r, 0) && ARR_AT(shape, 1) == ARR_AT(r, 1)
      && ARR_AT(shape, 2) == ARR_AT(l, 0) && ARR_AT(shape, 3) == ARR_AT(r, 3) && MS_IN(idx, shape, 4); }
static inline int post_verif_matmul_slices_24(a4_t idx, a2_t l, a4_t r, a4_t shape, sl24_t ret)
{ return TUP_GET(TUP_GET(ret, 0), 0) == ARR_AT(idx, 2) && TUP_GET(TUP_GET(ret, 0), 0) < ARR_AT(l, 0)
      && TUP_GET(TUP_GET(ret, 1), 0) == MS_SEL(ARR_AT(r, 0), ARR_AT(idx, 0)) && TUP_GET(TUP_GET(ret, 1), 0) < ARR_AT(r, 0)
      && TUP_GET(TUP_GET(ret, 1), 1) == MS_SEL(ARR_AT(r, 1), ARR_AT(idx, 1)) && TUP_GET(TUP_GET(ret, 1), 1) < ARR_AT(r, 1)
      && TUP_GET(TUP_GET(ret, 1), 3) == ARR_AT(idx, 3) && TUP_GET(TUP_GET(ret, 1), 3) < ARR_AT(r, 3); }

/* (b0,b1,n,k) x (c1,k,m) -> (b0, bcast(b1,c1), n, m): batch parts of different rank on both sides */
static inline int pre_verif_matmul_slices_43(a4_t idx, a4_t l, a3_t r, a4_t shape)
{ return ms_pos(&ARR_AT(l, 0), 4) && ms_pos(&ARR_AT(r, 0), 3) && ARR_AT(l, 3) == ARR_AT(r, 1)
      && MS_BC_OK(ARR_AT(l, 1), ARR_AT(r, 0))
      && ARR_AT(shape, 0) == ARR_AT(l, 0) && ARR_AT(shape, 1) == MAXU(ARR_AT(l, 1), ARR_AT(r, 0))
      && ARR_AT(shape, 2) == ARR_AT(l, 2) && ARR_AT(shape, 3) == ARR_AT(r, 2) && MS_IN(idx, shape, 4); }
static inline int post_verif_matmul_slices_43(a4_t idx, a4_t l, a3_t r, a4_t shape, sl43_t ret)
{ return TUP_GET(TUP_GET(ret, 0), 0) == MS_SEL(ARR_AT(l, 0), ARR_AT(idx, 0)) && TUP_GET(TUP_GET(ret, 0), 0) < ARR_AT(l, 0)
      && TUP_GET(TUP_GET(ret, 0), 1) == MS_SEL(ARR_AT(l, 1), ARR_AT(idx, 1)) && TUP_GET(TUP_GET(ret, 0), 1) < ARR_AT(l, 1)
      && TUP_GET(TUP_GET(ret, 0), 2) == ARR_AT(idx, 2) && TUP_GET(TUP_GET(ret, 0), 2) < ARR_AT(l, 2)
      && TUP_GET(TUP_GET(ret, 1), 0) == MS_SEL(ARR_AT(r, 0), ARR_AT(idx, 1)) && TUP_GET(TUP_GET(ret, 1), 0) < ARR_AT(r, 0)
      && TUP_GET(TUP_GET(ret, 1), 2) == ARR_AT(idx, 3) && TUP_GET(TUP_GET(ret, 1), 2) < ARR_AT(r, 2); }
