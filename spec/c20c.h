/* C20 spec predicates, column-major generic ndarray: column_major_ndarray_t<static_vector<float,6>, static_vector<size_t,4>>.
 * State = (data_, shape_, strides_, offset_.shape_, offset_.strides_).  The addressing strides are offset_.strides_
 * (offset = sum idx[k] * offset_.strides_[k]); for the column-major layout they must be the products of the extents BEFORE k. */
#include "spec/abi.h"
#define C20_DIM 4UL
#define C20_BUF 6UL

GHOST(unsigned long, g)
GHOST_ARR(unsigned long, PP, 6)
GHOST_ARR(unsigned long, HPv, 36)
#define HP(k, j) HPv[(k) * 6UL + (j)]

#include "spec/c20_common.h"

/* column-major stride of position t: S[0] * ... * S[t-1].  The factors are multiplied from S[t-1] down to S[0] (the order in
 * which the code folds them: row-major strides of the reversed shape); with * uninterpreted the order of a product is part of
 * its definition, for the machine operator every order gives the same value (associativity/commutativity mod 2^64). */
static inline unsigned long c20_prod_desc(sv4_t shape, unsigned long t)
{
  unsigned long p = 1UL;
  for (unsigned long j = C20_DIM; j > 0; j--)
    if (j - 1 < t) p = MUL_ul(p, SV_AT(shape, j - 1));
  return p;
}
/* Inv (column-major) at the ghost position g */
static inline int c20_inv_col(fb6_t data, sv4_t shape, sv4_t strides, sv4_t oshape, sv4_t ostrides)
{
  unsigned long n = SV_LEN(shape);
  return c20_rep(data, shape, strides, oshape, ostrides)
      && SV_LEN(strides) == n && SV_LEN(oshape) == n && SV_LEN(ostrides) == n
      && c20_numel(shape) == SV_LEN(data)
      && IMPLIES(g < n, SV_AT(ostrides, g) == c20_prod_desc(shape, g)           /* layout strides used for addressing */
                     && SV_AT(oshape, g) == SV_AT(shape, n - 1UL - g)           /* functor keeps the reversed shape */
                     && SV_AT(strides, g) == c20_prod(shape, g + 1, n));        /* strides_ member: row-major strides of shape_ */
}
#define C20_INVC_OF(x) c20_inv_col((x).data_, (x).shape_, (x).strides_, (x).offset_.shape_, (x).offset_.strides_)

static inline int pre_verif_ndc_mk(fb6_t data, sv4_t shape, sv4_t strides, sv4_t oshape, sv4_t ostrides)
{ return c20_rep(data, shape, strides, oshape, ostrides); }
static inline int post_verif_ndc_mk(fb6_t data, sv4_t shape, sv4_t strides, sv4_t oshape, sv4_t ostrides, ndc_t ret)
{
  int ok = SV_LEN(ret.data_) == SV_LEN(data) && SV_LEN(ret.shape_) == SV_LEN(shape) && SV_LEN(ret.strides_) == SV_LEN(strides)
        && SV_LEN(ret.offset_.shape_) == SV_LEN(oshape) && SV_LEN(ret.offset_.strides_) == SV_LEN(ostrides);
  for (unsigned long t = 0; t < C20_BUF; t++)
    ok = ok && c20_feq(SV_AT(ret.data_, t), SV_AT(data, t));
  for (unsigned long t = 0; t < C20_DIM; t++)
    ok = ok && SV_AT(ret.shape_, t) == SV_AT(shape, t) && SV_AT(ret.strides_, t) == SV_AT(strides, t)
            && SV_AT(ret.offset_.shape_, t) == SV_AT(oshape, t) && SV_AT(ret.offset_.strides_, t) == SV_AT(ostrides, t);
  return ok;
}

static inline int pre_verif_ndc_default(void) { return 1; }
static inline int post_verif_ndc_default(ndc_t ret) { return C20_INVC_OF(ret); }

static inline int pre_verif_ndc_resize(fb6_t data, sv4_t shape, sv4_t strides, sv4_t oshape, sv4_t ostrides, sv4_t new_shape)
{ return c20_rep(data, shape, strides, oshape, ostrides) && SV_LEN(new_shape) <= C20_DIM; }
static inline int post_verif_ndc_resize(fb6_t data, sv4_t shape, sv4_t strides, sv4_t oshape, sv4_t ostrides, sv4_t new_shape, ndc_res_t ret)
{
  if (ret.ok) return C20_INVC_OF(ret.a) && c20_same4(ret.a.shape_, new_shape);
  return C20_SAME_OF(ret.a, data, shape, strides, oshape, ostrides);
}
#define C20_REFUSED_DIM_CHANGE(shape, new_shape) (c20_numel(new_shape) > C20_BUF && SV_LEN(new_shape) != SV_LEN(shape))
