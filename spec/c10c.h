/* C10 spec, column-major result layout (inst/c10c.cpp) */
#include "spec/abi.h"
#define FEQ(x, y) ((x) == (y) || ((x) != (x) && (y) != (y)))
/* column-major 3x2 output: T(i,j) = data[j*3+i] is stored at i + 3*j, i.e. the buffer equals the source buffer */
static inline int pre_verif_eval_into_colmajor(fb6_t data) { return SV_LEN(data) == 6UL; }
static inline int post_verif_eval_into_colmajor(fb6_t data, fb6_t ret)
{
  int ok = SV_LEN(ret) == 6UL;
  for (unsigned long i = 0; i < 3; i++) for (unsigned long j = 0; j < 2; j++) ok = ok && FEQ(SV_AT(ret, i + 3UL * j), SV_AT(data, j * 3UL + i));
  return ok;
}
